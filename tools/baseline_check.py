#!/usr/bin/env python3
"""usage: baseline_check.py <cargo test log>: every BASELINE stable_pass test is seen ok; failures only from always_fail."""
import json,re,sys
log=open(sys.argv[1]).read()
base=json.load(open('/root/.vp/BASELINE.json'))
failed=set(re.findall(r'^test (\S+) \.\.\. FAILED',log,re.M))
ok=set(re.findall(r'^test (\S+) \.\.\. ok',log,re.M))
af=set(x.split('::',1)[1] for x in base['always_fail'])
sp=[re.sub(r'^bin/[^:]+::','',x.split('::',1)[1]) for x in base['stable_pass']]
newfail=[f for f in failed if not any(a.endswith(f) for a in af)]
notok=[s for s in sp if not any(s.endswith(o) for o in ok)]
print("ok:",len(ok),"failed:",len(failed),"new failures:",newfail,"stable tests not seen ok:",notok[:10])
sys.exit(1 if newfail or notok else 0)
