#!/usr/bin/env python3
"""Writes /verif/data/charsets_raw.json: per DICOM character set, the code points CPython's codec can
encode as a single character, with their bytes (hex).  Run once; the result is pinned in git.
The harness sub-command `vcheck __pin-charsets` then cross-checks it against the tree and writes
data/charsets.json (disagreements dropped and listed)."""
import json
SETS = {
    "ISO_IR 6": "ascii",
    "ISO_IR 100": "iso8859_1",
    "ISO_IR 101": "iso8859_2",
    "ISO_IR 109": "iso8859_3",
    "ISO_IR 110": "iso8859_4",
    "ISO_IR 144": "iso8859_5",
    "ISO_IR 127": "iso8859_6",
    "ISO_IR 126": "iso8859_7",
    "ISO_IR 138": "iso8859_8",
    "ISO_IR 166": "tis_620",
    "ISO_IR 192": "utf_8",
    # multi-byte / stateful sets: sample tables only (single characters)
    "ISO_IR 13": "shift_jis",
    "ISO_IR 87": "iso2022_jp",
    "ISO_IR 149": "cp949",
    "GB18030": "gb18030",
    "GBK": "gbk",
}
out = {}
for name, codec in SETS.items():
    table = []
    outside = []
    rng = range(0x20, 0x10000) if name != "ISO_IR 192" else list(range(0x20, 0x3000, 7)) + list(range(0x3000, 0x10000, 97)) + [0x1F600, 0x10348, 0x10FFFF]
    for cp in rng:
        if 0xD800 <= cp <= 0xDFFF or cp == 0x5C or cp == 0x7F:
            continue
        ch = chr(cp)
        try:
            b = ch.encode(codec)
            if b.decode(codec) != ch:
                continue
        except Exception:
            outside.append(cp)
            continue
        table.append([cp, b.hex()])
    if len(table) > 3000 and name != "ISO_IR 192":
        # multi-byte sets: a pinned sample (every k-th code point) plus every character whose encoding
        # contains the byte 0x5C (backslash), which is what the value splitter may trip over
        k = len(table) // 600
        with5c = [t for t in table if "5c" in [t[1][i:i+2] for i in range(0, len(t[1]), 2)]][:120]
        table = sorted({tuple(t) for t in table[::k]} | {tuple(t) for t in with5c})
        table = [list(t) for t in table]
    # code points the codec cannot encode: a sample (all of them for the single-byte sets is too much)
    step = max(1, len(outside) // 400)
    out[name] = {"python_codec": codec, "table": table, "outside_sample": outside[::step]}
    print(name, codec, len(table))
json.dump(out, open('/verif/data/charsets_raw.json', 'w'))
