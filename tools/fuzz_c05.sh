#!/bin/bash
# usage: tools/fuzz_c05.sh <total runs> <seed> [parallel jobs]
# Coverage-guided campaign over the C05 drivers (libFuzzer, nightly): builds the target against
# /repo's working tree, seeds a fresh corpus from the generators, runs a fixed number of
# executions per job, and writes fuzz/last_campaign.json (executions, crash artifacts converted to
# replay cases).  Exit 0 = campaign ran (crashes are judged by `vcheck C05`), 2 = infrastructure.
set -u
runs="${1:-30000}"; seed="${2:-1}"; jobs="${3:-14}"
root="$(cd "$(dirname "$(readlink -f "$0")")/.." && pwd)"
export CARGO_NET_OFFLINE=true
cd "$root/harness" || exit 2
( flock "$root/harness/.build.lock" cargo +nightly fuzz build --fuzz-dir "$root/fuzz" readers ) >"$root/fuzz/build.log" 2>&1 || { tail -30 "$root/fuzz/build.log" >&2; echo "FUZZ-BUILD-FAILURE" >&2; exit 2; }
corpus="$root/fuzz/corpus/readers"; art="$root/fuzz/artifacts/readers"; work="$root/fuzz/work"
rm -rf "$corpus" "$art" "$work"; mkdir -p "$corpus" "$art" "$work"
"$root/harness/target/release/vcheck" __c05-corpus "$corpus" 60 "$seed" >/dev/null || exit 2
[ "$seed" = "0" ] && lseed=1 || lseed="$seed"
bin=$(ls "$root"/fuzz/target/*/release/readers 2>/dev/null | head -1)
[ -x "$bin" ] || { echo "fuzz binary not found" >&2; exit 2; }
t0=$(date +%s)
# fork mode: a child that hits the allocation limit (declared lengths of hundreds of MB are
# legitimate work for a reader, but machine dependent) is replaced and the campaign goes on
( cd "$work" && RAYON_NUM_THREADS=1 "$bin" "$corpus" -fork="$jobs" -ignore_ooms=1 -ignore_timeouts=1 -runs="$runs" -seed="$lseed" -max_len=8192 -len_control=0 -timeout=30 -rss_limit_mb=1500 -malloc_limit_mb=64 -artifact_prefix="$art/" ) >"$root/fuzz/run.log" 2>&1
t1=$(date +%s)
execs=$(grep -o '^#[0-9]*:' "$root/fuzz/run.log" | tail -1 | tr -dc 0-9)
execs=${execs:-0}
n=0; list=""
for f in "$art"/crash-* "$art"/timeout-* "$art"/oom-*; do
  [ -f "$f" ] || continue
  case "$f" in *oom-*) continue;; esac   # allocation limits depend on the machine: inconclusive
  n=$((n+1)); out="$root/fuzz/artifacts/case-$n.json"
  "$root/harness/target/release/vcheck" __c05-from-fuzz "$f" "$out" && list="$list\"$out\","
done
printf '{"executions": %s, "jobs": %s, "runs": %s, "seed": %s, "wall_s": %s, "corpus_files": %s, "cases": [%s]}\n' "$execs" "$jobs" "$runs" "$seed" "$((t1-t0))" "$(ls "$corpus" | wc -l)" "${list%,}" > "$root/fuzz/last_campaign.json"
cat "$root/fuzz/last_campaign.json"
