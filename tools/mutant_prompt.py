#!/usr/bin/env python3
"""Prints the sub-agent prompt for a property id (text of the property only, nothing from /verif's machinery)."""
import json, sys
pid = sys.argv[1]
wt = sys.argv[2]
extra = sys.argv[3] if len(sys.argv) > 3 else ''
for l in open('/verif/properties.jsonl'):
    p = json.loads(l)
    if p['id'] == pid:
        break
print(f"""You are helping to evaluate a verification framework by producing realistic *seeded defects* for a Rust code base.

The code base is dicom-rs (pure-Rust DICOM libraries and tools). You have your own scratch git worktree of it at {wt} . Work ONLY inside {wt} (never touch /repo, and do not read or write anything under /verif). The sandbox has no network; build with `cargo ... --offline`. Use `CARGO_TARGET_DIR={wt}/target`.

Here is a semantic property the code base is supposed to satisfy:

  Title: {p['title']}
  Statement: {p['statement']}
  Quantified over: {p['quantifier']['text']}
  Relevant files: {', '.join(p['anchors']['files'])}

Task: produce TWO independent, different source changes ("mutants") to dicom-rs, each of which
  (a) BREAKS this property (for some input / configuration / history the property quantifies over),
  (b) still compiles, and
  (c) still passes the existing test suite of the affected crates (run `cargo test --offline -p <crate>` for every crate you touched and every crate whose tests exercise the code you touched; tests that need downloaded sample files fail offline both before and after your change - ignore exactly those that also fail on the unmodified tree),
  (d) is *subtle*: it must need something specific to manifest - an unusual input (a particular VR, length, boundary value, nesting, combination of options), a multi-step sequence of operations, or two cooperating sites that each look fine alone. It must NOT be something ordinary use or the first simple example would expose at once. Think of realistic programming mistakes: an off-by-one at a boundary, a wrong branch for one rare variant, a swapped pair of fields for one case, a missing pad/flush/update on one path, a condition that is slightly too broad or too narrow.
The two mutants should be in different places / exercise different aspects of the property.
{extra}

For each mutant k in (1, 2) deliver, inside {wt}/deliver/m<k>/ :
  - patch.diff : `git diff` of the change against the worktree's HEAD (only the mutant, nothing else),
  - demo.rs (or a small cargo test / example file plus instructions) : a small demonstration program or test that FAILS with the change applied and PASSES without it - and actually run it both ways and record the outputs,
  - notes.md : what the change is, which property clause it breaks, what exactly is needed for it to manifest, and the exact commands you ran (test suite + demonstration) with their results.
Keep the worktree itself clean at the end (git checkout -- . so that HEAD is unmodified; the deliverables live in the untracked deliver/ directory). Make the demonstration self-contained: a file that can be dropped into an existing crate's tests/ directory (or examples/) of the worktree and run with cargo offline.

Be efficient: build only the crates you need. When done, reply with a short summary of the two mutants (files touched, trigger condition) - no more than 15 lines.""")
