#!/bin/bash
# usage: tools/soak.sh <tier> <seed-from> <seed-to> [ids...]   — runs checks over several seeds, reports every non-zero exit
tier="$1"; a="$2"; b="$3"; shift 3
cd "$(dirname "$(readlink -f "$0")")/.."
ids="$@"
if [ -z "$ids" ]; then ids=$(python3 -c "import json; print(' '.join(c['property_id'] for c in json.load(open('MANIFEST.json'))['checks']))"); fi
for s in $(seq $a $b); do
  for id in $ids; do
    out=$(VERIF_SEED=$s ./check $id $tier 2>&1); rc=$?
    if [ $rc -ne 0 ]; then echo "SOAK-FAIL id=$id seed=$s tier=$tier rc=$rc"; echo "$out" | grep -E "VIOLATION|signature|detail|INFRA" | head -6; fi
  done
done
echo "SOAK-DONE tier=$tier seeds=$a..$b ids=$ids"
