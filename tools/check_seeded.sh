#!/bin/bash
# usage: tools/check_seeded.sh [seeded ids...] — applies every kept seeded change to /repo in turn, runs the quick check of
# its property and reports whether it is still caught (exit 1 with a VIOLATION line).  Leaves /repo clean.
cd "$(dirname "$(readlink -f "$0")")/.."
evbak=$(mktemp -d); cp -a evidence/. "$evbak"/   # evidence of mutant runs is not evidence: restored at the end
ids="$@"; [ -z "$ids" ] && ids=$(ls seeded)
for id in $ids; do
  d=seeded/$id; prop=$(python3 -c "import json; print(json.load(open('$d/meta.json'))['property'])")
  if ! git -C /repo apply --check "$PWD/$d/patch.diff" 2>/dev/null; then echo "SEEDED $id prop=$prop: PATCH NO LONGER APPLIES"; continue; fi
  git -C /repo apply "$PWD/$d/patch.diff"
  out=$(./check $prop quick 2>&1); rc=$?
  git -C /repo checkout -- . ; git -C /repo clean -fdq -- . 2>/dev/null
  sig=$(echo "$out" | grep -m1 "signature:" | cut -c1-150)
  echo "SEEDED $id prop=$prop rc=$rc $sig"
done
cp -a "$evbak"/. evidence/; rm -rf "$evbak"
find replays -name '*.json' -delete 2>/dev/null
git -C /repo status --short
