#!/usr/bin/env python3
"""Regenerates the tables of DESIGN.md 8.1 (fixed), 8.2 (known findings) and 8.5 (seeded changes)
from known_findings.jsonl and seeded/*/meta.json.  The prose around the tables is left alone."""
import json, glob, re, os
root = os.path.dirname(os.path.dirname(os.path.abspath(__file__)))
fixed, known = [], []
for l in open(os.path.join(root, 'known_findings.jsonl')):
    l = l.strip()
    if l.startswith('fixed:'):
        m = re.match(r'fixed: property=(C\d+) (\S+) (.*)', l)
        fixed.append(m.groups())
    elif l.startswith('{'):
        known.append(json.loads(l))
esc = lambda s: s.replace('|', '\\|')
t1 = ['| property | commit | what failed |', '|---|---|---|'] + [f'| {p} | {c} | {esc(w)} |' for p, c, w in sorted(fixed, key=lambda x: x[0])]
t2 = ['| property | signature | what fails and why it is not repaired here |', '|---|---|---|'] + [f"| {k['property']} | `{esc(k['signature'])}` | {esc(k['what'])} |" for k in known]
t5 = ['| seeded id | needs to manifest | caught by |', '|---|---|---|']
for d in sorted(glob.glob(os.path.join(root, 'seeded/*/meta.json'))):
    m = json.load(open(d))
    t5.append(f"| {d.split('/')[-2]} | {esc(m.get('needs_to_manifest',''))} | {esc(m.get('caught_by',''))} |")
p = os.path.join(root, 'DESIGN.md')
s = open(p).read()
def repl(s, header_start, table):
    i = s.index(header_start)
    j = s.index('\n\n', i)  # end of table block
    return s[:i] + '\n'.join(table) + s[j:]
s = repl(s, '| property | commit | what failed |', t1)
s = repl(s, '| property | signature | what fails and why it is not repaired here |', t2)
s = repl(s, '| seeded id | needs to manifest | caught by |', t5)
open(p, 'w').write(s)
print(len(fixed), 'fixed;', len(known), 'known;', len(t5) - 2, 'seeded')
