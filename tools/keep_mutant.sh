#!/bin/bash
# usage: keep_mutant.sh <worktree> <mK> <seeded id> <property> "<needs>" "<what I ran>" "<caught by>"
set -u
wt="$1"; m="$2"; id="$3"; prop="$4"; needs="$5"; ran="$6"; caught="$7"
d=/verif/seeded/$id; mkdir -p "$d"
cp "$wt/deliver/$m/patch.diff" "$d/patch.diff"
cp "$wt/deliver/$m/demo.rs" "$d/demo.rs" 2>/dev/null
cp "$wt/deliver/$m/notes.md" "$d/notes.md" 2>/dev/null
python3 - "$d" "$prop" "$needs" "$ran" "$caught" <<'PY'
import json,sys
d,prop,needs,ran,caught=sys.argv[1:6]
json.dump({"property":prop,"breaks":prop,"needs_to_manifest":needs,"what_i_ran":ran,"caught_by":caught,"source":"independent sub-agent, given only the property text and a scratch worktree"},open(d+"/meta.json","w"),indent=1)
PY
echo kept $id
