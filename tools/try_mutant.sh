#!/bin/bash
# usage: tools/try_mutant.sh <patch.diff> <ID> [<ID>...]  — applies the patch to /repo, runs the quick checks, reverts.
set -u
patch="$1"; shift
cd /verif
if ! git -C /repo apply --check "$patch" 2>/dev/null; then echo "PATCH DOES NOT APPLY: $patch"; exit 3; fi
git -C /repo apply "$patch"
evbak=$(mktemp -d); cp -a /verif/evidence/. "$evbak"/   # evidence of mutant runs is not evidence: restored afterwards
for id in "$@"; do
  out=$(./check "$id" ${TIER:-quick} 2>&1); rc=$?
  echo "[$id] exit=$rc $(echo "$out" | grep -E 'signature:' | head -3 | tr '\n' ' ')"
done
git -C /repo checkout -- .
cp -a "$evbak"/. /verif/evidence/; rm -rf "$evbak"
find /verif/replays -name '*.json' -delete
git -C /repo status --short
