#!/bin/bash
# usage: confirm_mutant.sh <worktree> <mK> <dest test path relative to worktree> <cargo pkg> [extra pkgs to test...]
# Confirms in the scratch worktree: demo passes without the patch, fails with it; touched crates' tests still pass with it.
set -u
wt="$1"; m="$2"; dest="$3"; pkg="$4"; shift 4
cd "$wt" || exit 3
export CARGO_TARGET_DIR="$wt/target" CARGO_NET_OFFLINE=true
git checkout -q -- . 2>/dev/null
mkdir -p "$(dirname "$dest")"; cp "deliver/$m/demo.rs" "$dest"
tname=$(basename "$dest" .rs)
cargo test --offline -q -p "$pkg" ${FEAT:+--features $FEAT} --test "$tname" >/tmp/confirm_without.log 2>&1; r0=$?
git apply "deliver/$m/patch.diff" || { echo "patch does not apply"; rm -f "$dest"; exit 3; }
cargo test --offline -q -p "$pkg" ${FEAT:+--features $FEAT} --test "$tname" >/tmp/confirm_with.log 2>&1; r1=$?
suite_ok=1
for p in "$pkg" "$@"; do
  cargo test --offline -p "$p" ${FEAT:+--features $FEAT} --lib >/tmp/confirm_suite_$p.log 2>&1
  # failing tests that are not in the baseline's always_fail list (tests needing downloaded sample files)
  bad=$(grep -E "^test .* \.\.\. FAILED" /tmp/confirm_suite_$p.log | sed -E 's/^test (.*) \.\.\. FAILED/\1/' | while read t; do python3 -c "
import json,sys
b=json.load(open('/root/.vp/BASELINE.json'))
t=sys.argv[1]
print('' if any(x.endswith('::'+t) for x in b['always_fail']) else t)" "$t"; done | grep -v '^$')
  if [ -n "$bad" ]; then echo "NEW FAILURES in $p: $bad"; suite_ok=0; fi
  grep -q "test result" /tmp/confirm_suite_$p.log || { echo "no test result for $p"; suite_ok=0; }
done
git checkout -q -- .; rm -f "$dest"
echo "demo without patch: exit $r0 (want 0); with patch: exit $r1 (want != 0); lib tests of touched crates with patch ok=$suite_ok"
