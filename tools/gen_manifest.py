#!/usr/bin/env python3
"""Regenerates /verif/MANIFEST.json from tools/claims.json (one entry per claimed property)."""
import json, os, sys
root = os.path.dirname(os.path.dirname(os.path.abspath(__file__)))
claims = json.load(open(os.path.join(root, "tools", "claims.json")))
props = [json.loads(l) for l in open(os.path.join(root, "properties.jsonl"))]
checks, na = [], []
for p in props:
    pid = p["id"]
    c = claims.get(pid)
    if c and c.get("claimed", True):
        checks.append({
            "property_id": pid,
            "quick_cmd": f"./check {pid} quick",
            "thorough_cmd": f"./check {pid} thorough",
            "evidence_file": f"/verif/evidence/{pid}.json",
            "replay_cmd_template": f"./check {pid} --replay {{path}}",
            "engine": "vcheck",
            "level_claimed": {
                "category": c.get("category", "exploration"),
                "text": c["text"],
                "design_ref": c.get("design_ref", f"DESIGN.md §4 {pid}"),
            },
            "level_note": c["note"],
            "technique": c["technique"],
        })
    else:
        na.append({"property_id": pid, "reason": (c or {}).get("reason", "check not built yet in this session (planned, see DESIGN.md §4); not claimed until its check exists")})
m = {
    "version": 1,
    "setup_cmd": "cd /verif/harness && CARGO_NET_OFFLINE=true cargo build --release --offline -p vcheck && CARGO_NET_OFFLINE=true cargo build --release --offline -p regprobe && cd /repo && CARGO_NET_OFFLINE=true cargo build --release --offline -p dicom-storescp -p dicom-storescu -p dicom-fromimage -p dicom-toimage --target-dir /verif/target/tools",
    "hooks": {
        "guard": "cargo feature `verif-hooks` on crate dicom-ul (default off)",
        "enable": "the harness crates depend on dicom-ul with features [\"async\", \"verif-hooks\"] (harness/vcheck/Cargo.toml, harness/regprobe/Cargo.toml)",
        "baseline_off_cmd": "cd /repo && cargo test --workspace --no-fail-fast --offline",
        "source_commits": claims.get("_hook_commits", []),
        "add_only": True,
    },
    "engines": [
        {"name": "vcheck", "path": "harness/vcheck", "serves_properties": [c["property_id"] for c in checks],
         "kind_free_text": "proptest-driven generators + exhaustive enumerations + fault injection against independent reference implementations (harness/refimpl); isolated worker processes for crash/abort/hang oracles (C05); scripted protocol peers and the real tool binaries built from /repo (C30, C32, C33, C35); shrinking to JSON replay files"},
        {"name": "libfuzzer-readers", "path": "fuzz", "serves_properties": ["C05"],
         "kind_free_text": "cargo-fuzz / libFuzzer target `readers` over the same ten C05 entry-point drivers (harness/drivers), coverage-guided, fork mode; run by tools/fuzz_c05.sh inside `./check C05 thorough`; every crash input is converted into a vcheck replay case and judged by the C05 worker oracle"},
    ],
    "checks": checks,
    "not_applicable": na,
    "notes": "All checks are generated-input search (property-based testing / fuzzing family). exit 0 = held (KNOWN-FINDING lines possible), exit 1 = VIOLATION, exit 2 = infrastructure trouble / inconclusive. Known findings are keyed by signature in known_findings.jsonl.",
}
json.dump(m, open(os.path.join(root, "MANIFEST.json"), "w"), indent=1)
print(f"{len(checks)} claimed, {len(na)} not claimed")
