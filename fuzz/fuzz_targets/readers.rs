#![no_main]
//! libFuzzer target over the C05 drivers: byte 0 selects the entry-point family, bytes 1-4 its
//! parameters, the rest is the input.  A panic or abort is the failure; the crashing input is
//! converted to a JSON replay case by /verif/tools/fuzz_c05.sh.
use libfuzzer_sys::fuzz_target;

fuzz_target!(|data: &[u8]| {
    if data.len() < 5 {
        return;
    }
    let entry = data[0] % drivers::ENTRIES.len() as u8;
    let params = u32::from_le_bytes([data[1], data[2], data[3], data[4]]);
    let _ = drivers::drive(entry, params, &data[5..]);
});
