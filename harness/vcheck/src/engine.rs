//! Generic property-check engine: proptest runners on worker threads, panic capture,
//! known-finding filter, shrinking to replay files, evidence accounting.

use proptest::strategy::BoxedStrategy;
use proptest::test_runner::{Config, RngSeed, TestCaseError, TestError, TestRunner};
use serde::de::DeserializeOwned;
use serde::Serialize;
use serde_json::{json, Value as Json};
use std::cell::RefCell;
use std::collections::{BTreeMap, HashSet};
use std::hash::{Hash, Hasher};
use std::path::PathBuf;
use std::sync::atomic::{AtomicBool, Ordering};
use std::sync::Mutex;
use std::time::Instant;

#[derive(Clone, Copy, PartialEq, Eq, Debug)]
pub enum Tier {
    Quick,
    Thorough,
}

/// What a property function observed on one case.
#[derive(Default)]
pub struct Obs {
    pub nontrivial: bool,
    pub classes: Vec<String>,
    pub viols: Vec<(String, String)>,
    pub skipped: Option<String>,
    /// extra oracle evaluations performed inside the case (beyond 1)
    pub extra_evals: u64,
}

impl Obs {
    pub fn fail(&mut self, sig: impl Into<String>, detail: impl Into<String>) {
        self.viols.push((sig.into(), detail.into()));
    }
    pub fn class(&mut self, c: impl Into<String>) {
        self.classes.push(c.into());
    }
    pub fn skip(&mut self, why: impl Into<String>) {
        self.skipped = Some(why.into());
    }
    pub fn failed(&self) -> bool {
        !self.viols.is_empty()
    }
}

thread_local! {
    static LAST_PANIC: RefCell<Option<(String, String)>> = const { RefCell::new(None) };
    static IN_CASE: RefCell<bool> = const { RefCell::new(false) };
}

pub fn install_panic_hook() {
    let verbose = std::env::var("VERIF_VERBOSE").is_ok();
    let default = std::panic::take_hook();
    std::panic::set_hook(Box::new(move |info| {
        let in_case = IN_CASE.with(|c| *c.borrow());
        let loc = info
            .location()
            .map(|l| l.file().to_string())
            .unwrap_or_else(|| "?".into());
        let msg = if let Some(s) = info.payload().downcast_ref::<&str>() {
            s.to_string()
        } else if let Some(s) = info.payload().downcast_ref::<String>() {
            s.clone()
        } else {
            "<non-string panic>".to_string()
        };
        if in_case {
            LAST_PANIC.with(|p| *p.borrow_mut() = Some((loc, msg)));
            if verbose {
                default(info);
            }
        } else {
            default(info);
        }
    }));
}

/// Normalise a panic message: digits collapsed, truncated.
pub fn norm_msg(msg: &str) -> String {
    // drop quoted input echoes (`...` and '...') so that one defect has one signature
    let mut cleaned = String::new();
    let mut quote: Option<char> = None;
    for ch in msg.chars() {
        match quote {
            Some(q) => {
                if ch == q {
                    quote = None;
                    cleaned.push('_');
                }
            }
            None => {
                if ch == '`' {
                    quote = Some('`');
                } else {
                    cleaned.push(ch);
                }
            }
        }
    }
    let msg: &str = match cleaned.find("; it is inside") {
        Some(p) => &cleaned[..p],
        None => &cleaned,
    };
    let mut out = String::new();
    let mut last_digit = false;
    for ch in msg.chars() {
        if ch.is_ascii_digit() {
            if !last_digit {
                out.push('N');
            }
            last_digit = true;
        } else {
            last_digit = false;
            if ch == '\n' {
                out.push(' ');
            } else {
                out.push(ch);
            }
        }
        if out.len() >= 90 {
            break;
        }
    }
    out
}

pub fn norm_loc(loc: &str) -> String {
    if let Some(p) = loc.find("/repo/") {
        return loc[p + 6..].to_string();
    }
    if let Some(p) = loc.find("/registry/src/") {
        // strip the registry hash dir
        let rest = &loc[p + 14..];
        if let Some(q) = rest.find('/') {
            return format!("dep:{}", &rest[q + 1..]);
        }
    }
    if let Some(p) = loc.find("/rustc/") {
        let rest = &loc[p + 7..];
        if let Some(q) = rest.find('/') {
            return format!("std:{}", &rest[q + 1..]);
        }
    }
    loc.to_string()
}

/// Run `f` catching panics; a panic becomes `Err((signature, detail))` with signature
/// `panic@<file>:<msg>`.  A panic inside harness code is flagged `HARNESS-PANIC` instead.
pub fn catch<R>(what: &str, f: impl FnOnce() -> R) -> Result<R, (String, String)> {
    let prev = IN_CASE.with(|c| std::mem::replace(&mut *c.borrow_mut(), true));
    LAST_PANIC.with(|p| *p.borrow_mut() = None);
    let r = std::panic::catch_unwind(std::panic::AssertUnwindSafe(f));
    IN_CASE.with(|c| *c.borrow_mut() = prev);
    match r {
        Ok(v) => Ok(v),
        Err(_) => {
            let (loc, msg) = LAST_PANIC
                .with(|p| p.borrow_mut().take())
                .unwrap_or(("?".into(), "?".into()));
            let nloc = norm_loc(&loc);
            if loc.contains("/verif/") || nloc.starts_with("vcheck/") || nloc.starts_with("refimpl/")
            {
                Err((
                    format!("HARNESS-PANIC@{}:{}", nloc, norm_msg(&msg)),
                    format!("harness panic in {what}: {loc}: {msg}"),
                ))
            } else {
                Err((
                    format!("panic@{}:{}", nloc, norm_msg(&msg)),
                    format!("panic in {what}: {loc}: {msg}"),
                ))
            }
        }
    }
}

/// Like `catch`, but records the panic as a violation on `obs`.
pub fn guarded<R>(obs: &mut Obs, what: &str, f: impl FnOnce() -> R) -> Option<R> {
    match catch(what, f) {
        Ok(v) => Some(v),
        Err((sig, detail)) => {
            obs.fail(sig, detail);
            None
        }
    }
}

#[derive(Clone, Debug, serde::Deserialize, Serialize)]
pub struct KnownFinding {
    pub property: String,
    pub signature: String,
    /// "known" or "fixed"
    pub status: String,
    pub what: String,
    #[serde(default)]
    pub commit: Option<String>,
}

pub struct Ctx {
    pub prop: String,
    pub tier: Tier,
    pub seed: u64,
    pub root: PathBuf,
    pub known: Vec<KnownFinding>,
    pub strict: bool,
    /// replay mode: (sub-check name, IR)
    pub replay: Option<(String, Json)>,
    pub threads: usize,
    pub start: Instant,
    pub subs: Mutex<Vec<SubReport>>,
    pub violations: Mutex<Vec<(String, String, String)>>, // (sig, detail, replay path)
    pub infra_errors: Mutex<Vec<String>>,
    pub level: Mutex<String>,
    pub assumptions: Mutex<Vec<String>>,
    pub exhaustive: AtomicBool,
}

#[derive(Default, Clone)]
pub struct SubReport {
    pub name: String,
    pub rule: String,
    pub evaluations: u64,
    pub distinct_nontrivial: u64,
    pub skipped: u64,
    pub classes: BTreeMap<String, u64>,
    pub excluded_known: BTreeMap<String, u64>,
    pub samples: Vec<Json>,
    pub exhaustive: bool,
    pub wall_s: f64,
}

#[derive(Default)]
struct Acc {
    evaluations: u64,
    nontrivial: HashSet<u64>,
    skipped: u64,
    classes: BTreeMap<String, u64>,
    excluded_known: BTreeMap<String, u64>,
    samples: Vec<Json>,
}

impl Acc {
    fn merge(&mut self, o: Acc) {
        self.evaluations += o.evaluations;
        self.nontrivial.extend(o.nontrivial);
        self.skipped += o.skipped;
        for (k, v) in o.classes {
            *self.classes.entry(k).or_default() += v;
        }
        for (k, v) in o.excluded_known {
            *self.excluded_known.entry(k).or_default() += v;
        }
        for s in o.samples {
            if self.samples.len() < 6 {
                self.samples.push(s);
            }
        }
    }
}

fn hash_json(j: &str) -> u64 {
    let mut h = std::collections::hash_map::DefaultHasher::new();
    j.hash(&mut h);
    h.finish()
}

fn derive_seed(seed: u64, name: &str, worker: usize) -> u64 {
    let mut h = std::collections::hash_map::DefaultHasher::new();
    seed.hash(&mut h);
    name.hash(&mut h);
    worker.hash(&mut h);
    h.finish()
}

fn truncate_json(v: &Json, budget: usize) -> Json {
    let s = v.to_string();
    if s.len() <= budget {
        v.clone()
    } else {
        let mut cut = budget;
        while !s.is_char_boundary(cut) {
            cut -= 1;
        }
        json!({"truncated_json": &s[..cut], "full_len": s.len()})
    }
}

impl Ctx {
    pub fn new(prop: &str, tier: Tier, seed: u64, root: PathBuf, strict: bool) -> Ctx {
        let mut known = vec![];
        let kf = root.join("known_findings.jsonl");
        if let Ok(txt) = std::fs::read_to_string(&kf) {
            for line in txt.lines() {
                let line = line.trim();
                if line.is_empty() || line.starts_with('#') || line.starts_with("fixed:") {
                    continue;
                }
                match serde_json::from_str::<KnownFinding>(line) {
                    Ok(k) => known.push(k),
                    Err(e) => eprintln!("warning: bad known_findings line: {e}: {line}"),
                }
            }
        }
        let threads = std::env::var("VERIF_THREADS")
            .ok()
            .and_then(|s| s.parse().ok())
            .unwrap_or_else(|| {
                std::thread::available_parallelism()
                    .map(|n| n.get())
                    .unwrap_or(4)
                    .min(16)
            });
        Ctx {
            prop: prop.to_string(),
            tier,
            seed,
            root,
            known,
            strict,
            replay: None,
            threads,
            start: Instant::now(),
            subs: Mutex::new(vec![]),
            violations: Mutex::new(vec![]),
            infra_errors: Mutex::new(vec![]),
            level: Mutex::new("exploration".into()),
            assumptions: Mutex::new(vec![]),
            exhaustive: AtomicBool::new(false),
        }
    }

    pub fn cases(&self, quick: u64, thorough: u64) -> u64 {
        let scale: f64 = std::env::var("VERIF_SCALE")
            .ok()
            .and_then(|s| s.parse().ok())
            .unwrap_or(1.0);
        let n = match self.tier {
            Tier::Quick => quick,
            Tier::Thorough => thorough,
        };
        ((n as f64 * scale) as u64).max(1)
    }

    pub fn is_known(&self, sig: &str) -> bool {
        !self.strict
            && self
                .known
                .iter()
                .any(|k| k.property == self.prop && k.status == "known" && k.signature == sig)
    }

    pub fn assume(&self, s: &str) {
        self.assumptions.lock().unwrap().push(s.to_string());
    }

    pub fn infra(&self, s: String) {
        eprintln!("INFRA: {s}");
        self.infra_errors.lock().unwrap().push(s);
    }

    fn record_violation<T: Serialize>(&self, sub: &str, sig: &str, detail: &str, ir: &T) {
        if sig.starts_with("HARNESS-PANIC") {
            self.infra(format!("{sub}: {sig}: {detail}"));
            return;
        }
        let body = json!({
            "property": self.prop,
            "sub": sub,
            "signature": sig,
            "detail": detail,
            "seed": self.seed,
            "ir": ir,
        });
        let txt = serde_json::to_string_pretty(&body).unwrap();
        let h = hash_json(&format!("{}{}{}", sub, sig, serde_json::to_string(ir).unwrap()));
        let dir = self.root.join("replays");
        let _ = std::fs::create_dir_all(&dir);
        let path = dir.join(format!("{}-{}-{:08x}.json", self.prop, sub, h as u32));
        let _ = std::fs::write(&path, txt);
        let mut v = self.violations.lock().unwrap();
        if !v.iter().any(|(s, _, _)| s == sig) {
            println!(
                "VIOLATION property={} replay={}",
                self.prop,
                path.display()
            );
            println!("  signature: {sig}");
            let d: String = detail.chars().take(600).collect();
            println!("  detail: {d}");
            v.push((sig.to_string(), detail.to_string(), path.display().to_string()));
        }
    }

    /// saved regression cases (data/regress/<PROP>-*.json) for a sub-check
    fn regress_cases(&self, sub: &str) -> Vec<(String, Json)> {
        let mut out = vec![];
        let dir = self.root.join("data").join("regress");
        let mut names: Vec<_> = match std::fs::read_dir(&dir) {
            Ok(rd) => rd.filter_map(|e| e.ok()).map(|e| e.path()).collect(),
            Err(_) => return out,
        };
        names.sort();
        for p in names {
            let fname = p.file_name().and_then(|s| s.to_str()).unwrap_or("").to_string();
            if !fname.starts_with(&format!("{}-", self.prop)) || !fname.ends_with(".json") {
                continue;
            }
            if let Ok(txt) = std::fs::read_to_string(&p) {
                if let Ok(j) = serde_json::from_str::<Json>(&txt) {
                    if j["sub"].as_str() == Some(sub) {
                        out.push((fname, j["ir"].clone()));
                    }
                }
            }
        }
        out
    }

    /// Evaluate one case: run the property function under panic capture.
    fn eval<T, F: Fn(&T, &mut Obs)>(name: &str, f: &F, v: &T) -> Obs {
        let mut obs = Obs::default();
        let r = catch(name, || f(v, &mut obs));
        if let Err((sig, detail)) = r {
            obs.fail(sig, detail);
        }
        obs
    }

    /// first violation of `obs` that is not a listed known finding
    fn first_unknown<'a>(&self, obs: &'a Obs) -> Option<&'a (String, String)> {
        obs.viols.iter().find(|(sig, _)| !self.is_known(sig))
    }

    fn account<T: Serialize>(&self, acc: &mut Acc, obs: &Obs, v: &T) {
        acc.evaluations += 1 + obs.extra_evals;
        if obs.skipped.is_some() {
            acc.skipped += 1;
            return;
        }
        for c in &obs.classes {
            *acc.classes.entry(c.clone()).or_default() += 1;
        }
        for (sig, _) in &obs.viols {
            if self.is_known(sig) {
                *acc.excluded_known.entry(sig.clone()).or_default() += 1;
            }
        }
        if obs.nontrivial {
            let js = serde_json::to_string(v).unwrap_or_default();
            let fresh = acc.nontrivial.insert(hash_json(&js));
            if fresh && acc.samples.len() < 3 {
                if let Ok(j) = serde_json::to_value(v) {
                    acc.samples.push(truncate_json(&j, 1500));
                }
            }
        }
    }

    fn finish_sub(&self, name: &str, rule: &str, acc: Acc, exhaustive: bool, t0: Instant) {
        let rep = SubReport {
            name: name.to_string(),
            rule: rule.to_string(),
            evaluations: acc.evaluations,
            distinct_nontrivial: acc.nontrivial.len() as u64,
            skipped: acc.skipped,
            classes: acc.classes,
            excluded_known: acc.excluded_known,
            samples: acc.samples,
            exhaustive,
            wall_s: t0.elapsed().as_secs_f64(),
        };
        eprintln!(
            "[{}] {}: {} evaluations, {} distinct non-trivial, {} skipped, {:.1}s{}",
            self.prop,
            name,
            rep.evaluations,
            rep.distinct_nontrivial,
            rep.skipped,
            rep.wall_s,
            if rep.excluded_known.is_empty() {
                String::new()
            } else {
                format!(", excluded known: {:?}", rep.excluded_known)
            }
        );
        if rep.evaluations > 20 && rep.skipped * 2 > rep.evaluations {
            self.infra(format!(
                "{name}: more than half of the cases were skipped ({} of {})",
                rep.skipped, rep.evaluations
            ));
        }
        self.subs.lock().unwrap().push(rep);
    }

    /// Random/structured generation driven by proptest, with shrinking.
    /// `mk_strategy` is called once per worker thread (proptest strategies are not `Send`).
    pub fn run_prop<T, G, F>(&self, name: &str, rule: &str, mk_strategy: G, cases: u64, f: F)
    where
        T: Serialize + DeserializeOwned + std::fmt::Debug + Clone + 'static,
        G: Fn() -> BoxedStrategy<T> + Sync,
        F: Fn(&T, &mut Obs) + Sync,
    {
        if let Some((sub, ir)) = &self.replay {
            if sub == name {
                self.replay_one(name, ir, &f);
            }
            return;
        }
        if let Ok(only) = std::env::var("VERIF_SUB") {
            if !name.contains(&only) {
                return;
            }
        }
        let t0 = Instant::now();
        let nthreads = self.threads.min(cases as usize).max(1);
        let stop = AtomicBool::new(false);
        let total = Mutex::new(Acc::default());
        // replay tier: saved regression cases of this sub-check run first, every time
        for (path, ir) in self.regress_cases(name) {
            match serde_json::from_value::<T>(ir) {
                Ok(v) => {
                    let obs = Self::eval(name, &f, &v);
                    self.account(&mut total.lock().unwrap(), &obs, &v);
                    if let Some((sig, detail)) = self.first_unknown(&obs) {
                        self.record_violation(name, sig, &format!("(regression case {path}) {detail}"), &v);
                    }
                }
                Err(e) => self.infra(format!("{name}: cannot decode regression case {path}: {e}")),
            }
        }
        let mk_strategy = &mk_strategy;
        std::thread::scope(|s| {
            for w in 0..nthreads {
                let my_cases =
                    cases / nthreads as u64 + u64::from((w as u64) < cases % nthreads as u64);
                let f = &f;
                let stop = &stop;
                let total = &total;
                std::thread::Builder::new()
                    .stack_size(256 << 20)
                    .spawn_scoped(s, move || {
                        if my_cases == 0 {
                            return;
                        }
                        let cfg = Config {
                            cases: my_cases as u32,
                            failure_persistence: None,
                            rng_seed: RngSeed::Fixed(derive_seed(self.seed, name, w)),
                            max_shrink_iters: 3000,
                            max_shrink_time: 60_000,
                            max_global_rejects: 1_000_000,
                            ..Config::default()
                        };
                        let mut runner = TestRunner::new(cfg);
                        let strategy = mk_strategy();
                        let acc = RefCell::new(Acc::default());
                        let failing = RefCell::new(false);
                        // the smallest failing value seen so far (kept in case the final
                        // shrunk value sits on a boundary that does not fail again)
                        let last_fail: RefCell<Option<(Json, String, String)>> = RefCell::new(None);
                        let res = runner.run(&strategy, |v| {
                            let shrinking = *failing.borrow();
                            if !shrinking && stop.load(Ordering::Relaxed) {
                                return Ok(());
                            }
                            let obs = Self::eval(name, f, &v);
                            if !shrinking {
                                self.account(&mut acc.borrow_mut(), &obs, &v);
                            }
                            match self.first_unknown(&obs) {
                                Some((sig, detail)) => {
                                    *failing.borrow_mut() = true;
                                    stop.store(true, Ordering::Relaxed);
                                    if let Ok(j) = serde_json::to_value(&v) {
                                        *last_fail.borrow_mut() = Some((j, sig.clone(), detail.clone()));
                                    }
                                    Err(TestCaseError::fail(sig.clone()))
                                }
                                None => Ok(()),
                            }
                        });
                        total.lock().unwrap().merge(acc.into_inner());
                        match res {
                            Ok(()) => {}
                            Err(TestError::Fail(_, v)) => {
                                // re-evaluate the shrunk value to get its own signature and detail
                                let obs = Self::eval(name, f, &v);
                                match self.first_unknown(&obs) {
                                    Some((sig, detail)) => {
                                        self.record_violation(name, sig, detail, &v)
                                    }
                                    None if last_fail.borrow().is_some() => {
                                        let (j, sig, detail) = last_fail.borrow_mut().take().unwrap();
                                        self.record_violation(name, &sig, &detail, &j)
                                    }
                                    None => self.infra(format!(
                                        "{name}: shrunk value no longer fails (flaky oracle?)"
                                    )),
                                }
                            }
                            Err(TestError::Abort(r)) => {
                                self.infra(format!("{name}: proptest aborted: {r}"))
                            }
                        }
                    })
                    .unwrap();
            }
        });
        self.finish_sub(name, rule, total.into_inner().unwrap(), false, t0);
    }

    /// Plain enumeration over a finite list of cases (parallel, no shrinking needed:
    /// cases are expected to be small).  `exhaustive` marks a complete finite space.
    pub fn run_enum<T, F>(&self, name: &str, rule: &str, items: Vec<T>, exhaustive: bool, f: F)
    where
        T: Serialize + DeserializeOwned + std::fmt::Debug + Sync,
        F: Fn(&T, &mut Obs) + Sync,
    {
        if let Some((sub, ir)) = &self.replay {
            if sub == name {
                self.replay_one(name, ir, &f);
            }
            return;
        }
        if let Ok(only) = std::env::var("VERIF_SUB") {
            if !name.contains(&only) {
                return;
            }
        }
        let t0 = Instant::now();
        let nthreads = self.threads.min(items.len()).max(1);
        let total = Mutex::new(Acc::default());
        let chunk = items.len().div_ceil(nthreads).max(1);
        std::thread::scope(|s| {
            for part in items.chunks(chunk) {
                let f = &f;
                let total = &total;
                std::thread::Builder::new()
                    .stack_size(256 << 20)
                    .spawn_scoped(s, move || {
                        let mut acc = Acc::default();
                        let mut reported = 0;
                        for v in part {
                            let obs = Self::eval(name, f, v);
                            self.account(&mut acc, &obs, v);
                            if let Some((sig, detail)) = self.first_unknown(&obs) {
                                if reported < 3 {
                                    self.record_violation(name, sig, detail, v);
                                    reported += 1;
                                }
                            }
                        }
                        total.lock().unwrap().merge(acc);
                    })
                    .unwrap();
            }
        });
        if exhaustive {
            self.exhaustive.store(true, Ordering::Relaxed);
        }
        self.finish_sub(name, rule, total.into_inner().unwrap(), exhaustive, t0);
    }

    /// Replay one saved IR through a property function (strict: known findings are not excluded).
    pub fn replay_one<T, F>(&self, name: &str, ir: &Json, f: F) -> bool
    where
        T: Serialize + DeserializeOwned + std::fmt::Debug,
        F: Fn(&T, &mut Obs),
    {
        let v: T = match serde_json::from_value(ir.clone()) {
            Ok(v) => v,
            Err(e) => {
                self.infra(format!("{name}: cannot decode replay IR: {e}"));
                return false;
            }
        };
        let obs = Self::eval(name, &f, &v);
        let mut acc = Acc::default();
        self.account(&mut acc, &obs, &v);
        let t0 = Instant::now();
        if let Some((sig, detail)) = self.first_unknown(&obs) {
            self.record_violation(name, sig, detail, &v);
        }
        for (sig, d) in &obs.viols {
            eprintln!("replay: {sig}: {d}");
        }
        self.finish_sub(name, "replay of one saved case", acc, false, t0);
        true
    }

    /// Write evidence and compute the exit code.
    pub fn finish(&self) -> i32 {
        let subs = self.subs.lock().unwrap().clone();
        let viol = self.violations.lock().unwrap();
        let infra = self.infra_errors.lock().unwrap();
        let evaluations: u64 = subs.iter().map(|s| s.evaluations).sum();
        let distinct: u64 = subs.iter().map(|s| s.distinct_nontrivial).sum();
        let rule = subs
            .iter()
            .map(|s| format!("[{}] {}", s.name, s.rule))
            .collect::<Vec<_>>()
            .join(" || ");
        let mut samples = vec![];
        for s in &subs {
            for (i, x) in s.samples.iter().enumerate() {
                if i < 2 {
                    samples.push(json!({"sub": s.name, "case": x}));
                }
            }
        }
        let mut excluded: BTreeMap<String, u64> = BTreeMap::new();
        for s in &subs {
            for (k, v) in &s.excluded_known {
                *excluded.entry(k.clone()).or_default() += v;
            }
        }
        // KNOWN-FINDING lines: one per listed known finding of this property
        for k in &self.known {
            if k.property == self.prop && k.status == "known" {
                let hits = excluded.get(&k.signature).copied().unwrap_or(0);
                println!(
                    "KNOWN-FINDING: property={} {} [signature: {}; cases excluded this run: {}]",
                    self.prop, k.what, k.signature, hits
                );
            }
        }
        let sub_json: Vec<Json> = subs
            .iter()
            .map(|s| {
                json!({
                    "name": s.name, "rule": s.rule, "evaluations": s.evaluations,
                    "distinct_nontrivial": s.distinct_nontrivial, "skipped": s.skipped,
                    "classes": s.classes, "excluded_known": s.excluded_known,
                    "exhaustive": s.exhaustive, "wall_s": s.wall_s,
                })
            })
            .collect();
        let all_exh = !subs.is_empty() && subs.iter().all(|s| s.exhaustive);
        let ev = json!({
            "property_id": self.prop,
            "tier": match self.tier { Tier::Quick => "quick", Tier::Thorough => "thorough" },
            "seed": self.seed,
            "level": *self.level.lock().unwrap(),
            "coverage": {
                "evaluations": evaluations,
                "distinct_nontrivial": distinct,
                "rule": rule,
                "samples": samples,
                "exhaustive": all_exh,
                "sub_checks": sub_json,
                "excluded_known_findings": excluded,
            },
            "assumptions": *self.assumptions.lock().unwrap(),
            "wall_s": self.start.elapsed().as_secs_f64(),
            "violations": viol.len(),
            "infrastructure_errors": *infra,
        });
        let dir = self.root.join("evidence");
        let _ = std::fs::create_dir_all(&dir);
        let path = dir.join(format!("{}.json", self.prop));
        if let Err(e) = std::fs::write(&path, serde_json::to_string_pretty(&ev).unwrap()) {
            eprintln!("cannot write evidence {}: {e}", path.display());
            return 2;
        }
        if !viol.is_empty() {
            return 1;
        }
        if !infra.is_empty() {
            return 2;
        }
        if evaluations == 0 {
            eprintln!("no evaluations were performed");
            return 2;
        }
        println!(
            "OK property={} tier={:?} seed={} evaluations={} distinct_nontrivial={} wall={:.1}s",
            self.prop,
            self.tier,
            self.seed,
            evaluations,
            distinct,
            self.start.elapsed().as_secs_f64()
        );
        0
    }
}
