//! G-PDU generator (the IR <-> dicom-ul conversion lives in the probe crate).
pub use probe::pduconv::*;
use proptest::collection::vec;
use proptest::prelude::*;
use refimpl::pdu::{PcProposed, PcResult, PduIr, Pdv, UserItem};

// ------------------------------------------------------------------------------------------
// G-PDU

pub fn ae_title() -> BoxedStrategy<String> {
    // ISO 646 G0 without backslash/control, no leading/trailing space, 1-16 chars
    "[!-\\[\\]-~]([ -\\[\\]-~]{0,14}[!-\\[\\]-~])?".prop_map(|s| s).boxed()
}

pub fn uid_s() -> BoxedStrategy<String> {
    prop_oneof![
        4 => "[1-9][0-9]{0,3}(\\.(0|[1-9][0-9]{0,5})){1,8}".prop_map(|mut s| {
            s.truncate(64);
            s.trim_end_matches('.').to_string()
        }),
        1 => Just("1.2.840.10008.1.2".to_string()),
        1 => Just("1.2.840.10008.1.2.1".to_string()),
        1 => Just("1.2.840.10008.5.1.4.1.1.7".to_string()),
        1 => Just("1.2.840.10008.3.1.1.1".to_string()),
    ]
    .boxed()
}

fn bytes(max: usize) -> BoxedStrategy<Vec<u8>> {
    prop_oneof![8 => vec(any::<u8>(), 0..max.min(40)), 1 => vec(any::<u8>(), 0..max)].boxed()
}

pub fn user_item(big: bool) -> BoxedStrategy<UserItem> {
    let lim = if big { 70_000 } else { 300 };
    prop_oneof![
        3 => prop_oneof![any::<u32>(), Just(0u32), Just(16384), Just(1018)].prop_map(UserItem::MaxLength),
        2 => uid_s().prop_map(UserItem::ImplClassUid),
        2 => "[A-Za-z0-9_.-]{1,16}".prop_map(UserItem::ImplVersion),
        2 => (uid_s(), bytes(lim)).prop_map(|(u, d)| UserItem::ExtNeg(u, d)),
        2 => (uid_s(), any::<bool>(), any::<bool>()).prop_map(|(u, a, b)| UserItem::Role(u, a, b)),
        2 => (any::<bool>(), 1u8..=5, bytes(lim), bytes(lim)).prop_map(|(positive_response, ty, primary, secondary)| UserItem::UserIdentity { positive_response, ty, primary, secondary }),
        1 => (prop_oneof![Just(0x53u8), Just(0x57), Just(0x59), 0x5Au8..=0xFF, 0u8..0x50], bytes(lim)).prop_map(|(t, d)| UserItem::Unknown(t, d)),
    ]
    .boxed()
}

/// a UID-shaped text; with `big`, in ~3% of the cases one of 65 530-66 100 characters (around what a 16-bit item length can express)
fn uid_maybe_huge(big: bool) -> BoxedStrategy<String> {
    if big {
        prop_oneof![
            32 => uid_s(),
            1 => (uid_s(), 65_530usize..66_100).prop_map(|(u, n)| {
                let mut s = u;
                while s.len() < n {
                    s.push_str(".1");
                }
                s.truncate(n);
                s
            }),
        ]
        .boxed()
    } else {
        uid_s()
    }
}

/// well-formed PDU values; `big` allows sub-items of 40-70 KiB (which a 16-bit length cannot express)
pub fn pdu(big: bool) -> BoxedStrategy<PduIr> {
    let pcs_rq = vec(
        (any::<u8>(), uid_maybe_huge(big), vec(uid_maybe_huge(big), 0..6)).prop_map(|(id, abstract_syntax, transfer_syntaxes)| PcProposed { id, abstract_syntax, transfer_syntaxes }),
        0..9,
    );
    let pcs_ac = vec((any::<u8>(), 0u8..5, uid_maybe_huge(big)).prop_map(|(id, reason, transfer_syntax)| PcResult { id, reason, transfer_syntax }), 0..9);
    let pdv = (any::<u8>(), any::<bool>(), any::<bool>(), prop_oneof![6 => vec(any::<u8>(), 0..64), 2 => vec(any::<u8>(), 0..3000), 1 => (60_000usize..70_000).prop_flat_map(|n| vec(any::<u8>(), n))])
        .prop_map(|(pc_id, command, last, data)| Pdv { pc_id, command, last, data });
    prop_oneof![
        3 => (any::<u16>(), ae_title(), ae_title(), uid_maybe_huge(big), pcs_rq, vec(user_item(big), 0..6))
            .prop_map(|(protocol_version, called, calling, app_ctx, pcs, user)| PduIr::AssocRq { protocol_version, called, calling, app_ctx, pcs, user }),
        3 => (any::<u16>(), ae_title(), ae_title(), uid_maybe_huge(big), pcs_ac, vec(user_item(big), 0..6))
            .prop_map(|(protocol_version, called, calling, app_ctx, pcs, user)| PduIr::AssocAc { protocol_version, called, calling, app_ctx, pcs, user }),
        1 => (1u8..=2, prop_oneof![
                (Just(1u8), prop_oneof![Just(1u8), Just(2), Just(3), Just(7), 4u8..=6, 8u8..=10]),
                (Just(2u8), 1u8..=2),
                (Just(3u8), 0u8..=7),
            ]).prop_map(|(result, (source, reason))| PduIr::AssocRj { result, source, reason }),
        3 => vec(pdv, 0..5).prop_map(|pdvs| PduIr::PData { pdvs }),
        1 => Just(PduIr::ReleaseRq),
        1 => Just(PduIr::ReleaseRp),
        1 => prop_oneof![Just((0u8, 0u8)), Just((1, 0)), (Just(2u8), 0u8..=6)].prop_map(|(source, reason)| PduIr::Abort { source, reason }),
        1 => (prop_oneof![Just(0u8), 8u8..=255], vec(any::<u8>(), 0..200)).prop_map(|(ty, data)| PduIr::Unknown { ty, data }),
    ]
    .boxed()
}
