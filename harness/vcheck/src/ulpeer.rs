//! A raw upper-layer peer played by the harness (reference PDU codec over a TCP stream), DIMSE
//! C-STORE message building with the reference data set encoder, and launching of the real
//! tool binaries built from /repo into /verif/target/tools.
use refimpl::ds::{self, Elem, LenMode, Ts, Val};
use refimpl::pdu::{self as rp, PcProposed, PduIr, Pdv, UserItem};
use std::io::{Read, Write};
use std::net::TcpStream;
use std::path::{Path, PathBuf};
use std::process::{Child, Command, Stdio};
use std::time::{Duration, Instant};

pub struct RawPeer {
    pub sock: TcpStream,
    buf: Vec<u8>,
    /// every PDU seen (true = sent by the harness)
    pub trace: Vec<(bool, String)>,
}

#[derive(Debug)]
pub enum Recv {
    Pdu(PduIr),
    Eof,
    /// the bytes do not form a PDU
    Garbage(String),
    Timeout,
    IoError(String),
}

pub fn kind(p: &PduIr) -> &'static str {
    match p {
        PduIr::AssocRq { .. } => "A-ASSOCIATE-RQ",
        PduIr::AssocAc { .. } => "A-ASSOCIATE-AC",
        PduIr::AssocRj { .. } => "A-ASSOCIATE-RJ",
        PduIr::PData { .. } => "P-DATA-TF",
        PduIr::ReleaseRq => "A-RELEASE-RQ",
        PduIr::ReleaseRp => "A-RELEASE-RP",
        PduIr::Abort { .. } => "A-ABORT",
        PduIr::Unknown { .. } => "unknown",
    }
}

impl RawPeer {
    pub fn new(sock: TcpStream) -> Self {
        let _ = sock.set_nodelay(true);
        RawPeer { sock, buf: vec![], trace: vec![] }
    }
    pub fn send(&mut self, p: &PduIr) -> Result<(), String> {
        let b = rp::encode(p)?;
        self.trace.push((true, kind(p).to_string()));
        self.sock.write_all(&b).map_err(|e| e.to_string())
    }
    pub fn send_raw(&mut self, b: &[u8]) -> Result<(), String> {
        self.trace.push((true, format!("raw {} bytes", b.len())));
        self.sock.write_all(b).map_err(|e| e.to_string())
    }
    pub fn recv(&mut self, timeout: Duration) -> Recv {
        let deadline = Instant::now() + timeout;
        loop {
            if self.buf.len() >= 6 {
                let len = u32::from_be_bytes([self.buf[2], self.buf[3], self.buf[4], self.buf[5]]) as usize;
                if len > 64 << 20 {
                    return Recv::Garbage(format!("PDU length {len}"));
                }
                if self.buf.len() >= 6 + len {
                    let r = rp::parse(&self.buf[..6 + len]);
                    self.buf.drain(..6 + len);
                    return match r {
                        Ok((p, _)) => {
                            self.trace.push((false, kind(&p).to_string()));
                            Recv::Pdu(p)
                        }
                        Err(e) => Recv::Garbage(e),
                    };
                }
            }
            let now = Instant::now();
            if now >= deadline {
                return Recv::Timeout;
            }
            let _ = self.sock.set_read_timeout(Some((deadline - now).max(Duration::from_millis(1))));
            let mut tmp = [0u8; 65536];
            match self.sock.read(&mut tmp) {
                Ok(0) => {
                    return if self.buf.is_empty() { Recv::Eof } else { Recv::Garbage(format!("connection closed inside a PDU ({} bytes pending)", self.buf.len())) };
                }
                Ok(n) => self.buf.extend_from_slice(&tmp[..n]),
                Err(e) if e.kind() == std::io::ErrorKind::WouldBlock || e.kind() == std::io::ErrorKind::TimedOut => return Recv::Timeout,
                Err(e) if e.kind() == std::io::ErrorKind::ConnectionReset => return Recv::Eof,
                Err(e) => return Recv::IoError(e.to_string()),
            }
        }
    }
}

pub const APP_CTX: &str = "1.2.840.10008.3.1.1.1";

pub fn assoc_rq(called: &str, calling: &str, pcs: Vec<PcProposed>, max: u32) -> PduIr {
    PduIr::AssocRq { protocol_version: 1, called: called.into(), calling: calling.into(), app_ctx: APP_CTX.into(), pcs, user: vec![UserItem::MaxLength(max), UserItem::ImplClassUid("1.2.826.0.1.3680043.10.1462.9".into()), UserItem::ImplVersion("VERIF_PEER".into())] }
}

fn cmd(e: u16, vr: &str, v: Val) -> Elem {
    Elem { g: 0, e, vr: vr.into(), v }
}

/// a command set with a correct group length, Implicit VR LE
pub fn command_set(mut elems: Vec<Elem>) -> Vec<u8> {
    elems.sort_by_key(|e| e.e);
    let body = ds::encode_ds(&elems, Ts::ImplicitLE, LenMode::AsFlagged);
    let mut out = ds::encode_ds(&[cmd(0, "UL", Val::U32(vec![body.len() as u32]))], Ts::ImplicitLE, LenMode::AsFlagged);
    out.extend(body);
    out
}

pub fn cstore_rq(sop_class: &str, sop_instance: &str, msg_id: u16) -> Vec<u8> {
    command_set(vec![
        cmd(0x0002, "UI", Val::Strs(vec![sop_class.into()])),
        cmd(0x0100, "US", Val::U16(vec![0x0001])),
        cmd(0x0110, "US", Val::U16(vec![msg_id])),
        cmd(0x0700, "US", Val::U16(vec![0])),
        cmd(0x0800, "US", Val::U16(vec![0])),
        cmd(0x1000, "UI", Val::Strs(vec![sop_instance.into()])),
    ])
}

pub fn cstore_rsp(sop_class: &str, sop_instance: &str, msg_id: u16, status: u16) -> Vec<u8> {
    command_set(vec![
        cmd(0x0002, "UI", Val::Strs(vec![sop_class.into()])),
        cmd(0x0100, "US", Val::U16(vec![0x8001])),
        cmd(0x0120, "US", Val::U16(vec![msg_id])),
        cmd(0x0800, "US", Val::U16(vec![0x0101])),
        cmd(0x0900, "US", Val::U16(vec![status])),
        cmd(0x1000, "UI", Val::Strs(vec![sop_instance.into()])),
    ])
}

/// split `data` into P-DATA PDUs of at most `max` bytes each, cut at the given fractions first
pub fn pdata_pdus(pc_id: u8, command: bool, data: &[u8], max: u32, cuts: &[u16]) -> Vec<PduIr> {
    let cap = (max as usize).saturating_sub(6).max(1);
    let mut points: Vec<usize> = cuts.iter().map(|c| (*c as usize * (data.len() + 1)) >> 16).collect();
    points.push(data.len());
    points.sort();
    points.dedup();
    let mut out = vec![];
    let mut prev = 0;
    let mut chunks: Vec<&[u8]> = vec![];
    for p in points {
        let mut s = &data[prev..p];
        prev = p;
        while s.len() > cap {
            chunks.push(&s[..cap]);
            s = &s[cap..];
        }
        if !s.is_empty() {
            chunks.push(s);
        }
    }
    if chunks.is_empty() {
        chunks.push(&data[0..0]);
    }
    let n = chunks.len();
    for (i, ch) in chunks.into_iter().enumerate() {
        out.push(PduIr::PData { pdvs: vec![Pdv { pc_id, command, last: i + 1 == n, data: ch.to_vec() }] });
    }
    out
}

// ------------------------------------------------------------------ tool binaries

pub fn tool(root: &Path, name: &str) -> PathBuf {
    root.join("target").join("tools").join("release").join(name)
}

pub fn free_port() -> u16 {
    std::net::TcpListener::bind("127.0.0.1:0").and_then(|l| l.local_addr()).map(|a| a.port()).unwrap_or(0)
}

pub struct ToolProc {
    pub child: Child,
    pub port: u16,
    pub log: PathBuf,
}

impl Drop for ToolProc {
    fn drop(&mut self) {
        let _ = self.child.kill();
        let _ = self.child.wait();
    }
}

/// start `dicom-storescp` on a free port writing into `out_dir`; waits until it accepts connections
pub fn start_storescp(root: &Path, out_dir: &Path, extra: &[&str], cwd: &Path) -> Result<ToolProc, String> {
    // Port selection is racy by nature (the port is free when probed, taken when the tool binds):
    // starts are serialised within this process, and a tool that lost the race against another
    // process is recognised by its exit and replaced.
    static START: std::sync::Mutex<()> = std::sync::Mutex::new(());
    let _guard = START.lock().unwrap_or_else(|e| e.into_inner());
    for _attempt in 0..8 {
        let port = free_port();
        let log = cwd.join(format!("storescp-{port}.log"));
        let lf = std::fs::File::create(&log).map_err(|e| e.to_string())?;
        let lf2 = lf.try_clone().map_err(|e| e.to_string())?;
        let mut cmd = Command::new(tool(root, "dicom-storescp"));
        // the tool must not outlive the check, however the check ends
        unsafe {
            use std::os::unix::process::CommandExt;
            cmd.pre_exec(|| {
                libc::prctl(libc::PR_SET_PDEATHSIG, libc::SIGKILL);
                Ok(())
            });
        }
        let mut child = cmd
            .arg("-p")
            .arg(port.to_string())
            .arg("-o")
            .arg(out_dir)
            .args(extra)
            .current_dir(cwd)
            .env("RUST_LOG", "info")
            .stdin(Stdio::null())
            .stdout(Stdio::from(lf))
            .stderr(Stdio::from(lf2))
            .spawn()
            .map_err(|e| format!("cannot start dicom-storescp: {e}"))?;
        let t0 = Instant::now();
        loop {
            if let Ok(Some(_)) = child.try_wait() {
                break; // died (port taken?): try another port
            }
            if let Ok(s) = TcpStream::connect_timeout(&format!("127.0.0.1:{port}").parse().unwrap(), Duration::from_millis(200)) {
                drop(s);
                // somebody listens on the port: make sure it is our child and not a process that
                // took the port first (ours would then exit with a bind error)
                std::thread::sleep(Duration::from_millis(40));
                if let Ok(None) = child.try_wait() {
                    return Ok(ToolProc { child, port, log });
                }
                break;
            }
            if t0.elapsed() > Duration::from_secs(10) {
                let _ = child.kill();
                let _ = child.wait();
                break;
            }
            std::thread::sleep(Duration::from_millis(20));
        }
    }
    Err("dicom-storescp did not start listening".into())
}

/// all regular files below `dir`, relative paths
pub fn files_below(dir: &Path) -> Vec<PathBuf> {
    let mut out = vec![];
    let mut stack = vec![dir.to_path_buf()];
    while let Some(d) = stack.pop() {
        if let Ok(rd) = std::fs::read_dir(&d) {
            for e in rd.flatten() {
                let p = e.path();
                match e.file_type() {
                    Ok(t) if t.is_dir() => stack.push(p),
                    Ok(_) => out.push(p.strip_prefix(dir).unwrap_or(&p).to_path_buf()),
                    Err(_) => {}
                }
            }
        }
    }
    out.sort();
    out
}

// ------------------------------------------------------------------ one storescp per worker thread and mode

/// the output directory relative to the sandbox
pub const OUT_REL: &str = "a/b/c/d/e/out";

struct Scp {
    proc_: ToolProc,
    sandbox: tempfile::TempDir,
}

thread_local! {
    static SCP: std::cell::RefCell<[Option<Scp>; 2]> = const { std::cell::RefCell::new([None, None]) };
}

/// (port, sandbox directory) of this thread's dicom-storescp for the mode; started on first use,
/// restarted when it has exited.  The output directory is `<sandbox>/a/b/c/d/e/out`, deep enough
/// for a few `../` to stay inside the sandbox should the tool follow them.
pub fn thread_storescp(root: &Path, non_blocking: bool) -> Result<(u16, PathBuf), String> {
    let slot = non_blocking as usize;
    SCP.with(|s| {
        let mut s = s.borrow_mut();
        if let Some(x) = &mut s[slot] {
            if let Ok(Some(_)) = x.proc_.child.try_wait() {
                s[slot] = None;
            }
        }
        if s[slot].is_none() {
            let sandbox = tempfile::Builder::new().prefix("vcheck-scp-").tempdir().map_err(|e| e.to_string())?;
            let out = sandbox.path().join(OUT_REL);
            std::fs::create_dir_all(&out).map_err(|e| e.to_string())?;
            let extra: Vec<&str> = if non_blocking { vec!["--non-blocking"] } else { vec![] };
            let p = start_storescp(root, &out, &extra, sandbox.path())?;
            s[slot] = Some(Scp { proc_: p, sandbox });
        }
        let x = s[slot].as_ref().unwrap();
        Ok((x.proc_.port, x.sandbox.path().to_path_buf()))
    })
}

pub fn thread_storescp_log_tail(non_blocking: bool, lines: usize) -> String {
    SCP.with(|s| {
        s.borrow()[non_blocking as usize]
            .as_ref()
            .map(|x| std::fs::read_to_string(&x.proc_.log).unwrap_or_default())
            .unwrap_or_default()
            .lines()
            .rev()
            .take(lines)
            .collect::<Vec<_>>()
            .join(" | ")
    })
}

/// forget (and kill) this thread's storescp of the mode, e.g. after it stopped answering
pub fn thread_storescp_reset(non_blocking: bool) {
    SCP.with(|s| s.borrow_mut()[non_blocking as usize] = None);
}
