#![allow(dead_code)]
//! vcheck — driver for the dicom-rs property checks.
//!   vcheck <ID> quick|thorough
//!   vcheck <ID> --replay <file>
mod conv;
mod engine;
mod gen;
mod img;
mod opsir;
mod pduconv;
mod ulpeer;
mod props;

use engine::{Ctx, Tier};
use std::path::PathBuf;

fn usage() -> ! {
    eprintln!("usage: vcheck <ID> quick|thorough | vcheck <ID> --replay <file>");
    std::process::exit(2)
}

fn main() {
    let args: Vec<String> = std::env::args().collect();
    if args.len() < 2 || (args.len() < 3 && args[1] != "__pin-charsets" && args[1] != "__c05-corpus") {
        usage();
    }
    if args[1] == "__c05-worker" {
        props::c05::worker_main();
    }
    if args[1] == "__c05-corpus" {
        // vcheck __c05-corpus <dir> <n per family> <seed>
        let dir = PathBuf::from(args.get(2).cloned().unwrap_or_else(|| "corpus".into()));
        let n: u32 = args.get(3).and_then(|s| s.parse().ok()).unwrap_or(50);
        let seed: u64 = args.get(4).and_then(|s| s.parse().ok()).unwrap_or(0);
        match props::c05::write_corpus(&dir, n, seed) {
            Ok(k) => {
                println!("{k} corpus files written to {}", dir.display());
                std::process::exit(0)
            }
            Err(e) => {
                eprintln!("{e}");
                std::process::exit(2)
            }
        }
    }
    if args[1] == "__c05-from-fuzz" {
        // vcheck __c05-from-fuzz <crash file> <out json>: convert a libFuzzer artifact into a replay case
        let data = std::fs::read(&args[2]).unwrap_or_default();
        match props::c05::case_from_fuzz_input(&data) {
            Some(c) => {
                let j = serde_json::json!({"property": "C05", "sub": drivers::ENTRIES[c.entry as usize], "signature": "libFuzzer artifact", "detail": args[2], "seed": 0, "ir": c});
                std::fs::write(&args[3], serde_json::to_string_pretty(&j).unwrap()).unwrap();
                std::process::exit(0)
            }
            None => std::process::exit(2),
        }
    }
    if args[1] == "__pin-charsets" {
        let root = std::env::var("VERIF_ROOT").map(PathBuf::from).unwrap_or_else(|_| PathBuf::from("/verif"));
        match props::c10::pin(&root) {
            Ok(()) => std::process::exit(0),
            Err(e) => {
                eprintln!("{e}");
                std::process::exit(2)
            }
        }
    }
    let id = args[1].to_uppercase();
    let root = std::env::var("VERIF_ROOT")
        .map(PathBuf::from)
        .unwrap_or_else(|_| PathBuf::from("/verif"));
    let seed: u64 = std::env::var("VERIF_SEED")
        .ok()
        .and_then(|s| s.trim().parse::<i128>().ok())
        .map(|v| v as u64)
        .unwrap_or(0);
    engine::install_panic_hook();
    let mut ctx;
    if args[2] == "--replay" {
        if args.len() < 4 {
            usage();
        }
        let txt = std::fs::read_to_string(&args[3]).unwrap_or_else(|e| {
            eprintln!("cannot read replay file: {e}");
            std::process::exit(2)
        });
        let j: serde_json::Value = serde_json::from_str(&txt).unwrap_or_else(|e| {
            eprintln!("bad replay file: {e}");
            std::process::exit(2)
        });
        let sub = j["sub"].as_str().unwrap_or("").to_string();
        ctx = Ctx::new(&id, Tier::Quick, seed, root, true);
        ctx.replay = Some((sub, j["ir"].clone()));
    } else {
        let tier = match std::env::var("VERIF_TIER").ok().as_deref().unwrap_or(&args[2]) {
            "quick" => Tier::Quick,
            "thorough" => Tier::Thorough,
            _ => usage(),
        };
        ctx = Ctx::new(&id, tier, seed, root, false);
    }
    if !props::run(&ctx, &id) {
        eprintln!("unknown property id {id}");
        std::process::exit(2);
    }
    let code = ctx.finish();
    std::process::exit(code);
}
