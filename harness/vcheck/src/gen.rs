//! G-DS: constructive generator of well-formed data sets (IR), see DESIGN.md §2.1.

use proptest::collection::vec;
use proptest::prelude::*;
use refimpl::dict::{Dict, Kind};
use refimpl::ds::{Elem, Item, Val, ALL_VRS};
use std::collections::HashMap;
use std::sync::OnceLock;

pub fn dict() -> &'static Dict {
    static D: OnceLock<Dict> = OnceLock::new();
    D.get_or_init(|| {
        Dict::load("/repo/dictionary-std/src/tags.rs").unwrap_or_else(|e| {
            eprintln!("cannot load reference dictionary: {e}");
            std::process::exit(2)
        })
    })
}

/// standard tags usable for a given VR (dictionary VR == that VR, or a virtual VR admitting it)
pub fn std_pool() -> &'static HashMap<&'static str, Vec<(u16, u16, bool)>> {
    static P: OnceLock<HashMap<&'static str, Vec<(u16, u16, bool)>>> = OnceLock::new();
    P.get_or_init(|| {
        let mut m: HashMap<&'static str, Vec<(u16, u16, bool)>> = HashMap::new();
        for e in &dict().entries {
            let (g, el) = e.tag;
            if g == 0x0000 || g == 0x0002 || g == 0xFFFE || g & 1 == 1 {
                continue;
            }
            if el == 0x0000 {
                continue; // group lengths: retired, keep out
            }
            if (g, el) == (0x0008, 0x0005) || (g, el) == (0x7FE0, 0x0010) || (g, el) == (0x0028, 0x0103) {
                continue; // owned by other generators / context rule (pixel representation)
            }
            if e.kind == Kind::Element100 {
                continue;
            }
            let vrs: Vec<&'static str> = match e.vr.as_str() {
                "Xs" => vec!["US", "SS"],
                "Ox" | "Px" => vec!["OB", "OW"],
                "Lt" => vec!["US", "OW"],
                v => match ALL_VRS.iter().find(|x| **x == v) {
                    Some(x) => vec![*x],
                    None => continue,
                },
            };
            for vr in vrs {
                m.entry(vr).or_default().push((g, el, e.kind == Kind::Group100));
            }
        }
        m
    })
}

fn vr_index(vr: &str) -> u16 {
    ALL_VRS.iter().position(|v| *v == vr).unwrap() as u16
}

/// A tag for the given VR from one of the pools: standard (by dictionary VR), repeating group,
/// private element (odd group), unknown even-group tag.  For private/unknown tags the low bits
/// of the element number encode the VR so that tag -> VR is a function within a case.
fn tag_for(vr: &'static str) -> BoxedStrategy<(u16, u16)> {
    let pool = std_pool().get(vr).cloned().unwrap_or_default();
    let vi = vr_index(vr);
    let private = (0u16..6, 0x10u16..0x14, 0u16..4).prop_map(move |(gi, block, k)| {
        // odd groups 0009, 0011, 0019, 0029, 7FE1, 00E1
        let g = [0x0009u16, 0x0011, 0x0019, 0x0029, 0x7FE1, 0x00E1][gi as usize];
        (g, (block << 8) | (vi << 2) | k)
    });
    // even groups that have no dictionary entries at all (checked at run time below)
    let unknown = (0u16..4, 0u16..4).prop_map(move |(gi, k)| {
        let g = [0x0006u16, 0x0026, 0x1234, 0x7FDE][gi as usize];
        (g, 0x1000 | (vi << 2) | k)
    });
    if pool.is_empty() {
        prop_oneof![private, unknown].boxed()
    } else {
        let n = pool.len();
        let std = (0..n, 0u16..128).prop_map(move |(i, rep)| {
            let (g, e, rep_group) = pool[i];
            if rep_group {
                (g | ((rep * 2) & 0xFE), e)
            } else {
                (g, e)
            }
        });
        prop_oneof![6 => std, 2 => private, 1 => unknown].boxed()
    }
}

pub fn is_private_or_unknown(tag: (u16, u16)) -> bool {
    tag.0 & 1 == 1 || matches!(dict().lookup(tag), refimpl::dict::Lookup::None)
}

// ---------------------------------------------------------------------------------------
// value strategies

fn ascii_text(extra_excluded: &'static str, max: usize) -> BoxedStrategy<String> {
    // printable ASCII without backslash; no leading/trailing space
    let max = max.max(1);
    proptest::collection::vec(0x20u8..0x7F, 0..=max)
        .prop_map(move |mut b| {
            b.retain(|c| *c != b'\\' && !extra_excluded.as_bytes().contains(c));
            let s = String::from_utf8(b).unwrap();
            s.trim().to_string()
        })
        .boxed()
}

fn uid() -> BoxedStrategy<String> {
    vec(prop_oneof![Just(0u32), 1u32..10, 10u32..100000], 1..8)
        .prop_map(|c| {
            let mut s = c.iter().map(|x| x.to_string()).collect::<Vec<_>>().join(".");
            s.truncate(64);
            s.trim_end_matches('.').to_string()
        })
        .boxed()
}

pub fn date_text() -> BoxedStrategy<String> {
    (0u32..10000, 1u32..13, 1u32..29).prop_map(|(y, m, d)| format!("{y:04}{m:02}{d:02}")).boxed()
}

pub fn time_text() -> BoxedStrategy<String> {
    (0u32..24, 0u32..60, 0u32..60, 0u32..1_000_000, 0usize..8)
        .prop_map(|(h, m, s, f, prec)| match prec {
            0 => format!("{h:02}"),
            1 => format!("{h:02}{m:02}"),
            2 => format!("{h:02}{m:02}{s:02}"),
            p => {
                let digits = p - 2; // 1..=5 → use up to 6
                let digits = digits.min(6).max(1);
                let frac = format!("{f:06}");
                format!("{h:02}{m:02}{s:02}.{}", &frac[..digits])
            }
        })
        .boxed()
}

pub fn datetime_text() -> BoxedStrategy<String> {
    (0u32..10000, 1u32..13, 1u32..29, time_text(), 0usize..5, proptest::option::of((any::<bool>(), 0u32..57)))
        .prop_map(|(y, mo, d, t, prec, tz)| {
            let mut s = match prec {
                0 => format!("{y:04}"),
                1 => format!("{y:04}{mo:02}"),
                2 => format!("{y:04}{mo:02}{d:02}"),
                _ => format!("{y:04}{mo:02}{d:02}{t}"),
            };
            if let Some((neg, q)) = tz {
                // UTC offsets from -12:00 to +14:00 in quarter hours
                let q = if neg { q.min(48) } else { q };
                let neg = neg && q > 0;
                s.push(if neg { '-' } else { '+' });
                s.push_str(&format!("{:02}{:02}", q / 4, (q % 4) * 15));
            }
            s
        })
        .boxed()
}

fn multi(s: BoxedStrategy<String>, max: usize) -> BoxedStrategy<Val> {
    prop_oneof![
        6 => s.clone().prop_map(|x| Val::Strs(vec![x])),
        3 => vec(s, 0..=max).prop_map(Val::Strs),
        1 => Just(Val::Empty),
    ]
    .boxed()
}

fn counts() -> BoxedStrategy<usize> {
    prop_oneof![
        30 => 0usize..9,
        4 => 9usize..200,
        1 => prop_oneof![Just(16383usize), Just(16384), Just(32767), Just(32768), Just(32769), 32768usize..40000],
    ]
    .boxed()
}

/// cap the number of items so that a short-form VR value stays <= 65534 bytes
fn cap(n: usize, item: usize, short: bool) -> usize {
    if short {
        n.min(65534 / item)
    } else {
        n
    }
}

fn numvec<T: Arbitrary + Clone + 'static>(item: usize, short: bool) -> BoxedStrategy<Vec<T>>
where
    T::Strategy: 'static,
{
    counts()
        .prop_flat_map(move |n| vec(any::<T>(), cap(n, item, short)))
        .boxed()
}

/// A value valid for the VR.  `depth` > 0 allows nested sequences.
pub fn value_for(vr: &'static str, depth: usize) -> BoxedStrategy<Val> {
    let v: BoxedStrategy<Val> = match vr {
        "AE" => multi(ascii_text("", 16), 3),
        "AS" => multi((0u32..1000, 0usize..4).prop_map(|(n, u)| format!("{n:03}{}", ["D", "W", "M", "Y"][u])).boxed(), 3),
        "CS" => multi("[A-Z0-9_]([A-Z0-9_ ]{0,14}[A-Z0-9_])?".prop_map(|s| s).boxed(), 4),
        "DA" => prop_oneof![
            3 => multi(date_text(), 3),
            2 => vec(date_text(), 1..3).prop_map(Val::Dates),
        ]
        .boxed(),
        "TM" => prop_oneof![
            3 => multi(time_text(), 3),
            2 => vec(time_text(), 1..3).prop_map(Val::Times),
        ]
        .boxed(),
        "DT" => prop_oneof![
            3 => multi(datetime_text(), 2),
            2 => vec(datetime_text(), 1..3).prop_map(Val::DateTimes),
        ]
        .boxed(),
        "DS" => prop_oneof![
            4 => multi(
                prop_oneof![
                    "-?[0-9]{1,6}(\\.[0-9]{1,6})?",
                    "[+-]?[0-9]\\.[0-9]{1,4}[eE][+-]?[0-9]{1,2}",
                    Just("0".to_string()),
                ]
                .boxed(),
                4
            ),
            2 => vec((-100000i32..100000).prop_map(|k| (k as f64 / 8.0).to_bits()), 1..4).prop_map(Val::F64),
        ]
        .boxed(),
        "IS" => prop_oneof![
            4 => multi(
                prop_oneof!["-?[0-9]{1,9}", Just("2147483647".to_string()), Just("-2147483648".to_string()), "\\+[0-9]{1,8}"].boxed(),
                4
            ),
            2 => vec(any::<i32>(), 1..4).prop_map(Val::I32),
        ]
        .boxed(),
        "LO" => multi(ascii_text("", 64), 3),
        "SH" => multi(ascii_text("", 16), 3),
        "PN" => multi(
            vec(ascii_text("^=", 12), 1..6)
                .prop_map(|c| c.join("^").trim_end_matches('^').trim().to_string())
                .boxed(),
            2,
        ),
        "UC" => multi(ascii_text("", 200), 3),
        "UI" => multi(uid(), 3),
        "LT" | "ST" | "UT" => prop_oneof![
            8 => vec(prop_oneof![30 => 0x20u8..0x7F, 1 => Just(b'\n'), 1 => Just(b'\r'), 1 => Just(b'\\')], 0..80)
                .prop_map(|b| Val::Str(String::from_utf8(b).unwrap().trim_end().to_string())),
            1 => Just(Val::Empty),
        ]
        .boxed(),
        "UR" => prop_oneof![
            8 => "[a-z]{3,5}://[a-zA-Z0-9./_%?=&-]{0,60}".prop_map(Val::Str),
            1 => Just(Val::Empty),
        ]
        .boxed(),
        "AT" => vec((any::<u16>(), any::<u16>()), 0..5).prop_map(Val::Tags).boxed(),
        "FL" => numvec::<u32>(4, true).prop_map(Val::F32).boxed(),
        "OF" => numvec::<u32>(4, false).prop_map(Val::F32).boxed(),
        "FD" => numvec::<u64>(8, true).prop_map(Val::F64).boxed(),
        "OD" => numvec::<u64>(8, false).prop_map(Val::F64).boxed(),
        "OL" => numvec::<u32>(4, false).prop_map(Val::U32).boxed(),
        "UL" => numvec::<u32>(4, true).prop_map(Val::U32).boxed(),
        // 64-bit integers: uniform values plus the boundaries at which narrower representations stop fitting
        "OV" | "UV" => counts()
            .prop_flat_map(|n| {
                vec(
                    prop_oneof![
                        6 => any::<u64>(),
                        1 => proptest::sample::select(vec![u64::MAX, u64::MAX - 1, u64::MAX - (1 << 31), u64::MAX - (1 << 31) + 1, 1 << 63, (1 << 63) - 1, (1 << 53) + 1, 1 << 32, u32::MAX as u64, 1 << 31, (1 << 31) - 1, 0]),
                    ],
                    n,
                )
            })
            .prop_map(Val::U64)
            .boxed(),
        "SV" => counts()
            .prop_flat_map(|n| {
                vec(
                    prop_oneof![
                        6 => any::<i64>(),
                        1 => proptest::sample::select(vec![i64::MAX, i64::MIN, i64::MIN + 1, -1, -(1 << 31), -(1 << 31) - 1, 1 << 31, (1 << 31) - 1, (1 << 53) + 1, -(1 << 53) - 1, 1 << 32, 0]),
                    ],
                    n,
                )
            })
            .prop_map(Val::I64)
            .boxed(),
        "OW" => numvec::<u16>(2, false).prop_map(Val::U16).boxed(),
        "US" => numvec::<u16>(2, true).prop_map(Val::U16).boxed(),
        "SS" => numvec::<i16>(2, true).prop_map(Val::I16).boxed(),
        "SL" => numvec::<i32>(4, true).prop_map(Val::I32).boxed(),
        "OB" | "UN" => prop_oneof![
            8 => numvec::<u8>(1, false).prop_map(Val::U8),
            1 => (65530usize..65542).prop_flat_map(|n| vec(any::<u8>(), n)).prop_map(Val::U8),
        ]
        .boxed(),
        "SQ" => {
            if depth == 0 {
                Just(Val::Seq { items: vec![], explicit: false }).boxed()
            } else {
                (vec((elems(depth - 1, 0..4), any::<bool>()), 0..4), any::<bool>())
                    .prop_map(|(items, explicit)| Val::Seq {
                        items: items.into_iter().map(|(elems, explicit)| Item { elems, explicit }).collect(),
                        explicit,
                    })
                    .boxed()
            }
        }
        _ => unreachable!(),
    };
    // any VR may also be empty
    prop_oneof![12 => v, 1 => Just(if vr == "SQ" { Val::Seq { items: vec![], explicit: false } } else { Val::Empty })].boxed()
}

pub fn vr_choice(depth: usize) -> BoxedStrategy<&'static str> {
    let sq_w = if depth > 0 { 6 } else { 0 };
    let mut opts: Vec<(u32, BoxedStrategy<&'static str>)> = vec![];
    for v in ALL_VRS.iter() {
        if *v == "SQ" {
            if sq_w > 0 {
                opts.push((sq_w, Just(*v).boxed()));
            }
        } else {
            opts.push((1, Just(*v).boxed()));
        }
    }
    proptest::strategy::Union::new_weighted(opts).boxed()
}

pub fn elem(depth: usize) -> BoxedStrategy<Elem> {
    vr_choice(depth)
        .prop_flat_map(move |vr| {
            (tag_for(vr), value_for(vr, depth)).prop_map(move |((g, e), v)| Elem { g, e, vr: vr.to_string(), v })
        })
        .boxed()
}

/// private creator elements required by the private data elements present
fn add_private_creators(elems: &mut Vec<Elem>) {
    let mut need: Vec<(u16, u16)> = vec![];
    for e in elems.iter() {
        if e.g & 1 == 1 && e.e >= 0x1000 {
            let c = (e.g, e.e >> 8);
            if !need.contains(&c) {
                need.push(c);
            }
        }
    }
    for (g, e) in need {
        if !elems.iter().any(|x| x.g == g && x.e == e) {
            elems.push(Elem { g, e, vr: "LO".into(), v: Val::Strs(vec![format!("VERIF CREATOR {e:02X}")]) });
        }
    }
}

pub fn normalize(mut elems: Vec<Elem>) -> Vec<Elem> {
    add_private_creators(&mut elems);
    elems.sort_by_key(|e| (e.g, e.e));
    elems.dedup_by_key(|e| (e.g, e.e));
    elems
}

/// a data set: ascending unique tags
pub fn elems(depth: usize, n: std::ops::Range<usize>) -> BoxedStrategy<Vec<Elem>> {
    vec(elem(depth), n).prop_map(normalize).boxed()
}

pub fn pixel_sequence() -> BoxedStrategy<Elem> {
    (
        prop_oneof![2 => Just(vec![]), 1 => vec(any::<u32>(), 1..4), 1 => vec((0u32..1000).prop_map(|x| x * 2), 1..4)],
        vec(prop_oneof![1 => Just(0usize), 5 => 1usize..40].prop_flat_map(|n| vec(any::<u8>(), n * 2)), 0..5),
    )
        .prop_map(|(bot, frags)| Elem { g: 0x7FE0, e: 0x0010, vr: "OB".into(), v: Val::Pix { bot, frags } })
        .boxed()
}

#[derive(Clone, Copy)]
pub struct DsCfg {
    pub max_depth: usize,
    pub max_top: usize,
    pub pixel_seq: bool,
}

impl Default for DsCfg {
    fn default() -> Self {
        DsCfg { max_depth: 4, max_top: 8, pixel_seq: true }
    }
}

/// put an encapsulated Pixel Data element into the first item of the first sequence that has items (any depth):
/// e.g. a compressed icon inside Icon Image Sequence
fn nest_pixel_sequence(elems: &mut Vec<Elem>, p: &Elem) -> bool {
    for e in elems.iter_mut() {
        if let Val::Seq { items, .. } = &mut e.v {
            if let Some(it) = items.first_mut() {
                // prefer going deeper when the item itself holds a sequence with items
                if nest_pixel_sequence(&mut it.elems, p) {
                    return true;
                }
                it.elems.retain(|x| (x.g, x.e) != (0x7FE0, 0x0010));
                it.elems.push(p.clone());
                let v = std::mem::take(&mut it.elems);
                it.elems = normalize(v);
                return true;
            }
        }
    }
    false
}

/// top-level data set, optionally with an encapsulated pixel data element (at the top level in 15% of the cases,
/// inside a sequence item in 8%)
pub fn dataset(cfg: DsCfg) -> BoxedStrategy<Vec<Elem>> {
    let base = elems(cfg.max_depth, 0..cfg.max_top + 1);
    if cfg.pixel_seq {
        (base, proptest::option::weighted(0.15, pixel_sequence()), proptest::option::weighted(0.08, pixel_sequence()))
            .prop_map(|(mut e, p, nested)| {
                if let Some(p) = p {
                    e.retain(|x| (x.g, x.e) != (0x7FE0, 0x0010));
                    e.push(p);
                    e = normalize(e);
                }
                if let Some(p) = nested {
                    nest_pixel_sequence(&mut e, &p);
                }
                e
            })
            .boxed()
    } else {
        base
    }
}
