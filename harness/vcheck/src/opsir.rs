//! Serialisable IR of attribute operations (shared by C09 and C13).
use crate::conv::{prim_of, vr_of};
use dicom_core::ops::{AttributeAction, AttributeOp, AttributeSelector, AttributeSelectorStep};
use dicom_core::Tag;
use refimpl::ds::Val;
use serde::{Deserialize, Serialize};

#[derive(Clone, Debug, Serialize, Deserialize, PartialEq)]
pub enum ActIr {
    Remove,
    Empty,
    SetVr(String),
    Set(Val),
    SetStr(String),
    SetIfMissing(Val),
    SetStrIfMissing(String),
    Replace(Val),
    ReplaceStr(String),
    PushStr(String),
    PushI32(i32),
    PushU32(u32),
    PushI16(i16),
    PushU16(u16),
    PushF32(u32),
    PushF64(u64),
    Truncate(usize),
}

impl ActIr {
    pub fn name(&self) -> &'static str {
        match self {
            ActIr::Remove => "Remove",
            ActIr::Empty => "Empty",
            ActIr::SetVr(_) => "SetVr",
            ActIr::Set(_) => "Set",
            ActIr::SetStr(_) => "SetStr",
            ActIr::SetIfMissing(_) => "SetIfMissing",
            ActIr::SetStrIfMissing(_) => "SetStrIfMissing",
            ActIr::Replace(_) => "Replace",
            ActIr::ReplaceStr(_) => "ReplaceStr",
            ActIr::PushStr(_) => "PushStr",
            ActIr::PushI32(_) => "PushI32",
            ActIr::PushU32(_) => "PushU32",
            ActIr::PushI16(_) => "PushI16",
            ActIr::PushU16(_) => "PushU16",
            ActIr::PushF32(_) => "PushF32",
            ActIr::PushF64(_) => "PushF64",
            ActIr::Truncate(_) => "Truncate",
        }
    }
    pub fn is_constructive(&self) -> bool {
        matches!(
            self,
            ActIr::Set(_) | ActIr::SetStr(_) | ActIr::SetIfMissing(_) | ActIr::SetStrIfMissing(_) | ActIr::PushStr(_) | ActIr::PushI32(_) | ActIr::PushU32(_) | ActIr::PushI16(_) | ActIr::PushU16(_) | ActIr::PushF32(_) | ActIr::PushF64(_)
        )
    }
    pub fn to_action(&self) -> AttributeAction {
        match self {
            ActIr::Remove => AttributeAction::Remove,
            ActIr::Empty => AttributeAction::Empty,
            ActIr::SetVr(v) => AttributeAction::SetVr(vr_of(v)),
            ActIr::Set(v) => AttributeAction::Set(prim_of(v)),
            ActIr::SetStr(s) => AttributeAction::SetStr(s.clone().into()),
            ActIr::SetIfMissing(v) => AttributeAction::SetIfMissing(prim_of(v)),
            ActIr::SetStrIfMissing(s) => AttributeAction::SetStrIfMissing(s.clone().into()),
            ActIr::Replace(v) => AttributeAction::Replace(prim_of(v)),
            ActIr::ReplaceStr(s) => AttributeAction::ReplaceStr(s.clone().into()),
            ActIr::PushStr(s) => AttributeAction::PushStr(s.clone().into()),
            ActIr::PushI32(n) => AttributeAction::PushI32(*n),
            ActIr::PushU32(n) => AttributeAction::PushU32(*n),
            ActIr::PushI16(n) => AttributeAction::PushI16(*n),
            ActIr::PushU16(n) => AttributeAction::PushU16(*n),
            ActIr::PushF32(b) => AttributeAction::PushF32(f32::from_bits(*b)),
            ActIr::PushF64(b) => AttributeAction::PushF64(f64::from_bits(*b)),
            ActIr::Truncate(n) => AttributeAction::Truncate(*n),
        }
    }
}

#[derive(Clone, Debug, Serialize, Deserialize, PartialEq)]
pub struct OpIr {
    /// intermediate steps (tag, item index) then the leaf tag
    pub path: Vec<((u16, u16), u32)>,
    pub leaf: (u16, u16),
    pub act: ActIr,
}

impl OpIr {
    pub fn to_op(&self) -> AttributeOp {
        let mut steps: Vec<AttributeSelectorStep> =
            self.path.iter().map(|((g, e), i)| AttributeSelectorStep::Nested { tag: Tag(*g, *e), item: *i }).collect();
        steps.push(AttributeSelectorStep::Tag(Tag(self.leaf.0, self.leaf.1)));
        AttributeOp::new(AttributeSelector::new(steps).expect("selector"), self.act.to_action())
    }
}
