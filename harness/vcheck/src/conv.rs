//! IR <-> dicom-rs conversion and the canonical equality `≈` (DESIGN.md §2.1).
//! The comparison walks the dicom-rs object through its public API against the IR; it never
//! compares two dicom-rs objects with `==`.

use crate::gen::dict;
use dicom_core::header::{HasLength, Header, Length};
use dicom_core::value::{DataSetSequence, PixelFragmentSequence, PrimitiveValue, Value, C};
use dicom_core::{DataElement, Tag, VR};
use dicom_object::mem::{InMemDicomObject, InMemElement};
use refimpl::ds::{self, Elem, LenMode, Ts, Val};
use std::str::FromStr;

pub fn vr_of(s: &str) -> VR {
    VR::from_str(s).unwrap_or_else(|_| panic!("bad VR in IR: {s}"))
}

pub fn vr_name(vr: VR) -> &'static str {
    vr.to_string()
}

pub fn prim_of(v: &Val) -> PrimitiveValue {
    use dicom_core::value::deserialize::{parse_date_partial, parse_datetime_partial, parse_time_partial};
    match v {
        Val::Empty => PrimitiveValue::Empty,
        Val::Strs(s) => PrimitiveValue::Strs(s.iter().cloned().collect()),
        Val::Str(s) => PrimitiveValue::Str(s.clone()),
        Val::U8(x) => PrimitiveValue::U8(x.iter().copied().collect()),
        Val::U16(x) => PrimitiveValue::U16(x.iter().copied().collect()),
        Val::I16(x) => PrimitiveValue::I16(x.iter().copied().collect()),
        Val::U32(x) => PrimitiveValue::U32(x.iter().copied().collect()),
        Val::I32(x) => PrimitiveValue::I32(x.iter().copied().collect()),
        Val::U64(x) => PrimitiveValue::U64(x.iter().copied().collect()),
        Val::I64(x) => PrimitiveValue::I64(x.iter().copied().collect()),
        Val::F32(x) => PrimitiveValue::F32(x.iter().map(|b| f32::from_bits(*b)).collect()),
        Val::F64(x) => PrimitiveValue::F64(x.iter().map(|b| f64::from_bits(*b)).collect()),
        Val::Tags(t) => PrimitiveValue::Tags(t.iter().map(|(g, e)| Tag(*g, *e)).collect()),
        Val::Dates(t) => PrimitiveValue::Date(
            t.iter().map(|s| parse_date_partial(s.as_bytes()).expect("IR date").0).collect(),
        ),
        Val::Times(t) => PrimitiveValue::Time(
            t.iter().map(|s| parse_time_partial(s.as_bytes()).expect("IR time").0).collect(),
        ),
        Val::DateTimes(t) => PrimitiveValue::DateTime(
            t.iter().map(|s| parse_datetime_partial(s.as_bytes()).expect("IR datetime")).collect(),
        ),
        Val::Seq { .. } | Val::Pix { .. } => panic!("prim_of on non-primitive"),
    }
}

/// Build an in-memory object from the IR.  `explicit_for`: when `Some(ts)`, sequences flagged
/// explicit get a *correct* explicit length for that syntax (items stay undefined, as every
/// object built from parts); when `None` all lengths are undefined.
pub fn to_obj(elems: &[Elem], explicit_for: Option<Ts>) -> InMemDicomObject {
    InMemDicomObject::from_element_iter(elems.iter().map(|e| to_elem(e, explicit_for)))
}

pub fn to_elem(e: &Elem, explicit_for: Option<Ts>) -> InMemElement {
    let tag = Tag(e.g, e.e);
    let vr = vr_of(&e.vr);
    match &e.v {
        Val::Seq { items, explicit } => {
            let objs: Vec<InMemDicomObject> = items.iter().map(|it| to_obj(&it.elems, explicit_for)).collect();
            let len = match (explicit_for, explicit) {
                (Some(ts), true) => {
                    let mut body = 0usize;
                    for it in items {
                        body += 8 + ds::encoded_len(&it.elems, ts, LenMode::SeqFlaggedItemsUndefined) + 8;
                    }
                    Length(body as u32)
                }
                _ => Length::UNDEFINED,
            };
            DataElement::new_with_len(tag, vr, len, Value::Sequence(DataSetSequence::new(objs, len)))
        }
        Val::Pix { bot, frags } => {
            let b: C<u32> = bot.iter().copied().collect();
            let f: C<Vec<u8>> = frags.iter().cloned().collect();
            DataElement::new(tag, vr, Value::PixelSequence(PixelFragmentSequence::new(b, f)))
        }
        v => DataElement::new(tag, vr, Value::Primitive(prim_of(v))),
    }
}

/// little-endian value bytes of a dicom-rs primitive value, taken variant by variant
pub fn prim_le_bytes(p: &PrimitiveValue) -> Vec<u8> {
    let mut o = vec![];
    match p {
        PrimitiveValue::Empty => {}
        PrimitiveValue::Str(s) => o.extend_from_slice(s.as_bytes()),
        PrimitiveValue::Strs(s) => o.extend_from_slice(s.join("\\").as_bytes()),
        PrimitiveValue::Tags(t) => t.iter().for_each(|t| {
            o.extend_from_slice(&t.0.to_le_bytes());
            o.extend_from_slice(&t.1.to_le_bytes());
        }),
        PrimitiveValue::U8(x) => o.extend_from_slice(x),
        PrimitiveValue::I16(x) => x.iter().for_each(|v| o.extend_from_slice(&v.to_le_bytes())),
        PrimitiveValue::U16(x) => x.iter().for_each(|v| o.extend_from_slice(&v.to_le_bytes())),
        PrimitiveValue::I32(x) => x.iter().for_each(|v| o.extend_from_slice(&v.to_le_bytes())),
        PrimitiveValue::U32(x) => x.iter().for_each(|v| o.extend_from_slice(&v.to_le_bytes())),
        PrimitiveValue::I64(x) => x.iter().for_each(|v| o.extend_from_slice(&v.to_le_bytes())),
        PrimitiveValue::U64(x) => x.iter().for_each(|v| o.extend_from_slice(&v.to_le_bytes())),
        PrimitiveValue::F32(x) => x.iter().for_each(|v| o.extend_from_slice(&v.to_bits().to_le_bytes())),
        PrimitiveValue::F64(x) => x.iter().for_each(|v| o.extend_from_slice(&v.to_bits().to_le_bytes())),
        PrimitiveValue::Date(d) => {
            o.extend_from_slice(d.iter().map(|x| x.to_encoded()).collect::<Vec<_>>().join("\\").as_bytes())
        }
        PrimitiveValue::Time(d) => {
            o.extend_from_slice(d.iter().map(|x| x.to_encoded()).collect::<Vec<_>>().join("\\").as_bytes())
        }
        PrimitiveValue::DateTime(d) => {
            o.extend_from_slice(d.iter().map(|x| x.to_encoded()).collect::<Vec<_>>().join("\\").as_bytes())
        }
    }
    o
}

fn is_textual(p: &PrimitiveValue) -> bool {
    matches!(
        p,
        PrimitiveValue::Empty
            | PrimitiveValue::Str(_)
            | PrimitiveValue::Strs(_)
            | PrimitiveValue::Date(_)
            | PrimitiveValue::Time(_)
            | PrimitiveValue::DateTime(_)
    )
}

fn trim_pad(b: &[u8]) -> &[u8] {
    let mut e = b.len();
    while e > 0 && (b[e - 1] == b' ' || b[e - 1] == 0) {
        e -= 1;
    }
    &b[..e]
}

/// text the IR value denotes (numbers in IS as decimal text); None when only a numeric
/// comparison is meaningful (DS given as binary floats)
pub fn ir_text(vr: &str, v: &Val) -> Option<Vec<u8>> {
    match (vr, v) {
        ("DS", Val::F64(_)) => None,
        _ => Some(trim_pad(&ds::encode_value(vr, v, false)).to_vec()),
    }
}

fn short(b: &[u8]) -> String {
    let n = b.len().min(48);
    let mut s = String::new();
    for x in &b[..n] {
        s.push_str(&format!("{x:02x}"));
    }
    if b.len() > n {
        s.push_str(&format!("…({} bytes)", b.len()));
    }
    s
}

/// Compare a primitive value read by dicom-rs (`got_vr`, `got`) with the IR element.
pub fn prim_matches(e: &Elem, got_vr: VR, got: &PrimitiveValue, ts: Ts) -> Result<(), String> {
    let ir_vr = e.vr.as_str();
    let got_vr_s = vr_name(got_vr);
    if got_vr_s != ir_vr {
        // allowed only in Implicit VR: the dictionary's (relaxed) VR, UN if unknown
        if ts.explicit() {
            return Err(format!("vr-changed-explicit|wrote {ir_vr}, read {got_vr_s}"));
        }
        let expect = dict().implicit_vr(e.tag());
        if got_vr_s != expect {
            return Err(format!("implicit-vr-not-dictionary|dictionary prescribes {expect}, read {got_vr_s} (wrote {ir_vr})"));
        }
        // compare by little-endian value bytes
        let want = match (ir_vr, &e.v) {
            ("DS", Val::F64(_)) => return Ok(()), // not reachable for std tags; skip
            _ => ds::encode_value(ir_vr, &e.v, false),
        };
        let have = prim_le_bytes(got);
        if want == have || trim_pad(&want) == trim_pad(&have) && is_textual(got) {
            return Ok(());
        }
        return Err(format!(
            "value-bytes-differ-after-vr-change|{ir_vr}->{got_vr_s}: want {} have {}",
            short(&want),
            short(&have)
        ));
    }
    if ds::is_text_vr(ir_vr) {
        if !is_textual(got) {
            // the Interpreted strategy may give numbers for IS/DS; default strategy must not
            return Err(format!("text-vr-nontext-variant|{ir_vr} came back as {:?}", variant_name(got)));
        }
        let have_full = prim_le_bytes(got);
        let have = trim_pad(&have_full);
        match ir_text(ir_vr, &e.v) {
            Some(want) => {
                if want != have {
                    return Err(format!(
                        "text-differs|{ir_vr}: want {:?} have {:?}",
                        String::from_utf8_lossy(&want),
                        String::from_utf8_lossy(have)
                    ));
                }
            }
            None => {
                // DS from floats: each piece parses to the same number
                if let Val::F64(bits) = &e.v {
                    let txt = String::from_utf8_lossy(have).to_string();
                    let parts: Vec<&str> = if txt.is_empty() { vec![] } else { txt.split('\\').collect() };
                    if parts.len() != bits.len() {
                        return Err(format!("ds-number-differs|multiplicity {} vs {}", parts.len(), bits.len()));
                    }
                    for (p, b) in parts.iter().zip(bits) {
                        match p.trim().parse::<f64>() {
                            Ok(x) if x == f64::from_bits(*b) => {}
                            _ => return Err(format!("ds-number-differs|text {p:?} is not {}", f64::from_bits(*b))),
                        }
                    }
                }
            }
        }
        return Ok(());
    }
    // binary VRs
    let want = ds::encode_value(ir_vr, &e.v, false); // padded to even
    let have = prim_le_bytes(got);
    let raw_len = match &e.v {
        Val::U8(b) => b.len(),
        _ => want.len(),
    };
    if have == want || (raw_len % 2 == 1 && have[..] == want[..raw_len]) {
        return Ok(());
    }
    Err(format!("binary-differs|{ir_vr}: want {} have {}", short(&want), short(&have)))
}

pub fn variant_name(p: &PrimitiveValue) -> &'static str {
    match p {
        PrimitiveValue::Empty => "Empty",
        PrimitiveValue::Str(_) => "Str",
        PrimitiveValue::Strs(_) => "Strs",
        PrimitiveValue::Tags(_) => "Tags",
        PrimitiveValue::U8(_) => "U8",
        PrimitiveValue::I16(_) => "I16",
        PrimitiveValue::U16(_) => "U16",
        PrimitiveValue::I32(_) => "I32",
        PrimitiveValue::U32(_) => "U32",
        PrimitiveValue::I64(_) => "I64",
        PrimitiveValue::U64(_) => "U64",
        PrimitiveValue::F32(_) => "F32",
        PrimitiveValue::F64(_) => "F64",
        PrimitiveValue::Date(_) => "Date",
        PrimitiveValue::Time(_) => "Time",
        PrimitiveValue::DateTime(_) => "DateTime",
    }
}

fn tag_s(t: (u16, u16)) -> String {
    format!("({:04X},{:04X})", t.0, t.1)
}

/// `obj ≈ elems` : same tags in the same order, expected VR, equal values.
/// `written_mode`: how sequences/items were encoded on the wire (matters only for the
/// Implicit-VR case of unknown-tag sequences with defined length, which read back as UN bytes).
pub fn obj_matches(obj: &InMemDicomObject, elems: &[Elem], ts: Ts, written_mode: LenMode, path: &str) -> Result<(), String> {
    let got: Vec<&InMemElement> = obj.iter().collect();
    let want_tags: Vec<(u16, u16)> = elems.iter().map(|e| e.tag()).collect();
    let got_tags: Vec<(u16, u16)> = got.iter().map(|e| (e.tag().0, e.tag().1)).collect();
    if want_tags != got_tags {
        return Err(format!(
            "attribute-list-differs|{path}: want {:?} got {:?}",
            want_tags.iter().map(|t| tag_s(*t)).collect::<Vec<_>>(),
            got_tags.iter().map(|t| tag_s(*t)).collect::<Vec<_>>()
        ));
    }
    for (e, g) in elems.iter().zip(got) {
        let p = format!("{path}/{}", tag_s(e.tag()));
        match (&e.v, g.value()) {
            (Val::Seq { items, explicit }, Value::Sequence(seq)) => {
                let gvr = vr_name(g.vr());
                let ok_vr = gvr == "SQ" || (!ts.explicit() && gvr == "UN" && dict().implicit_vr(e.tag()) == "UN");
                if !ok_vr {
                    return Err(format!("sequence-vr|{p}: sequence came back with VR {gvr}"));
                }
                let _ = explicit;
                if seq.items().len() != items.len() {
                    return Err(format!("item-count-differs|{p}: {} items, want {}", seq.items().len(), items.len()));
                }
                for (i, (it, go)) in items.iter().zip(seq.items()).enumerate() {
                    obj_matches(go, &it.elems, ts, written_mode, &format!("{p}[{i}]"))?;
                }
            }
            (Val::Seq { explicit, .. }, Value::Primitive(pv)) => {
                // Implicit VR, unknown tag, defined length: indistinguishable from UN on the wire
                let wire_explicit = *explicit && written_mode != LenMode::AllUndefined;
                if !ts.explicit() && wire_explicit && dict().implicit_vr(e.tag()) == "UN" && vr_name(g.vr()) == "UN" {
                    let mut want = vec![];
                    ds::encode_elem(&mut want, e, ts, written_mode);
                    let want = &want[8..];
                    let have = prim_le_bytes(pv);
                    if want != &have[..] {
                        return Err(format!("un-sequence-bytes-differ|{p}: defined-length unknown sequence read as UN with different bytes"));
                    }
                } else {
                    return Err(format!("sequence-became-primitive|{p}: sequence came back as a primitive value (VR {})", vr_name(g.vr())));
                }
            }
            (Val::Pix { bot, frags }, Value::PixelSequence(ps)) => {
                if ps.offset_table() != &bot[..] {
                    return Err(format!("offset-table-differs|{p}: want {:?} got {:?}", bot, ps.offset_table()));
                }
                if ps.fragments().len() != frags.len() {
                    return Err(format!("fragment-count-differs|{p}: {} fragments, want {}", ps.fragments().len(), frags.len()));
                }
                for (i, (a, b)) in frags.iter().zip(ps.fragments()).enumerate() {
                    if a != b {
                        return Err(format!("fragment-differs|{p}: fragment {i} differs"));
                    }
                }
            }
            (Val::Seq { .. }, _) | (Val::Pix { .. }, _) => {
                return Err(format!("value-kind-differs|{p}: want sequence/pixel sequence"));
            }
            (_, Value::Primitive(pv)) => {
                prim_matches(e, g.vr(), pv, ts).map_err(|m| {
                    let (k, d) = m.split_once('|').unwrap_or(("mismatch", &m));
                    format!("{k}|{p}: {d}")
                })?;
            }
            (_, _) => return Err(format!("primitive-became-sequence|{p}")),
        }
        let _ = g.length();
    }
    Ok(())
}

/// split a "kind|detail" mismatch message
pub fn split_mm(m: &str) -> (&str, &str) {
    m.split_once('|').unwrap_or(("mismatch", m))
}

/// In Implicit VR a defined-length sequence under a tag the dictionary does not know is
/// indistinguishable from a UN value.  This rewrites the IR to what a reader of such a
/// stream necessarily holds: a UN element with the encoded items as bytes.
pub fn degrade_unknown_explicit_seqs(elems: &[Elem], mode: LenMode) -> Vec<Elem> {
    elems
        .iter()
        .map(|e| match &e.v {
            Val::Seq { items, explicit } => {
                if *explicit && mode != LenMode::AllUndefined && dict().implicit_vr(e.tag()) == "UN" {
                    let mut raw = vec![];
                    ds::encode_elem(&mut raw, e, Ts::ImplicitLE, mode);
                    Elem { g: e.g, e: e.e, vr: "UN".into(), v: Val::U8(raw[8..].to_vec()) }
                } else {
                    Elem {
                        g: e.g,
                        e: e.e,
                        vr: e.vr.clone(),
                        v: Val::Seq {
                            items: items
                                .iter()
                                .map(|it| ds::Item {
                                    elems: degrade_unknown_explicit_seqs(&it.elems, mode),
                                    explicit: it.explicit,
                                })
                                .collect(),
                            explicit: *explicit,
                        },
                    }
                }
            }
            _ => e.clone(),
        })
        .collect()
}
