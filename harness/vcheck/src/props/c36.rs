//! C36 — AE addresses print and parse back unchanged.
use crate::engine::{Ctx, Obs};
use dicom_ul::address::{AeAddr, FullAeAddr};
use proptest::prelude::*;
use serde::{Deserialize, Serialize};
use std::net::{Ipv4Addr, Ipv6Addr, SocketAddr, SocketAddrV4, SocketAddrV6};

#[derive(Clone, Debug, Serialize, Deserialize)]
pub enum Addr {
    V4([u8; 4], u16),
    V6([u16; 8], u16, u32),
    Host(String, u16),
}

#[derive(Clone, Debug, Serialize, Deserialize)]
pub struct Case {
    title: Option<String>,
    addr: Addr,
}

fn title() -> BoxedStrategy<String> {
    prop_oneof![
        4 => "[A-Za-z0-9_ .-]{1,16}",
        2 => "[!-?A-~]{1,16}",            // printable ASCII without '@' and space
        1 => "[ -?A-~]{1,16}",            // with spaces
        1 => "[^@]{1,8}",                 // arbitrary Unicode without '@'
    ]
    .boxed()
}

fn addr() -> BoxedStrategy<Addr> {
    prop_oneof![
        3 => (any::<[u8; 4]>(), any::<u16>()).prop_map(|(a, p)| Addr::V4(a, p)),
        3 => (any::<[u16; 8]>(), any::<u16>(), prop_oneof![Just(0u32), Just(0u32), 1u32..=u32::MAX])
            .prop_map(|(a, p, s)| Addr::V6(a, p, s)),
        2 => ("[a-z][a-z0-9.-]{0,20}", any::<u16>()).prop_map(|(h, p)| Addr::Host(h, p)),
        // AeAddr<String> takes any text as the address: the printer guards a '@' inside it
        1 => ("[a-z0-9.@-]{1,20}", any::<u16>()).prop_map(|(h, p)| Addr::Host(h, p)),
    ]
    .boxed()
}

pub fn run(ctx: &Ctx) {
    let strat = || {
        (proptest::option::weighted(0.8, title()), addr())
            .prop_map(|(title, addr)| Case { title, addr })
            .boxed()
    };
    ctx.run_prop(
        "ae_addr_roundtrip",
        "random AE title (ASCII/Unicode, no '@') x IPv4/IPv6(scope id)/host:port (host text occasionally containing '@', which AeAddr<String> accepts); AeAddr<T> and FullAeAddr<T> \
         for T in SocketAddrV4, SocketAddrV6, SocketAddr, String; oracle parse(to_string(a)) == a; \
         non-trivial = has a title (distinct by title+address)",
        strat,
        ctx.cases(20_000, 300_000),
        |c: &Case, obs: &mut Obs| {
            obs.nontrivial = c.title.is_some();
            if let Addr::Host(h, _) = &c.addr {
                if h.contains('@') {
                    obs.class(if c.title.is_some() { "at-sign-in-address:titled" } else { "at-sign-in-address:untitled" });
                    obs.nontrivial = true;
                }
            }
            macro_rules! rt {
                ($ty:ty, $sock:expr, $kind:expr) => {{
                    let sock: $ty = $sock;
                    obs.class($kind);
                    match &c.title {
                        Some(t) => {
                            let a = AeAddr::new(t.clone(), sock.clone());
                            let txt = a.to_string();
                            match txt.parse::<AeAddr<$ty>>() {
                                Ok(b) => {
                                    if b.ae_title() != Some(t.as_str()) || b.socket_addr() != &sock {
                                        obs.fail(
                                            format!("C36:AeAddr<{}> roundtrip differs", $kind),
                                            format!("{a:?} -> {txt:?} -> {b:?}"),
                                        );
                                    }
                                }
                                Err(e) => obs.fail(
                                    format!("C36:AeAddr<{}> printed form does not parse", $kind),
                                    format!("{a:?} -> {txt:?} -> {e:?}"),
                                ),
                            }
                            let fa = FullAeAddr::new(t.clone(), sock.clone());
                            let txt = fa.to_string();
                            match txt.parse::<FullAeAddr<$ty>>() {
                                Ok(b) => {
                                    if b.ae_title() != t.as_str() || b.socket_addr() != &sock {
                                        obs.fail(
                                            format!("C36:FullAeAddr<{}> roundtrip differs", $kind),
                                            format!("{fa:?} -> {txt:?} -> {b:?}"),
                                        );
                                    }
                                }
                                Err(e) => obs.fail(
                                    format!("C36:FullAeAddr<{}> printed form does not parse", $kind),
                                    format!("{fa:?} -> {txt:?} -> {e:?}"),
                                ),
                            }
                        }
                        None => {
                            let a = AeAddr::new_socket_addr(sock.clone());
                            let txt = a.to_string();
                            match txt.parse::<AeAddr<$ty>>() {
                                Ok(b) => {
                                    if b.ae_title().is_some() || b.socket_addr() != &sock {
                                        obs.fail(
                                            format!("C36:AeAddr<{}> without title roundtrip differs", $kind),
                                            format!("{a:?} -> {txt:?} -> {b:?}"),
                                        );
                                    }
                                }
                                Err(e) => obs.fail(
                                    format!("C36:AeAddr<{}> without title does not parse", $kind),
                                    format!("{a:?} -> {txt:?} -> {e:?}"),
                                ),
                            }
                        }
                    }
                }};
            }
            match &c.addr {
                Addr::V4(a, p) => {
                    let s4 = SocketAddrV4::new(Ipv4Addr::from(*a), *p);
                    rt!(SocketAddrV4, s4, "v4");
                    rt!(SocketAddr, SocketAddr::V4(s4), "sockaddr4");
                    rt!(String, s4.to_string(), "string");
                }
                Addr::V6(a, p, scope) => {
                    let s6 = SocketAddrV6::new(Ipv6Addr::from(*a), *p, 0, *scope);
                    rt!(SocketAddrV6, s6, "v6");
                    rt!(SocketAddr, SocketAddr::V6(s6), "sockaddr6");
                    rt!(String, s6.to_string(), "string");
                }
                Addr::Host(h, p) => {
                    rt!(String, format!("{h}:{p}"), "hoststring");
                }
            }
        },
    );
}
