//! C08 — flexible VR decoding agrees with the correct decoder.
use crate::engine::{Ctx, Obs};
use crate::gen::{self, dict, DsCfg};
use crate::props::c01::{snafu_chain, ts_of};
use crate::props::c02::canonical;
use crate::props::c06::{tok_eq_pub as tok_eq, tok_kind_pub as tok_kind};
use dicom_parser::dataset::read::{DataSetReader, DataSetReaderOptions};
use dicom_parser::dataset::DataToken;
use proptest::prelude::*;
use refimpl::dict::Lookup;
use refimpl::ds::{self, Elem, LenMode, Ts, Val};
use serde::{Deserialize, Serialize};

#[derive(Clone, Debug, Serialize, Deserialize)]
pub struct Case {
    pub ds: Vec<Elem>,
    /// encode in explicit LE (true) or implicit LE (false)
    pub explicit: bool,
    /// transfer syntax declared to the flexible reader: 0 implicit LE, 1 explicit LE, 2 JPEG Baseline, 3 Encapsulated Uncompressed
    pub declared: u8,
    /// forced first element: (tag, VR code spelled by the low 16 bits of its length, multiples of 64 KiB added)
    pub forced: Option<((u16, u16), String, u8)>,
    /// a later (never first) top-level element whose length spells a VR code, compatible with its dictionary entry or not:
    /// the stated ambiguity rule concerns the first element only, every later one must be read by the detected decoder
    #[serde(default)]
    pub later: Option<((u16, u16), String, u8)>,
    pub all_undefined: bool,
}

const SPELL: [&str; 9] = ["DA", "DS", "DT", "FL", "FD", "LO", "LT", "PN", "TM"];

fn compatible(spelled: &str, entry_vr: &str) -> bool {
    match entry_vr {
        "Xs" => spelled == "US" || spelled == "SS",
        "Ox" | "Px" => spelled == "OB" || spelled == "OW",
        "Lt" => spelled == "US" || spelled == "OW",
        v => v == spelled,
    }
}

/// dictionary entry VR (virtual names kept) for the ambiguity rule
fn entry_vr(tag: (u16, u16)) -> Option<String> {
    match dict().lookup(tag) {
        Lookup::Entry(i) => Some(dict().entries[i].vr.clone()),
        Lookup::PrivateCreator => Some("LO".into()),
        Lookup::GroupLength => Some("UL".into()),
        Lookup::None => None,
    }
}

fn tokens(bytes: &[u8], ts: &dicom_encoding::TransferSyntax, flexible: bool) -> Result<Vec<DataToken>, String> {
    let opts = DataSetReaderOptions::default().flexible_decoding(flexible);
    match DataSetReader::new_with_ts_options(bytes, ts, opts) {
        Ok(r) => r.map(|t| t.map_err(|e| format!("{e}: {:?}", snafu_chain(&e)))).collect(),
        Err(e) => Err(e.to_string()),
    }
}

fn check(c: &Case, obs: &mut Obs) {
    let enc = if c.explicit { Ts::ExplicitLE } else { Ts::ImplicitLE };
    let mut ir = canonical(&c.ds);
    let mut spelled: Option<String> = None;
    let mut later_spelled: Option<String> = None;
    if let Some((tag, vr_code, k)) = &c.later {
        let lo = u16::from_le_bytes([vr_code.as_bytes()[0], vr_code.as_bytes()[1]]) as usize;
        let vr_on_wire = match dict().lookup(*tag) {
            Lookup::None if c.explicit => "OB".to_string(),
            _ => dict().implicit_vr(*tag).to_string(),
        };
        let k = if ds::is_short_vr(&vr_on_wire) && c.explicit { 0 } else { *k as usize };
        let len = lo + k * 65536;
        let v = match vr_on_wire.as_str() {
            "US" => Val::U16(vec![0x4142; len / 2]),
            "OW" => Val::U16(vec![0x0102; len / 2]),
            "OB" | "UN" => Val::U8(vec![0x41; len]),
            "UL" => Val::U32(vec![7; len / 4]),
            "FD" => Val::F64(vec![1.5f64.to_bits(); len / 8]),
            "FL" => Val::F32(vec![1.5f32.to_bits(); len / 4]),
            "LT" | "UT" | "ST" => Val::Str("A".repeat(len)),
            _ => Val::Strs(vec!["A".repeat(len)]),
        };
        if ds::encode_value(&vr_on_wire, &v, false).len() == len {
            ir.retain(|e| e.tag() != *tag);
            let pos = ir.iter().position(|e| e.tag() > *tag).unwrap_or(ir.len());
            ir.insert(pos, Elem { g: tag.0, e: tag.1, vr: vr_on_wire, v });
            if pos == 0 {
                // keep it from being the first element: an ordinary Image Type element in front
                ir.insert(0, Elem { g: 0x0008, e: 0x0008, vr: "CS".into(), v: Val::Strs(vec!["ORIGINAL".into()]) });
            }
            later_spelled = Some(vr_code.clone());
        }
    }
    if let Some((tag, vr_code, k)) = &c.forced {
        let lo = u16::from_le_bytes([vr_code.as_bytes()[0], vr_code.as_bytes()[1]]) as usize;
        let len = lo + (*k as usize) * 65536;
        // value of exactly `len` bytes under the VR the stream will carry
        let vr_on_wire = if c.explicit {
            // a conforming explicit writer uses the dictionary VR (or any VR for unknown tags); for an entry that
            // allows two VRs, either of them
            match (dict().lookup(*tag), entry_vr(*tag).as_deref()) {
                (Lookup::None, _) => "OB".to_string(),
                (_, Some("Xs")) => ["US", "SS"][*k as usize % 2].to_string(),
                (_, Some("Lt")) => ["US", "OW"][*k as usize % 2].to_string(),
                (_, Some("Ox")) | (_, Some("Px")) => ["OB", "OW"][*k as usize % 2].to_string(),
                _ => dict().implicit_vr(*tag).to_string(),
            }
        } else {
            dict().implicit_vr(*tag).to_string()
        };
        let v = match vr_on_wire.as_str() {
            "US" => Val::U16(vec![0x4142; len / 2]),
            "SS" => Val::I16(vec![0x4142; len / 2]),
            "OW" => Val::U16(vec![0x0102; len / 2]),
            "OB" | "UN" => Val::U8(vec![0x41; len]),
            "UL" => Val::U32(vec![7; len / 4]),
            "LT" | "UT" | "ST" => Val::Str("A".repeat(len)),
            _ => Val::Strs(vec!["A".repeat(len)]),
        };
        if ds::is_short_vr(&vr_on_wire) && c.explicit && len > 65534 {
            obs.skip("forced length does not fit a 16-bit length VR in explicit encoding");
            return;
        }
        ir.retain(|e| e.tag() != *tag);
        ir.insert(0, Elem { g: tag.0, e: tag.1, vr: vr_on_wire, v });
        if !c.explicit {
            spelled = Some(vr_code.clone());
        }
    }
    let first = ir.first().map(|e| e.tag());
    // the stated ambiguity condition (implicit input only)
    let first_len_spells: Option<String> = if !c.explicit {
        ir.first().and_then(|e| {
            if e.v.is_seq() || e.v.is_pix() {
                // undefined length FFFF: not a VR code
                None
            } else {
                let l = ds::encode_value(&e.vr, &e.v, false).len() as u32;
                let b = (l as u16).to_le_bytes();
                std::str::from_utf8(&b).ok().filter(|s| ds::ALL_VRS.contains(s)).map(|s| s.to_string())
            }
        })
    } else {
        None
    };
    if let (Some(sp), Some(tag)) = (&first_len_spells, first) {
        match entry_vr(tag) {
            None => {
                obs.skip("ambiguous by the stated rule: length spells a VR and the tag has no dictionary entry");
                return;
            }
            Some(ev) if compatible(sp, &ev) => {
                obs.skip("ambiguous by the stated rule: length spells a VR compatible with the dictionary entry");
                return;
            }
            _ => {}
        }
    }
    if c.explicit {
        // stated domain: a conforming explicit writer gives the first element its dictionary VR
        if let Some(e) = ir.first() {
            if let Some(ev) = entry_vr(e.tag()) {
                if !compatible(&e.vr, &ev) {
                    obs.skip("explicit first element whose VR contradicts its dictionary entry (outside the stated domain)");
                    return;
                }
            }
        }
    }
    obs.nontrivial = first_len_spells.is_some() || later_spelled.is_some();
    if let Some(s) = &later_spelled {
        obs.class(format!("later-element-spells:{s}"));
    }
    obs.class(if c.explicit { "encoded:explicit-le" } else { "encoded:implicit-le" });
    obs.class(format!("declared:{}", c.declared));
    if let Some(s) = &spelled {
        obs.class(format!("spelled:{s}"));
    }
    let mode = if c.all_undefined { LenMode::AllUndefined } else { LenMode::AsFlagged };
    let bytes = ds::encode_ds(&ir, enc, mode);
    let right_ts = ts_of(if c.explicit { 1 } else { 0 }).0;
    // the declared syntax may also be an encapsulated (explicit VR little endian based) one: flexible decoding
    // must not depend on the codec of the declared syntax
    let declared_ts = match c.declared {
        2 => dicom_transfer_syntax_registry::entries::JPEG_BASELINE.erased(),
        3 => dicom_transfer_syntax_registry::entries::ENCAPSULATED_UNCOMPRESSED_EXPLICIT_VR_LITTLE_ENDIAN.erased(),
        d => ts_of(d % 2).0,
    };
    let want = match tokens(&bytes, &right_ts, false) {
        Ok(t) => t,
        Err(e) => {
            obs.fail("C08:plain reader rejects a conforming stream", e);
            return;
        }
    };
    match tokens(&bytes, &declared_ts, true) {
        Ok(got) => {
            let n = want.len().min(got.len());
            let mut diff = (0..n).find(|i| !tok_eq(&want[*i], &got[*i]));
            if diff.is_none() && want.len() != got.len() {
                diff = Some(n);
            }
            if let Some(i) = diff {
                obs.fail(
                    format!(
                        "C08:flexible reader differs from the {} reader:{}-vs-{}",
                        if c.explicit { "explicit" } else { "implicit" },
                        want.get(i).map(tok_kind).unwrap_or("end"),
                        got.get(i).map(tok_kind).unwrap_or("end")
                    ),
                    format!("declared ts {}: token #{i}: want {:.150?} got {:.150?}", c.declared, want.get(i), got.get(i)),
                );
            }
        }
        Err(e) => obs.fail(
            format!("C08:flexible reader fails on {} input", if c.explicit { "explicit" } else { "implicit" }),
            format!("declared ts {}: {e}", c.declared),
        ),
    }
}

pub fn run(ctx: &Ctx) {
    ctx.run_prop(
        "flexible_vs_plain",
        "G-DS data sets encoded by the reference encoder in Explicit LE and Implicit LE; in ~35% of cases a first element is forced whose value length has low 16 bits spelling one of the even VR codes (DA DS DT FL FD LO LT PN TM, optionally + k*64KiB) on a tag with an incompatible, compatible or no dictionary entry, and in ~30% a later top-level element (never the first) gets such a length on a tag whose dictionary VR may equal the spelled code; flexible reader (declared Explicit LE, Implicit LE or, in 20%, an encapsulated syntax: JPEG Baseline / Encapsulated Uncompressed) token stream must equal the plain explicit resp. implicit reader's; cases ambiguous by the stated rule are skipped and counted; non-trivial = implicit input whose first length spells a VR and is unambiguous, or a later element whose length spells a VR",
        || {
            let forced_tag = prop_oneof![
                // standard tags of various dictionary VRs
                Just((0x0008u16, 0x0008u16)), // CS
                Just((0x0008, 0x0020)),       // DA  (compatible with DA)
                Just((0x0008, 0x0030)),       // TM
                Just((0x0008, 0x0070)),       // LO
                Just((0x0008, 0x0090)),       // PN
                Just((0x0008, 0x4000)),       // LT (retired comments)
                Just((0x0010, 0x0010)),       // PN
                Just((0x0018, 0x0050)),       // DS
                Just((0x0008, 0x002A)),       // DT
                Just((0x0018, 0x9089)),       // FD
                Just((0x0018, 0x605A)),       // FL
                Just((0x0028, 0x0010)),       // US
                Just((0x0028, 0x0106)),       // Xs
                Just((0x0028, 0x3006)),       // Lt (LUT Data: US or OW)
                Just((0x0028, 0x1200)),       // Lt (Gray Lookup Table Data)
                Just((0x0028, 0x0120)),       // Xs (Pixel Padding Value)
                Just((0x0009, 0x0010)),       // private creator (LO)
                Just((0x0009, 0x1001)),       // private, unknown
                Just((0x0006, 0x1000)),       // unknown even group
                Just((0x0008, 0x0000)),       // group length UL
                Just((0x7FE0, 0x0010)),       // pixel data Px
            ];
            // tags (all above (0008,0008)) for a later element whose length spells a VR
            let later_tag = prop_oneof![
                Just((0x0008u16, 0x0020u16)), // DA
                Just((0x0008, 0x0030)),       // TM
                Just((0x0008, 0x0070)),       // LO
                Just((0x0008, 0x0090)),       // PN
                Just((0x0008, 0x4000)),       // LT
                Just((0x0010, 0x0010)),       // PN
                Just((0x0018, 0x0050)),       // DS
                Just((0x0008, 0x002A)),       // DT
                Just((0x0018, 0x9089)),       // FD
                Just((0x0018, 0x605A)),       // FL
                Just((0x0028, 0x0010)),       // US
                Just((0x0009, 0x0010)),       // private creator (LO)
                Just((0x0009, 0x1001)),       // private, unknown
                Just((0x7FE0, 0x0010)),       // pixel data
            ];
            (
                gen::dataset(DsCfg { max_depth: 2, max_top: 5, pixel_seq: false }),
                any::<bool>(),
                prop_oneof![4 => 0u8..2, 1 => 2u8..4],
                proptest::option::weighted(0.35, (forced_tag, 0..SPELL.len(), prop_oneof![4 => Just(0u8), 1 => 1u8..3])),
                proptest::option::weighted(0.3, (later_tag, 0..SPELL.len(), prop_oneof![4 => Just(0u8), 1 => 1u8..3])),
                any::<bool>(),
            )
                .prop_map(|(ds, explicit, declared, forced, later, all_undefined)| Case {
                    ds,
                    explicit,
                    declared,
                    forced: forced.map(|(t, i, k)| (t, SPELL[i].to_string(), k)),
                    later: later.map(|(t, i, k)| (t, SPELL[i].to_string(), k)),
                    all_undefined,
                })
                .boxed()
        },
        ctx.cases(60_000, 1_500_000),
        check,
    );
}
