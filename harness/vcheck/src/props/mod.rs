use crate::engine::Ctx;

pub mod c01;
pub mod c02;
pub mod c03;
pub mod c04;
pub mod c05;
pub mod c06;
pub mod c07;
pub mod c08;
pub mod c09;
pub mod c10;
pub mod c11;
pub mod c12;
pub mod c13;
pub mod c14;
pub mod c15;
pub mod c16;
pub mod c17;
pub mod c18;
pub mod c19;
pub mod c20;
pub mod c21;
pub mod c22;
pub mod c23;
pub mod c25;
pub mod c26;
pub mod c27;
pub mod c28;
pub mod c29;
pub mod c30;
pub mod c31;
pub mod c32;
pub mod c33;
pub mod c34;
pub mod c35;
pub mod c36;

pub fn run(ctx: &Ctx, id: &str) -> bool {
    match id {
        "C01" => c01::run(ctx),
        "C02" => c02::run(ctx),
        "C03" => c03::run(ctx),
        "C04" => c04::run(ctx),
        "C05" => c05::run(ctx),
        "C06" => c06::run(ctx),
        "C07" => c07::run(ctx),
        "C08" => c08::run(ctx),
        "C09" => c09::run(ctx),
        "C10" => c10::run(ctx),
        "C11" => c11::run(ctx),
        "C12" => c12::run(ctx),
        "C13" => c13::run(ctx),
        "C14" => c14::run(ctx),
        "C15" => c15::run(ctx),
        "C16" => c16::run(ctx),
        "C17" => c17::run(ctx),
        "C18" => c18::run(ctx),
        "C19" => c19::run(ctx),
        "C20" => c20::run(ctx),
        "C21" => c21::run(ctx),
        "C22" => c22::run(ctx),
        "C23" => c23::run_c23(ctx),
        "C24" => c23::run_c24(ctx),
        "C25" => c25::run(ctx),
        "C26" => c26::run(ctx),
        "C27" => c27::run(ctx),
        "C28" => c28::run(ctx),
        "C29" => c29::run(ctx),
        "C30" => c30::run(ctx),
        "C31" => c31::run(ctx),
        "C32" => c32::run(ctx),
        "C33" => c33::run(ctx),
        "C34" => c34::run(ctx),
        "C35" => c35::run(ctx),
        "C36" => c36::run(ctx),
        _ => return false,
    }
    true
}
