use crate::engine::Ctx;

pub mod c36;

pub fn run(ctx: &Ctx, id: &str) -> bool {
    match id {
        "C36" => c36::run(ctx),
        _ => return false,
    }
    true
}
