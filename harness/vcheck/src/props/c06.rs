//! C06 — lazy reader and collector agree with the eager reader.
use crate::conv::{obj_matches, prim_le_bytes, split_mm, variant_name};
use crate::engine::{Ctx, Obs};
use crate::gen::{self, DsCfg};
use crate::props::c01::{snafu_chain, ts_of};
use crate::props::c02::canonical;
use dicom_core::header::Header;
use dicom_core::value::Value;
use dicom_core::Tag;
use dicom_object::collector::DicomCollector;
use dicom_object::file::OpenFileOptions;
use dicom_object::{FileDicomObject, InMemDicomObject};
use dicom_parser::dataset::lazy_read::LazyDataSetReader;
use dicom_parser::dataset::read::DataSetReader;
use dicom_parser::dataset::DataToken;
use proptest::prelude::*;
use refimpl::ds::{self, Elem, LenMode, Ts, Val};
use serde::{Deserialize, Serialize};
use std::io::{BufReader, Cursor};

#[derive(Clone, Debug, Serialize, Deserialize)]
pub struct Case {
    pub ds: Vec<Elem>,
    /// 0 implicit LE, 1 explicit LE, 2 explicit BE
    pub ts: u8,
    pub all_undefined: bool,
    /// raw split points; mapped to ascending tags
    pub splits: Vec<(u16, u16)>,
    pub stop: (u16, u16),
    /// use a tag that is present in the object for stop/splits when possible
    pub stop_present: bool,
    pub read_bot_first: bool,
}

pub fn tok_eq_pub(a: &DataToken, b: &DataToken) -> bool {
    tok_eq(a, b)
}

pub fn tok_kind_pub(t: &DataToken) -> &'static str {
    tok_kind(t)
}

fn tok_eq(a: &DataToken, b: &DataToken) -> bool {
    use DataToken::*;
    match (a, b) {
        (ElementHeader(x), ElementHeader(y)) => x.tag == y.tag && x.vr == y.vr && x.len.0 == y.len.0,
        (SequenceStart { tag: t1, len: l1 }, SequenceStart { tag: t2, len: l2 }) => t1 == t2 && l1.0 == l2.0,
        (PixelSequenceStart, PixelSequenceStart) | (SequenceEnd, SequenceEnd) | (ItemEnd, ItemEnd) => true,
        (ItemStart { len: l1 }, ItemStart { len: l2 }) => l1.0 == l2.0,
        (PrimitiveValue(x), PrimitiveValue(y)) => variant_name(x) == variant_name(y) && prim_le_bytes(x) == prim_le_bytes(y),
        (ItemValue(x), ItemValue(y)) => x == y,
        (OffsetTable(x), OffsetTable(y)) => x == y,
        // the lazy reader has no offset table token: an item value holding the table's bytes in the
        // stream's byte order (the decoded table itself is compared separately, against the opened file)
        (OffsetTable(t), ItemValue(b)) | (ItemValue(b), OffsetTable(t)) => {
            let le: Vec<u8> = t.iter().flat_map(|o| o.to_le_bytes()).collect();
            let be: Vec<u8> = t.iter().flat_map(|o| o.to_be_bytes()).collect();
            le == *b || be == *b
        }
        _ => false,
    }
}

fn tok_kind(t: &DataToken) -> &'static str {
    match t {
        DataToken::ElementHeader(_) => "ElementHeader",
        DataToken::SequenceStart { .. } => "SequenceStart",
        DataToken::PixelSequenceStart => "PixelSequenceStart",
        DataToken::SequenceEnd => "SequenceEnd",
        DataToken::ItemStart { .. } => "ItemStart",
        DataToken::ItemEnd => "ItemEnd",
        DataToken::PrimitiveValue(_) => "PrimitiveValue",
        DataToken::ItemValue(_) => "ItemValue",
        DataToken::OffsetTable(_) => "OffsetTable",
    }
}

fn top_tags(ir: &[Elem]) -> Vec<(u16, u16)> {
    ir.iter().map(|e| e.tag()).collect()
}

fn obj_tags(o: &InMemDicomObject) -> Vec<(u16, u16)> {
    o.iter().map(|e| (e.tag().0, e.tag().1)).collect()
}

fn pick(ir: &[Elem], raw: (u16, u16), present: bool) -> (u16, u16) {
    if present && !ir.is_empty() {
        let k = (raw.0 as usize * 7 + raw.1 as usize) % ir.len();
        ir[k].tag()
    } else {
        raw
    }
}

fn check(c: &Case, obs: &mut Obs) {
    let (ts, enc, tsname) = ts_of(c.ts);
    let mut ir = canonical(&c.ds);
    let mode = if c.all_undefined { LenMode::AllUndefined } else { LenMode::AsFlagged };
    let ir_eff = if enc == Ts::ImplicitLE { crate::conv::degrade_unknown_explicit_seqs(&ir, mode) } else { ir.clone() };
    let has_pix = ir.iter().any(|e| e.v.is_pix());
    obs.class(format!("ts:{tsname}"));
    if has_pix {
        obs.class("has-pixel-sequence");
        if let Some(Val::Pix { bot, frags }) = ir.iter().find(|e| e.v.is_pix()).map(|e| &e.v) {
            if bot.is_empty() {
                obs.class("empty-offset-table");
            }
            if frags.iter().any(|f| f.is_empty()) {
                obs.class("zero-length-fragment");
            }
        }
    }
    let bytes = ds::encode_ds(&ir, enc, mode);

    // ---------- (1) lazy token stream == eager token stream
    let eager: Result<Vec<DataToken>, String> = match DataSetReader::new_with_ts(&bytes[..], &ts) {
        Ok(r) => r.map(|t| t.map_err(|e| format!("{e}: {:?}", snafu_chain(&e)))).collect(),
        Err(e) => Err(e.to_string()),
    };
    let lazy: Result<Vec<DataToken>, String> = match LazyDataSetReader::new_with_ts(Cursor::new(&bytes[..]), &ts) {
        Ok(mut r) => {
            let mut v = vec![];
            let mut err = None;
            while let Some(t) = r.advance() {
                match t {
                    Ok(t) => match t.into_owned() {
                        Ok(t) => v.push(t),
                        Err(e) => {
                            err = Some(format!("into_owned: {e}: {:?}", snafu_chain(&e)));
                            break;
                        }
                    },
                    Err(e) => {
                        err = Some(format!("{e}: {:?}", snafu_chain(&e)));
                        break;
                    }
                }
            }
            match err {
                Some(e) => Err(e),
                None => Ok(v),
            }
        }
        Err(e) => Err(e.to_string()),
    };
    match (&eager, &lazy) {
        (Ok(a), Ok(b)) => {
            let n = a.len().min(b.len());
            let mut diff = None;
            for i in 0..n {
                if !tok_eq(&a[i], &b[i]) {
                    diff = Some(i);
                    break;
                }
            }
            if diff.is_none() && a.len() != b.len() {
                diff = Some(n);
            }
            if let Some(i) = diff {
                obs.fail(
                    format!(
                        "C06:lazy token stream differs from eager:{}-vs-{}",
                        a.get(i).map(tok_kind).unwrap_or("end"),
                        b.get(i).map(tok_kind).unwrap_or("end")
                    ),
                    format!("[{tsname}] token #{i}: eager {:.150?} lazy {:.150?}", a.get(i), b.get(i)),
                );
            }
        }
        (Err(e), _) => {
            obs.fail("C06:eager reader rejects a conforming stream", format!("[{tsname}] {e}"));
            return;
        }
        (Ok(_), Err(e)) => obs.fail("C06:lazy reader fails where the eager reader succeeds", format!("[{tsname}] {e}")),
    }

    // ---------- files
    let file = refimpl::file::build_file(enc.uid(), "1.2.840.10008.5.1.4.1.1.7", "1.2.3.4.5.6.7", &bytes, true);
    let whole = match FileDicomObject::<InMemDicomObject>::from_reader(&file[..]) {
        Ok(o) => o,
        Err(e) => {
            obs.fail("C06:from_reader rejects a conforming file", format!("[{tsname}] {e}: {:?}", snafu_chain(&e)));
            return;
        }
    };
    if let Err(m) = obj_matches(&whole, &ir_eff, enc, mode, "") {
        let (k, d) = split_mm(&m);
        obs.fail(format!("C06:whole-file read differs from the data set:{k}"), format!("[{tsname}] {d}"));
        return;
    }

    // ---------- (2) collector: meta + portions
    let mut splits: Vec<(u16, u16)> = c.splits.iter().map(|s| pick(&ir, *s, c.stop_present)).collect();
    splits.sort();
    splits.dedup();
    obs.nontrivial = splits.len() >= 1 || has_pix;
    {
        let mut col = DicomCollector::new(BufReader::new(Cursor::new(&file[..])));
        match col.read_file_meta() {
            Ok(m) => {
                if m != whole.meta() {
                    obs.fail("C06:collector meta differs from the opened file's meta", format!("{m:?} vs {:?}", whole.meta()));
                }
            }
            Err(e) => {
                obs.fail("C06:collector read_file_meta failed", format!("{e}"));
                return;
            }
        }
        let mut acc = InMemDicomObject::new_empty();
        let mut ok = true;
        for t in &splits {
            if let Err(e) = col.read_dataset_up_to(Tag(t.0, t.1), &mut acc) {
                obs.fail("C06:collector read_dataset_up_to failed", format!("[{tsname}] stop {t:04X?}: {e}: {:?}", snafu_chain(&e)));
                ok = false;
                break;
            }
            let want: Vec<(u16, u16)> = top_tags(&ir).into_iter().filter(|x| x < t).collect();
            let got = obj_tags(&acc);
            if got != want {
                obs.fail(
                    "C06:collector portion does not hold exactly the tags below the stop tag",
                    format!("[{tsname}] stop {t:04X?}: got {got:04X?} want {want:04X?}"),
                );
                ok = false;
                break;
            }
        }
        if ok {
            match col.read_dataset_to_end(&mut acc) {
                Ok(()) => {
                    if let Err(m) = obj_matches(&acc, &ir_eff, enc, mode, "") {
                        let (k, d) = split_mm(&m);
                        let extra = if has_pix && k.contains("fragment") || k.contains("offset-table") {
                            let eb = matches!(ir.iter().find(|e| e.v.is_pix()).map(|e| &e.v), Some(Val::Pix { bot, .. }) if bot.is_empty());
                            if eb { ":empty-offset-table" } else { ":non-empty-offset-table" }
                        } else {
                            ""
                        };
                        obs.fail(format!("C06:collected data set differs:{k}{extra}"), format!("[{tsname}] splits {splits:04X?}: {d}"));
                    }
                }
                Err(e) => obs.fail("C06:collector read_dataset_to_end failed", format!("[{tsname}] {e}: {:?}", snafu_chain(&e))),
            }
        }
    }

    // ---------- (3) offset table and fragments one by one
    if has_pix {
        let (bot, frags) = match whole.get(Tag(0x7FE0, 0x0010)).map(|e| e.value()) {
            Some(Value::PixelSequence(ps)) => (ps.offset_table().to_vec(), ps.fragments().to_vec()),
            _ => {
                obs.fail("C06:opened file has no pixel sequence", "".to_string());
                return;
            }
        };
        let mut col = DicomCollector::new(BufReader::new(Cursor::new(&file[..])));
        let mut err = None;
        if c.read_bot_first {
            let mut t = vec![];
            match col.read_basic_offset_table(&mut t) {
                Ok(Some(n)) => {
                    if t != bot || n as usize != bot.len() * 4 {
                        obs.fail(
                            format!("C06:read_basic_offset_table differs:{}", if bot.is_empty() { "empty" } else { "non-empty" }),
                            format!("got {t:?} ({n} bytes) want {bot:?}"),
                        );
                    }
                }
                Ok(None) => obs.fail("C06:read_basic_offset_table found no table", format!("want {bot:?}")),
                Err(e) => err = Some(format!("read_basic_offset_table: {e}")),
            }
        } else {
            // without asking for the table first, the first "fragment" is documented to be the table bytes
            let mut b = vec![];
            match col.read_next_fragment(&mut b) {
                Ok(Some(_)) => {
                    let mut w = vec![];
                    bot.iter().for_each(|o| w.extend_from_slice(&if enc.big() { o.to_be_bytes() } else { o.to_le_bytes() }));
                    if b != w {
                        obs.fail("C06:first read_next_fragment is not the offset table bytes", format!("got {b:02x?} want {w:02x?}"));
                    }
                }
                Ok(None) => obs.fail("C06:read_next_fragment found nothing", String::new()),
                Err(e) => err = Some(format!("read_next_fragment(table): {e}")),
            }
        }
        if err.is_none() {
            for (i, f) in frags.iter().enumerate() {
                let mut b = vec![];
                match col.read_next_fragment(&mut b) {
                    Ok(Some(n)) => {
                        if b != *f || n as usize != f.len() {
                            obs.fail(
                                format!("C06:read_next_fragment differs:{}", if f.is_empty() { "zero-length" } else { "non-empty" }),
                                format!("fragment {i}: got {} bytes, want {}", b.len(), f.len()),
                            );
                            break;
                        }
                    }
                    Ok(None) => {
                        obs.fail(
                            format!("C06:read_next_fragment ended early:{}", if f.is_empty() { "zero-length" } else { "non-empty" }),
                            format!("fragment {i} of {}", frags.len()),
                        );
                        break;
                    }
                    Err(e) => {
                        err = Some(format!("read_next_fragment #{i}: {e}"));
                        break;
                    }
                }
            }
        }
        if err.is_none() && !obs.failed() {
            let mut b = vec![];
            match col.read_next_fragment(&mut b) {
                Ok(None) => {}
                Ok(Some(n)) => obs.fail("C06:read_next_fragment returns a fragment after the last one", format!("{n} bytes")),
                Err(e) => err = Some(format!("read_next_fragment(after last): {e}")),
            }
        }
        if let Some(e) = err {
            obs.fail("C06:collector fragment reading failed", e);
        }
    }

    // ---------- (4) read_until / read_to
    let stop = pick(&ir, c.stop, c.stop_present);
    let st = Tag(stop.0, stop.1);
    let tags = top_tags(&ir);
    for (name, opts, want) in [
        ("read_until", OpenFileOptions::new().read_until(st), tags.iter().copied().filter(|t| *t < stop).collect::<Vec<_>>()),
        ("read_to", OpenFileOptions::new().read_to(st), tags.iter().copied().filter(|t| *t <= stop).collect::<Vec<_>>()),
        (
            "read_until+read_to",
            OpenFileOptions::new().read_to(st).read_until(st),
            tags.iter().copied().filter(|t| *t < stop).collect::<Vec<_>>(),
        ),
    ] {
        obs.extra_evals += 1;
        match opts.from_reader(&file[..]) {
            Ok(o) => {
                let got = obj_tags(&o);
                if got != want {
                    obs.fail(
                        format!("C06:{name} does not yield exactly the expected top-level elements"),
                        format!("[{tsname}] stop {stop:04X?}: got {got:04X?} want {want:04X?}"),
                    );
                } else {
                    // the elements kept are the right ones, with the right values
                    let kept: Vec<Elem> = ir_eff.iter().filter(|e| want.contains(&e.tag())).cloned().collect();
                    if let Err(m) = obj_matches(&o, &kept, enc, mode, "") {
                        let (k, d) = split_mm(&m);
                        obs.fail(format!("C06:{name} elements differ:{k}"), format!("[{tsname}] {d}"));
                    }
                }
            }
            Err(e) => obs.fail(format!("C06:{name} failed"), format!("[{tsname}] stop {stop:04X?}: {e}: {:?}", snafu_chain(&e))),
        }
    }
}

pub fn run(ctx: &Ctx) {
    ctx.assume("the eager reader is tied to the data set IR through C01; here it is additionally compared with the IR before it is used as the reference side");
    ctx.run_prop(
        "lazy_collector_vs_eager",
        "G-DS data sets (canonical text values; pixel sequences with empty/non-empty offset tables and zero-length fragments in ~30% of cases) encoded by the reference encoder in the 3 uncompressed syntaxes with explicit/undefined flags, wrapped in a reference-built file; 0-4 ascending split tags and a stop tag (present in the object or not); oracle: lazy tokens == eager tokens (offset table token == item value of its LE bytes); collector meta == opened meta; every portion holds exactly the tags below its stop tag and the union ≈ the data set; offset table and fragments one by one equal those of the opened object then None; read_until/read_to/both yield exactly the elements below / up to the tag; non-trivial = at least one split or a pixel sequence",
        || {
            (
                gen::dataset(DsCfg { max_depth: 3, max_top: 8, pixel_seq: false }),
                proptest::option::weighted(0.3, gen::pixel_sequence()),
                0u8..3,
                any::<bool>(),
                proptest::collection::vec((any::<u16>(), any::<u16>()), 0..5),
                (any::<u16>(), any::<u16>()),
                proptest::bool::weighted(0.6),
                any::<bool>(),
            )
                .prop_map(|(mut ds, pix, ts, all_undefined, splits, stop, stop_present, read_bot_first)| {
                    ds.retain(|e| e.tag() != (0x7FE0, 0x0010));
                    if let Some(p) = pix {
                        ds.push(p);
                        ds = gen::normalize(ds);
                    }
                    Case { ds, ts, all_undefined, splits, stop, stop_present, read_bot_first }
                })
                .boxed()
        },
        ctx.cases(20_000, 500_000),
        check,
    );
}
