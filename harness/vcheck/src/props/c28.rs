//! C28 — the association acceptor negotiates presentation contexts by the rules.
use crate::engine::{Ctx, Obs};
use dicom_ul::pdu::{DEFAULT_MAX_PDU, MAXIMUM_PDU_SIZE};
use probe::negotiate::{NegCase, NegOut};
use proptest::prelude::*;
use refimpl::negotiate::{negotiate, trim_uid, AcceptorCfg, Outcome, STD_APP_CTX};
use refimpl::pdu::{PcProposed, PduIr, UserItem};
use serde::{Deserialize, Serialize};
use std::collections::BTreeSet;
use std::io::Write;
use std::sync::OnceLock;

const ABS: [&str; 4] = ["1.2.840.10008.5.1.4.1.1.7", "1.2.840.10008.5.1.4.1.1.2", "1.2.840.10008.1.1", "1.2.840.10008.5.1.4.1.1.7\0"];
const ILE: &str = "1.2.840.10008.1.2";
const ELE: &str = "1.2.840.10008.1.2.1";
const JPEG: &str = "1.2.840.10008.1.2.4.50";
const DEFL: &str = "1.2.840.10008.1.2.1.99";
const UNKNOWN_TS: &str = "1.2.3.4.5.6.7.8.9";
const TSS: [&str; 6] = [ILE, ELE, JPEG, DEFL, UNKNOWN_TS, "1.2.840.10008.1.2\0"];

#[derive(Clone, Debug, Serialize, Deserialize)]
pub struct Case {
    pub neg: NegCase,
    /// output of the feature-less build for the same case, when it was computed
    pub out_nofeat: Option<NegOut>,
}

/// UIDs the registry of a build supports (registered and not `is_unsupported`)
fn supported_sets() -> &'static (BTreeSet<String>, BTreeSet<String>) {
    static S: OnceLock<(BTreeSet<String>, BTreeSet<String>)> = OnceLock::new();
    S.get_or_init(|| {
        let of = |j: &serde_json::Value| -> BTreeSet<String> {
            j["entries"]
                .as_array()
                .map(|a| a.iter().filter(|e| !e["is_unsupported"].as_bool().unwrap_or(true)).filter_map(|e| e["uid"].as_str().map(|s| s.to_string())).collect())
                .unwrap_or_default()
        };
        let with = of(&probe::registry::describe());
        let exe = std::path::PathBuf::from(std::env::var("VERIF_ROOT").unwrap_or_else(|_| "/verif".into())).join("harness/target/release/regprobe");
        let without = std::process::Command::new(exe)
            .arg("registry")
            .output()
            .ok()
            .and_then(|o| serde_json::from_slice::<serde_json::Value>(&o.stdout).ok())
            .map(|j| of(&j))
            .unwrap_or_default();
        (with, without)
    })
}

fn compare(build: &str, c: &NegCase, out: &NegOut, supported: &BTreeSet<String>, obs: &mut Obs) {
    let want = negotiate(&c.cfg, &c.req, &|t| supported.contains(t), MAXIMUM_PDU_SIZE, DEFAULT_MAX_PDU);
    let PduIr::AssocRq { called, calling, app_ctx, pcs, .. } = &c.req else { return };
    match (&want, &out.reply) {
        (Outcome::Reject(r), PduIr::AssocRj { source, reason, .. }) => {
            if let Some((s, w)) = r {
                if (*source, *reason) != (*s, *w) {
                    obs.fail(format!("C28:rejection reason differs:{build}:want({s},{w})"), format!("got ({source},{reason}); cfg {:?}", c.cfg));
                }
            }
            if out.peer_max.is_some() {
                obs.fail(format!("C28:rejected request reported as accepted:{build}"), String::new());
            }
        }
        (Outcome::Reject(r), other) => obs.fail(
            format!("C28:request that must be rejected is answered otherwise:{build}:{}", match r { Some((1, 2)) => "application-context", Some((1, 7)) => "access-control", _ => "protocol-version" }),
            format!("reply {other:.200?}; cfg {:?}", c.cfg),
        ),
        (Outcome::Accept { results, peer_max }, PduIr::AssocAc { pcs: got, called: gc, calling: gcl, app_ctx: ga, .. }) => {
            if got.len() != results.len() {
                obs.fail(format!("C28:number of results differs from the number of proposed contexts:{build}"), format!("{} vs {}", got.len(), results.len()));
                return;
            }
            for (i, ((id, reason, ts), g)) in results.iter().zip(got).enumerate() {
                if g.id != *id {
                    obs.fail(format!("C28:result carries a different context id:{build}"), format!("#{i}: {} vs {id}", g.id));
                }
                if g.reason != *reason {
                    let prop = &pcs[i];
                    obs.fail(
                        format!("C28:result/reason differs:{build}:want{reason}:got{}", g.reason),
                        format!("context #{i} abstract {:?} ts {:?}; cfg {:?}", prop.abstract_syntax, prop.transfer_syntaxes, c.cfg),
                    );
                } else if let Some(t) = ts {
                    if trim_uid(&g.transfer_syntax) != t {
                        obs.fail(
                            format!("C28:accepted transfer syntax is not the first acceptable proposed one:{build}"),
                            format!("context #{i}: got {:?} want {t:?}; proposed {:?}; cfg ts {:?}", g.transfer_syntax, pcs[i].transfer_syntaxes, c.cfg.transfer_syntaxes),
                        );
                    }
                }
            }
            if out.peer_max != Some(*peer_max) {
                obs.fail(format!("C28:requestor maximum PDU length differs:{build}"), format!("{:?} vs {peer_max}", out.peer_max));
            }
            if gc != called || gcl != calling || ga != app_ctx {
                obs.fail(format!("C28:A-ASSOCIATE-AC does not echo the AE titles / application context:{build}"), format!("{gc:?} {gcl:?} {ga:?}"));
            }
        }
        (Outcome::Accept { .. }, other) => obs.fail(format!("C28:acceptable request is not answered with A-ASSOCIATE-AC:{build}"), format!("{other:.200?}; cfg {:?}", c.cfg)),
    }
}

fn check(c: &Case, obs: &mut Obs) {
    let (with, without) = supported_sets();
    let PduIr::AssocRq { pcs, .. } = &c.neg.req else { return };
    obs.nontrivial = !pcs.is_empty();
    obs.class(format!("contexts:{}", pcs.len().min(5)));
    if let PduIr::AssocRq { user, .. } = &c.neg.req {
        let req_max = user.iter().find_map(|u| if let UserItem::MaxLength(n) = u { Some(*n) } else { None });
        obs.class(format!(
            "requestor-max:{}:acceptor-max:{}",
            match req_max { None => "absent", Some(0) => "0", _ => "given" },
            match c.neg.cfg.max_pdu_length { None => "unset", Some(0) => "0", _ => "set" }
        ));
    }
    let out = probe::negotiate::run(&c.neg);
    compare("features", &c.neg, &out, with, obs);
    if let Some(o) = &c.out_nofeat {
        obs.extra_evals += 1;
        obs.class("also-featureless-build");
        compare("no-features", &c.neg, o, without, obs);
    }
}

fn mk_req(pcs: Vec<PcProposed>, protocol_version: u16, app_ctx: &str, called: &str, max: Option<u32>) -> PduIr {
    let mut user = vec![];
    if let Some(m) = max {
        user.push(UserItem::MaxLength(m));
    }
    user.push(UserItem::ImplClassUid("1.2.3.4".into()));
    PduIr::AssocRq { protocol_version, called: called.into(), calling: "VERIF-SCU".into(), app_ctx: app_ctx.into(), pcs, user }
}

/// run a batch of cases through the feature-less regprobe binary
fn run_nofeat(ctx: &Ctx, cases: &[NegCase]) -> Option<Vec<NegOut>> {
    let exe = ctx.root.join("harness/target/release/regprobe");
    let mut child = std::process::Command::new(&exe).arg("negotiate").stdin(std::process::Stdio::piped()).stdout(std::process::Stdio::piped()).spawn().ok()?;
    let mut stdin = child.stdin.take()?;
    let payload: String = cases.iter().map(|c| serde_json::to_string(c).unwrap() + "\n").collect();
    let h = std::thread::spawn(move || {
        let _ = stdin.write_all(payload.as_bytes());
    });
    let out = child.wait_with_output().ok()?;
    let _ = h.join();
    let v: Vec<NegOut> = String::from_utf8_lossy(&out.stdout).lines().filter_map(|l| serde_json::from_str(l).ok()).collect();
    if v.len() == cases.len() {
        Some(v)
    } else {
        None
    }
}

pub fn run(ctx: &Ctx) {
    ctx.assume("hook verif-hooks: ServerAssociationOptions::verif_process_rq exposes the private request processing; the registry's support set of each build is read from the registry itself (C16 checks it)");
    // ---------------- exhaustive single-context universe
    let mut ts_lists: Vec<Vec<&str>> = vec![];
    for a in TSS {
        ts_lists.push(vec![a]);
        for b in TSS {
            ts_lists.push(vec![a, b]);
            for c in TSS {
                ts_lists.push(vec![a, b, c]);
            }
        }
    }
    let abs_cfgs: Vec<Vec<&str>> = vec![vec![], vec![ABS[0]], vec![ABS[1]], vec![ABS[0], ABS[1]]];
    let ts_cfgs: Vec<Vec<&str>> = vec![vec![], vec![ILE], vec![ELE], vec![ILE, ELE], vec![JPEG, DEFL], vec![DEFL], vec!["1.2.840.10008.1.2\0"]];
    let maxes = [None, Some(0u32), Some(16384), Some(u32::MAX), Some(1018)];
    let mut cases = vec![];
    let mut k = 0usize;
    for abs in ABS {
        for tl in &ts_lists {
            for ac in &abs_cfgs {
                for tc in &ts_cfgs {
                    for promiscuous in [false, true] {
                        // the remaining request-level dimensions are crossed on a rotating basis plus fully for a slice
                        let variants: Vec<(bool, u16, &str)> = if k % 8 == 0 {
                            vec![(false, 1, STD_APP_CTX), (true, 1, STD_APP_CTX), (false, 2, STD_APP_CTX), (false, 1, "1.2.840.10008.3.1.1.2"), (true, 2, "1.2.3")]
                        } else {
                            vec![(k % 3 == 0, 1, STD_APP_CTX)]
                        };
                        for (called_only, pv, app) in variants {
                            let called = if k % 5 == 0 { "OTHER-SCP" } else { "THIS-SCP" };
                            let req = mk_req(
                                vec![PcProposed { id: (2 * (k % 120) + 1) as u8, abstract_syntax: abs.to_string(), transfer_syntaxes: tl.iter().map(|s| s.to_string()).collect() }],
                                pv,
                                app,
                                called,
                                maxes[k % maxes.len()],
                            );
                            cases.push(NegCase {
                                cfg: AcceptorCfg {
                                    ae_title: "THIS-SCP".into(),
                                    abstract_syntaxes: ac.iter().map(|s| s.to_string()).collect(),
                                    transfer_syntaxes: tc.iter().map(|s| s.to_string()).collect(),
                                    promiscuous,
                                    accept_called_only: called_only,
                                    max_pdu_length: [None, Some(8192u32), None, Some(1018), Some(0), Some(65536), None][k % 7],
                                },
                                req,
                            });
                        }
                        k += 1;
                    }
                }
            }
        }
    }
    // the feature-less build: every case whose proposal or configuration mentions a codec-dependent syntax
    let idx: Vec<usize> = cases
        .iter()
        .enumerate()
        .filter(|(i, c)| {
            let PduIr::AssocRq { pcs, .. } = &c.req else { return false };
            (pcs[0].transfer_syntaxes.iter().any(|t| t == DEFL) || c.cfg.transfer_syntaxes.iter().any(|t| t == DEFL)) && i % 4 == 0
        })
        .map(|(i, _)| i)
        .collect();
    let sub: Vec<NegCase> = idx.iter().map(|i| cases[*i].clone()).collect();
    let nofeat = run_nofeat(ctx, &sub);
    if nofeat.is_none() {
        ctx.infra("cannot run the feature-less regprobe negotiate batch".into());
    }
    let mut items: Vec<Case> = cases.into_iter().map(|neg| Case { neg, out_nofeat: None }).collect();
    if let Some(outs) = nofeat {
        for (i, o) in idx.into_iter().zip(outs) {
            items[i].out_nofeat = Some(o);
        }
    }
    ctx.run_enum(
        "single_context_universe",
        "exhaustive: one proposed context with abstract syntax in {A, B, C, A+NUL} x every transfer syntax list of length 1-3 over {Implicit LE, Explicit LE, JPEG baseline, Deflated Explicit LE, an unregistered UID, Implicit LE+NUL} (258 lists) x acceptor abstract syntaxes in subsets of {A,B} x 7 transfer syntax configurations (none, ILE, ELE, ILE+ELE, JPEG+Deflated, Deflated, ILE+NUL) x promiscuous on/off; access control, protocol version, application context, requestor maximum length (absent / 0 / 1018 / 16384 / 2^32-1) and the acceptor's own configured maximum (unset / 0 / 1018 / 8192 / 65536) crossed fully on every 8th configuration and rotating otherwise; run through the hook in the main build, and (for cases involving Deflated, every 4th) also in the feature-less regprobe build where Deflated is registered but unsupported; oracle: reference negotiation model",
        items,
        true,
        check,
    );
    // ---------------- random multi-context requests
    ctx.run_prop(
        "random_requests",
        "random requests with 0-6 contexts (ids preserved, order preserved, duplicates allowed), transfer syntax lists of length 0-4, random acceptor configurations incl. empty abstract syntax list, requestor maximum length absent / 0 / small / huge, acceptor's own maximum unset / 0 / 1018 / 8192 / random; main build only; non-trivial = at least one context",
        || {
            let abs = proptest::sample::select(ABS.to_vec());
            let ts = proptest::sample::select(TSS.to_vec());
            let pc = (any::<u8>(), abs.clone(), proptest::collection::vec(ts.clone(), 0..5))
                .prop_map(|(id, a, t)| PcProposed { id, abstract_syntax: a.to_string(), transfer_syntaxes: t.into_iter().map(|s| s.to_string()).collect() });
            (
                proptest::collection::vec(pc, 0..7),
                proptest::collection::vec(abs, 0..3),
                proptest::collection::vec(ts, 0..4),
                any::<bool>(),
                any::<bool>(),
                prop_oneof![8 => Just(1u16), 1 => any::<u16>()],
                prop_oneof![8 => Just(STD_APP_CTX.to_string()), 1 => Just("1.2.840.10008.3.1.1.1\0".to_string()), 1 => Just("1.2.3".to_string())],
                prop_oneof![Just("THIS-SCP".to_string()), Just("OTHER".to_string())],
                proptest::option::of(prop_oneof![Just(0u32), Just(1018), any::<u32>()]),
                proptest::option::of(prop_oneof![Just(0u32), Just(1018), Just(8192), 1018u32..200_000]),
            )
                .prop_map(|(pcs, ca, ct, promiscuous, called_only, pv, app, called, max, own_max)| Case {
                    neg: NegCase {
                        cfg: AcceptorCfg {
                            ae_title: "THIS-SCP".into(),
                            abstract_syntaxes: ca.into_iter().map(|s| s.to_string()).collect(),
                            transfer_syntaxes: ct.into_iter().map(|s| s.to_string()).collect(),
                            promiscuous,
                            accept_called_only: called_only,
                            max_pdu_length: own_max,
                        },
                        req: mk_req(pcs, pv, &app, &called, max),
                    },
                    out_nofeat: None,
                })
                .boxed()
        },
        ctx.cases(20_000, 400_000),
        check,
    );
}
