//! C17 — person names round-trip between text and components.
use crate::engine::{Ctx, Obs};
use dicom_core::value::PersonName;
use proptest::prelude::*;
use serde::{Deserialize, Serialize};

#[derive(Clone, Debug, Serialize, Deserialize)]
pub struct Case {
    /// family, given, middle, prefix, suffix
    pub comps: [Option<String>; 5],
}

fn comp() -> BoxedStrategy<String> {
    prop_oneof![
        5 => "[A-Za-z][A-Za-z .'-]{0,10}[A-Za-z.]",
        2 => "[A-Za-z]",
        3 => "[^\\^=\\\\]{1,8}",
        1 => Just(String::new()),
    ]
    .prop_map(|s| s.trim().to_string())
    .boxed()
}

fn check(c: &Case, obs: &mut Obs) {
    let present = c.comps.iter().filter(|x| x.is_some()).count();
    obs.nontrivial = present >= 1;
    let mask: u8 = c.comps.iter().enumerate().map(|(i, x)| (x.is_some() as u8) << i).sum();
    obs.class(format!("presence-mask:{mask:05b}"));
    let mut b = PersonName::builder();
    if let Some(s) = &c.comps[0] {
        b.with_family(s.clone());
    }
    if let Some(s) = &c.comps[1] {
        b.with_given(s.clone());
    }
    if let Some(s) = &c.comps[2] {
        b.with_middle(s.clone());
    }
    if let Some(s) = &c.comps[3] {
        b.with_prefix(s.clone());
    }
    if let Some(s) = &c.comps[4] {
        b.with_suffix(s.clone());
    }
    let p = b.build();
    let txt = p.to_dicom_string();
    let q = PersonName::from_text(&txt);
    let norm = |x: &Option<String>| x.as_deref().filter(|s| !s.is_empty()).map(|s| s.to_string());
    let want: Vec<Option<String>> = c.comps.iter().map(norm).collect();
    let got = vec![
        q.family().map(|s| s.to_string()),
        q.given().map(|s| s.to_string()),
        q.middle().map(|s| s.to_string()),
        q.prefix().map(|s| s.to_string()),
        q.suffix().map(|s| s.to_string()),
    ];
    if want != got {
        obs.fail("C17:components differ after text round trip", format!("{:?} -> {txt:?} -> {got:?}", c.comps));
    }
    // separators: exactly the ones needed when the trailing components are absent
    let last_present = c.comps.iter().rposition(|x| x.is_some());
    let all_nonempty = c.comps.iter().all(|x| x.as_deref().map(|s| !s.is_empty()).unwrap_or(true));
    if all_nonempty {
        let want_txt = match last_present {
            None => String::new(),
            Some(l) => c.comps[..=l].iter().map(|x| x.clone().unwrap_or_default()).collect::<Vec<_>>().join("^"),
        };
        if txt != want_txt {
            obs.fail(
                if txt.ends_with('^') { "C17:trailing separator in DICOM text" } else { "C17:DICOM text differs from the reference form" },
                format!("{:?} -> {txt:?}, expected {want_txt:?}", c.comps),
            );
        }
    }
}

pub fn run(ctx: &Ctx) {
    // all 32 presence combinations with fixed texts (exhaustive part)
    let mut fixed = vec![];
    for mask in 0u8..32 {
        let names = ["Family", "Given", "Middle", "Dr.", "Jr."];
        let comps: [Option<String>; 5] = std::array::from_fn(|i| if mask >> i & 1 == 1 { Some(names[i].to_string()) } else { None });
        fixed.push(Case { comps });
    }
    ctx.run_enum(
        "presence_combinations",
        "exhaustive: all 32 present/absent combinations of the five components with fixed texts; oracle: text == components joined by '^' up to the last present one; from_text(text) gives the same components",
        fixed,
        true,
        check,
    );
    ctx.run_prop(
        "random_components",
        "32 presence combinations x random component texts (ASCII names, arbitrary Unicode without '^', '=', backslash, trimmed; present-but-empty components too); oracle: from_text(to_dicom_string(p)) == p with empty components normalised to absent; for non-empty components the text is the '^'-join up to the last present component (no trailing separator, leading empties kept); non-trivial = at least one component present",
        || {
            proptest::array::uniform5(proptest::option::weighted(0.55, comp()))
                .prop_map(|comps| Case { comps })
                .boxed()
        },
        ctx.cases(40_000, 600_000),
        check,
    );
}
