//! C23 — DICOM JSON serialisation round-trips; C24 — output conforms to PS3.18 Annex F.
use crate::conv::{obj_matches, split_mm, to_obj};
use crate::engine::{Ctx, Obs};
use crate::gen::{self, DsCfg};
use dicom_object::InMemDicomObject;
use proptest::prelude::*;
use refimpl::ds::{self, Elem, Item, LenMode, Ts, Val};
use serde::{Deserialize, Serialize};

#[derive(Clone, Debug, Serialize, Deserialize)]
pub struct Case {
    pub ds: Vec<Elem>,
}

/// JSON cannot carry NaN payloads: canonical NaN only.  FL values go through the decimal text
/// (shortest f32 digits, parsed as f64, narrowed): model that (it is the identity except in
/// astronomically rare double-rounding cases).
fn prepare(elems: &[Elem]) -> Vec<Elem> {
    elems
        .iter()
        .filter(|e| !e.v.is_pix())
        .map(|e| {
            let v = match &e.v {
                Val::F32(x) if e.vr == "FL" => Val::F32(
                    x.iter()
                        .map(|b| {
                            let f = f32::from_bits(*b);
                            if f.is_nan() {
                                f32::NAN.to_bits()
                            } else if f.is_finite() {
                                (format!("{f}").parse::<f64>().unwrap() as f32).to_bits()
                            } else {
                                *b
                            }
                        })
                        .collect(),
                ),
                Val::F64(x) if e.vr == "FD" => Val::F64(x.iter().map(|b| if f64::from_bits(*b).is_nan() { f64::NAN.to_bits() } else { *b }).collect()),
                Val::Seq { items, explicit } => Val::Seq { items: items.iter().map(|i| Item { elems: prepare(&i.elems), explicit: i.explicit }).collect(), explicit: *explicit },
                v => v.clone(),
            };
            Elem { g: e.g, e: e.e, vr: e.vr.clone(), v }
        })
        .collect()
}

fn classes(ir: &[Elem], obs: &mut Obs) {
    crate::props::c01::classify(ir, obs);
    ds::walk(
        ir,
        &mut |e, _| match &e.v {
            Val::F32(x) if x.iter().any(|b| !f32::from_bits(*b).is_finite()) => obs.class("non-finite-float"),
            Val::F64(x) if x.iter().any(|b| !f64::from_bits(*b).is_finite()) => obs.class("non-finite-float"),
            Val::U64(x) if x.iter().any(|v| *v > 1 << 53) => obs.class("integer>2^53"),
            Val::I64(x) if x.iter().any(|v| v.unsigned_abs() > 1 << 53) => obs.class("integer>2^53"),
            Val::Empty => obs.class("empty-value"),
            Val::F64(x) if e.vr == "DS" && x.iter().any(|b| format!("{}", f64::from_bits(*b)).len() > 16) => obs.class("DS-double-longer-than-16-chars"),
            Val::Strs(x) if (e.vr == "DS" || e.vr == "IS") && x.len() >= 2 && x.iter().any(|s| s.is_empty()) => obs.class("IS/DS-with-empty-component"),
            _ => {}
        },
        0,
    );
}

/// drop empty items (they cannot be created through attribute operations)
fn without_empty_items(elems: &[Elem]) -> Vec<Elem> {
    elems
        .iter()
        .map(|e| match &e.v {
            Val::Seq { items, explicit } => Elem {
                g: e.g,
                e: e.e,
                vr: e.vr.clone(),
                v: Val::Seq {
                    items: items.iter().map(|i| Item { elems: without_empty_items(&i.elems), explicit: false }).filter(|i| !i.elems.is_empty()).collect(),
                    explicit: *explicit,
                },
            },
            _ => e.clone(),
        })
        .collect()
}

/// Build the same data set through the attribute operation API (constructive nested selectors), which is
/// how applications assemble objects: sequences start as `DataSetSequence::empty()` and grow item by item.
fn build_via_ops(obj: &mut InMemDicomObject, elems: &[Elem], path: &[((u16, u16), u32)]) -> Result<(), String> {
    use crate::opsir::{ActIr, OpIr};
    use dicom_core::ops::ApplyOp;
    for e in elems {
        match &e.v {
            Val::Seq { items, .. } => {
                if items.is_empty() {
                    obj.apply(OpIr { path: path.to_vec(), leaf: e.tag(), act: ActIr::Set(Val::Empty) }.to_op()).map_err(|x| x.to_string())?;
                    obj.apply(OpIr { path: path.to_vec(), leaf: e.tag(), act: ActIr::SetVr("SQ".into()) }.to_op()).map_err(|x| x.to_string())?;
                }
                for (i, it) in items.iter().enumerate() {
                    let mut p = path.to_vec();
                    p.push((e.tag(), i as u32));
                    build_via_ops(obj, &it.elems, &p)?;
                }
            }
            Val::Pix { .. } => {}
            v => {
                obj.apply(OpIr { path: path.to_vec(), leaf: e.tag(), act: ActIr::Set(v.clone()) }.to_op()).map_err(|x| x.to_string())?;
                obj.apply(OpIr { path: path.to_vec(), leaf: e.tag(), act: ActIr::SetVr(e.vr.clone()) }.to_op()).map_err(|x| x.to_string())?;
            }
        }
    }
    Ok(())
}

/// sequences reachable by constructive operations: the tag's dictionary VR is SQ or the tag is unknown
fn ops_buildable(elems: &[Elem]) -> bool {
    elems.iter().all(|e| match &e.v {
        Val::Seq { items, .. } => {
            let dv = crate::gen::dict().implicit_vr(e.tag());
            (dv == "SQ" || dv == "UN") && items.iter().all(|i| ops_buildable(&i.elems))
        }
        _ => true,
    })
}

fn check_roundtrip_via_ops(c: &Case, obs: &mut Obs) {
    let ir = without_empty_items(&prepare(&c.ds));
    if !ops_buildable(&ir) {
        obs.skip("a sequence tag that constructive operations cannot create");
        return;
    }
    let mut has_seq_items = false;
    ds::walk(&ir, &mut |e, _| if let Val::Seq { items, .. } = &e.v { has_seq_items |= !items.is_empty() }, 0);
    obs.nontrivial = has_seq_items;
    let mut obj = InMemDicomObject::new_empty();
    if let Err(e) = build_via_ops(&mut obj, &ir, &[]) {
        obs.fail("C23:cannot build the data set through attribute operations", e);
        return;
    }
    // sequences created under an unknown tag carry VR UN until told otherwise: fix the VR as an application would
    fn fix_seq_vr(obj: &mut InMemDicomObject, elems: &[Elem], path: &[((u16, u16), u32)]) {
        use crate::opsir::{ActIr, OpIr};
        use dicom_core::ops::ApplyOp;
        for e in elems {
            if let Val::Seq { items, .. } = &e.v {
                for (i, it) in items.iter().enumerate() {
                    let mut p = path.to_vec();
                    p.push((e.tag(), i as u32));
                    fix_seq_vr(obj, &it.elems, &p);
                }
                let _ = obj.apply(OpIr { path: path.to_vec(), leaf: e.tag(), act: ActIr::SetVr("SQ".into()) }.to_op());
            }
        }
    }
    fix_seq_vr(&mut obj, &ir, &[]);
    let txt = match dicom_json::to_string(&obj) {
        Ok(t) => t,
        Err(e) => {
            obs.fail("C23:serialisation fails", e.to_string());
            return;
        }
    };
    match dicom_json::from_str::<InMemDicomObject>(&txt) {
        Ok(back) => {
            if let Err(m) = obj_matches(&back, &ir, Ts::ExplicitLE, LenMode::AllUndefined, "") {
                let (k, d) = split_mm(&m);
                obs.fail(format!("C23:JSON round trip of an object built by attribute operations differs:{k}"), format!("{d}; json {:.300}", txt));
            }
        }
        Err(e) => obs.fail("C23:own output rejected by the deserialiser (object built by attribute operations)", format!("{e}; json {:.300}", txt)),
    }
}

fn check_roundtrip(c: &Case, obs: &mut Obs) {
    let ir = prepare(&c.ds);
    obs.nontrivial = crate::props::c01::nontrivial(&ir);
    classes(&ir, obs);
    let obj = to_obj(&ir, None);
    let txt = match dicom_json::to_string(&obj) {
        Ok(t) => t,
        Err(e) => {
            obs.fail("C23:serialisation fails", e.to_string());
            return;
        }
    };
    match dicom_json::from_str::<InMemDicomObject>(&txt) {
        Ok(back) => {
            if let Err(m) = obj_matches(&back, &ir, Ts::ExplicitLE, LenMode::AllUndefined, "") {
                let (k, d) = split_mm(&m);
                let vr = d.split(": ").nth(1).map(|s| s.chars().take(2).collect::<String>()).unwrap_or_default();
                obs.fail(format!("C23:JSON round trip differs:{k}:{vr}"), format!("{d}; json {:.300}", txt));
            }
        }
        Err(e) => obs.fail(format!("C23:own output rejected by the deserialiser:{}", crate::engine::norm_msg(&e.to_string())), format!("{e}; json {:.400}", txt)),
    }
}

fn check_annex_f(c: &Case, obs: &mut Obs) {
    let ir = prepare(&c.ds);
    obs.nontrivial = crate::props::c01::nontrivial(&ir);
    classes(&ir, obs);
    let obj = to_obj(&ir, None);
    let txt = match dicom_json::to_string(&obj) {
        Ok(t) => t,
        Err(e) => {
            obs.fail("C24:serialisation fails", e.to_string());
            return;
        }
    };
    let v: serde_json::Value = match serde_json::from_str(&txt) {
        Ok(v) => v,
        Err(e) => {
            obs.fail("C24:output is not JSON", e.to_string());
            return;
        }
    };
    if let Err((clause, detail)) = refimpl::annex_f::validate(&v, &ir, "") {
        obs.fail(format!("C24:{clause}"), detail);
    }
    // the other entry points give the same document
    if let Ok(val) = dicom_json::to_value(&obj) {
        if let Err((clause, detail)) = refimpl::annex_f::validate(&val, &ir, "") {
            obs.fail(format!("C24:to_value:{clause}"), detail);
        }
    }
}

// ------------------------------------------------------------------------------------------
// arbitrary / conflicting / mutated JSON: never a panic

#[derive(Clone, Debug, Serialize, Deserialize)]
pub struct JsonCase {
    pub text: String,
}

fn json_scalar() -> BoxedStrategy<String> {
    prop_oneof![
        Just("null".to_string()),
        Just("true".to_string()),
        any::<i64>().prop_map(|n| n.to_string()),
        any::<f64>().prop_map(|f| if f.is_finite() { format!("{f}") } else { "1e999".into() }),
        "[ -~]{0,8}".prop_map(|s| serde_json::to_string(&s).unwrap()),
        // longer texts with multi-byte characters at every alignment (length limits of the VRs are 16, 64, ... bytes)
        "[0-9a-zé€𝄞.^=\\\\ -]{9,40}".prop_map(|s| serde_json::to_string(&s).unwrap()),
        Just("\"NaN\"".to_string()),
        Just("\"AAEC\"".to_string()),
        Just("\"(0010,0010)\"".to_string()),
        Just("\"00100010\"".to_string()),
        Just("{\"Alphabetic\":\"A^B\"}".to_string()),
        Just("{\"Alphabetic\":1}".to_string()),
        Just("{}".to_string()),
        Just("[]".to_string()),
        Just("[[1]]".to_string()),
    ]
    .boxed()
}

fn json_element(depth: u32) -> BoxedStrategy<String> {
    let vr = prop_oneof![
        6 => proptest::sample::select(ds::ALL_VRS.to_vec()).prop_map(|s| format!("\"{s}\"")),
        1 => Just("\"ZZ\"".to_string()),
        1 => Just("5".to_string()),
        1 => Just("null".to_string()),
    ];
    let value_arr = proptest::collection::vec(json_scalar(), 0..4).prop_map(|v| format!("[{}]", v.join(",")));
    let nested: BoxedStrategy<String> = if depth == 0 {
        Just("[{}]".to_string()).boxed()
    } else {
        proptest::collection::vec(json_dataset(depth - 1), 0..3).prop_map(|v| format!("[{}]", v.join(","))).boxed()
    };
    let member = prop_oneof![
        4 => vr.prop_map(|v| format!("\"vr\":{v}")),
        4 => prop_oneof![3 => value_arr, 1 => nested, 1 => json_scalar()].prop_map(|v| format!("\"Value\":{v}")),
        2 => prop_oneof![Just("\"AAECAw==\"".to_string()), Just("\"!!!\"".to_string()), Just("5".to_string()), Just("\"\"".to_string())].prop_map(|v| format!("\"InlineBinary\":{v}")),
        1 => prop_oneof![Just("\"http://x/y\"".to_string()), Just("7".to_string())].prop_map(|v| format!("\"BulkDataURI\":{v}")),
        1 => Just("\"Other\":1".to_string()),
    ];
    proptest::collection::vec(member, 0..5).prop_map(|m| format!("{{{}}}", m.join(","))).boxed()
}

pub fn json_dataset(depth: u32) -> BoxedStrategy<String> {
    let key = prop_oneof![
        6 => (any::<u16>(), any::<u16>()).prop_map(|(g, e)| format!("\"{g:04X}{e:04X}\"")),
        1 => Just("\"0010001\"".to_string()),
        1 => Just("\"PatientName\"".to_string()),
        1 => Just("\"0010é010\"".to_string()),
        1 => Just("\"00100010\"".to_string()),
    ];
    proptest::collection::vec((key, json_element(depth)), 0..5)
        .prop_map(|kv| format!("{{{}}}", kv.into_iter().map(|(k, v)| format!("{k}:{v}")).collect::<Vec<_>>().join(",")))
        .boxed()
}

fn check_any_json(c: &JsonCase, obs: &mut Obs) {
    // the oracle is "returns Ok or Err": a panic is caught by the engine and reported
    let r = dicom_json::from_str::<InMemDicomObject>(&c.text);
    obs.nontrivial = c.text.len() > 2;
    obs.class(if r.is_ok() { "accepted" } else { "rejected" });
    if c.text.contains("\"Value\"") && c.text.contains("\"InlineBinary\"") {
        obs.class("Value+InlineBinary");
    }
    let _ = dicom_json::from_str::<dicom_core::Tag>(&c.text);
    if let Ok(o) = r {
        // whatever was accepted can be serialised again without panicking
        let _ = dicom_json::to_string(&o);
    }
}

/// JSON-specific variation of G-DS: decimal strings held as arbitrary finite doubles (their shortest decimal text may
/// be longer than 16 characters) and multi-valued IS/DS text with an empty component (PS3.5 6.4: a value of a
/// multi-valued element may be empty; Annex F.2.5 writes it as null).
fn vary_numbers(elems: &mut [Elem], pool: &[f64], blank: &[u8], k: &mut usize) {
    for e in elems.iter_mut() {
        *k += 1;
        match &mut e.v {
            Val::F64(x) if e.vr == "DS" && blank[*k % blank.len()] & 1 == 1 => {
                for (i, b) in x.iter_mut().enumerate() {
                    *b = pool[(*k + i) % pool.len()].to_bits();
                }
            }
            Val::Strs(x) if (e.vr == "DS" || e.vr == "IS") && x.len() >= 2 && blank[*k % blank.len()] & 2 == 2 => {
                let i = (blank[*k % blank.len()] as usize >> 2) % x.len();
                x[i] = String::new();
                if x.iter().all(|s| s.is_empty()) {
                    // an all-empty text is indistinguishable from fewer values after padding removal: keep one number
                    x[0] = "7".into();
                }
                if x.last().map(|s| s.is_empty()).unwrap_or(false) {
                    // trailing empty component: indistinguishable from padding once trimmed by the writers' callers; keep it inner
                    x.push("1".into());
                }
            }
            Val::Seq { items, .. } => {
                for it in items.iter_mut() {
                    vary_numbers(&mut it.elems, pool, blank, k);
                }
            }
            _ => {}
        }
    }
}

fn ds_strategy() -> BoxedStrategy<Case> {
    let dbl = prop_oneof![
        4 => any::<f64>().prop_map(|f| if f.is_finite() { f } else { 0.1 + 0.2 }),
        2 => (any::<i32>(), 1u32..1000).prop_map(|(a, b)| a as f64 / b as f64),
        1 => proptest::sample::select(vec![0.30000000000000004f64, 1.0 / 3.0, -2.0 / 3.0, 3.3333333333333334e-8, 1e22, 1e-7, f64::MAX, f64::MIN_POSITIVE, 5e-324, 123456789.12345679]),
    ];
    (
        gen::dataset(DsCfg { max_depth: 3, max_top: 8, pixel_seq: false }),
        proptest::collection::vec(dbl, 4),
        proptest::collection::vec(any::<u8>(), 5),
    )
        .prop_map(|(mut ds, pool, blank)| {
            let mut k = 0usize;
            vary_numbers(&mut ds, &pool, &blank, &mut k);
            Case { ds }
        })
        .boxed()
}

pub fn run_c23(ctx: &Ctx) {
    ctx.run_prop(
        "roundtrip",
        "G-DS data sets without encapsulated pixel data (every VR, nested sequences, empty and multi-valued values, typed dates and binary numbers in IS/DS, non-finite floats, 64-bit integers beyond 2^53): from_str(to_string(ds)) ≈ ds with the stated normalisations (IS/DS by text/number, binary VRs as bytes, FL through its decimal text); non-trivial = C01 rule",
        ds_strategy,
        ctx.cases(30_000, 600_000),
        check_roundtrip,
    );
    ctx.run_prop(
        "roundtrip_of_objects_built_by_operations",
        "the same data sets assembled through the attribute operation API (nested constructive selectors: sequences start empty and grow item by item, VRs set afterwards), then serialised and deserialised; oracle as above; data sets with a sequence tag that operations cannot create are skipped and counted; non-trivial = a sequence with items",
        || gen::dataset(DsCfg { max_depth: 3, max_top: 6, pixel_seq: false }).prop_map(|ds| Case { ds }).boxed(),
        ctx.cases(15_000, 300_000),
        check_roundtrip_via_ops,
    );
    ctx.run_prop(
        "any_json_never_panics",
        "JSON documents from a grammar of data-set-shaped objects with random / conflicting members (vr, Value, InlineBinary, BulkDataURI, unknown keys, wrong types, duplicated keys, invalid tag keys, nested sequences) and mutated valid outputs; oracle: Ok or Err, never a panic (also deserialising the text as a tag, and re-serialising whatever was accepted); non-trivial = longer than {}",
        || {
            let mutated = (ds_strategy(), any::<proptest::sample::Index>(), any::<proptest::sample::Index>(), "[ -~]{0,6}").prop_map(|(c, i, j, ins)| {
                let obj = to_obj(&prepare(&c.ds), None);
                let mut t = dicom_json::to_string(&obj).unwrap_or_default();
                if !t.is_empty() {
                    let a = i.index(t.len());
                    let b = (a + j.index(8)).min(t.len());
                    if t.is_char_boundary(a) && t.is_char_boundary(b) {
                        t.replace_range(a..b, &ins);
                    }
                }
                t
            });
            prop_oneof![5 => json_dataset(2), 2 => mutated, 1 => "\\PC{0,40}".prop_map(|s| s), 1 => json_scalar()].prop_map(|text| JsonCase { text }).boxed()
        },
        ctx.cases(60_000, 1_500_000),
        check_any_json,
    );
}

pub fn run_c24(ctx: &Ctx) {
    ctx.assume("the Annex F validator is the independent Rust implementation in harness/refimpl/annex_f.rs (stated deviation from the property's 'written in Python' wording)");
    ctx.run_prop(
        "annex_f",
        "the C23 data sets; each output (to_string and to_value) is checked by an independent Annex F validator: object keys are eight upper-case hex digits in ascending order, a vr member equal to the element's VR, AT as eight-hex-digit strings, PN as objects with component group members, FL/FD/SL/SS/UL/US as JSON numbers (non-finite floats as NaN/inf/-inf strings), binary VRs as base64 InlineBinary of the reference little-endian bytes, sequences as arrays of valid data set objects, empty values without Value/InlineBinary, one JSON value per DICOM value",
        ds_strategy,
        ctx.cases(30_000, 600_000),
        check_annex_f,
    );
}
