//! C27 — PDU reception is independent of how the byte stream is segmented.
use crate::engine::{Ctx, Obs};
use crate::pduconv::{from_ul, pdu};
use crate::props::c26::noop_waker;
use bytes::BytesMut;
use dicom_ul::association::{read_pdu_from_wire, read_pdu_from_wire_async};
use dicom_ul::pdu::MAXIMUM_PDU_SIZE;
use proptest::prelude::*;
use refimpl::pdu::{self as rp, PduIr};
use serde::{Deserialize, Serialize};
use std::future::Future;
use std::io::Read;
use std::pin::Pin;
use std::task::{Context, Poll};
use tokio::io::{AsyncRead, ReadBuf};

#[derive(Clone, Debug, Serialize, Deserialize)]
pub struct Case {
    pub pdus: Vec<PduIr>,
    /// chunk sizes delivered by the transport, in order, then cycled; 0 = Pending (async only)
    pub deliver: Vec<u32>,
    /// explicit cut positions (absolute offsets) used instead of `deliver` when non-empty
    pub cuts: Vec<u32>,
    /// receiver parameters: strict length checking, and which maximum PDU length is passed (it also sizes the buffer)
    #[serde(default)]
    pub strict: bool,
    #[serde(default)]
    pub max_sel: u8,
}

struct Src {
    data: Vec<u8>,
    pos: usize,
    sizes: Vec<u32>,
    k: usize,
    taken: usize,
}
impl Src {
    fn next(&mut self) -> usize {
        if self.sizes.is_empty() {
            return usize::MAX;
        }
        let n = self.sizes[self.k % self.sizes.len()] as usize;
        self.k += 1;
        n
    }
}
impl Read for Src {
    fn read(&mut self, buf: &mut [u8]) -> std::io::Result<usize> {
        let mut n = self.next();
        while n == 0 {
            n = self.next();
        }
        let n = n.min(buf.len()).min(self.data.len() - self.pos);
        buf[..n].copy_from_slice(&self.data[self.pos..self.pos + n]);
        self.pos += n;
        self.taken += n;
        Ok(n)
    }
}
impl AsyncRead for Src {
    fn poll_read(mut self: Pin<&mut Self>, cx: &mut Context<'_>, buf: &mut ReadBuf<'_>) -> Poll<std::io::Result<()>> {
        let n = self.next();
        if n == 0 {
            cx.waker().wake_by_ref();
            return Poll::Pending;
        }
        let n = n.min(buf.remaining()).min(self.data.len() - self.pos);
        let p = self.pos;
        buf.put_slice(&self.data[p..p + n]);
        self.pos += n;
        self.taken += n;
        Poll::Ready(Ok(()))
    }
}

fn sizes_from(c: &Case, total: usize) -> Vec<u32> {
    if c.cuts.is_empty() {
        return c.deliver.clone();
    }
    // absolute cut positions -> consecutive chunk sizes, then the rest in one piece
    let mut cs: Vec<usize> = c.cuts.iter().map(|x| (*x as usize).min(total)).collect();
    cs.sort();
    cs.dedup();
    let mut out = vec![];
    let mut prev = 0;
    for x in cs {
        if x > prev {
            out.push((x - prev) as u32);
            prev = x;
        }
    }
    out.push((total - prev).max(1) as u32);
    out.push(u32::MAX); // afterwards: everything at once
    out
}

fn check(c: &Case, obs: &mut Obs) {
    // only values the writer can express
    let mut stream = vec![];
    let mut want = vec![];
    let mut longest = 0usize;
    for p in &c.pdus {
        if let Ok(b) = rp::encode(p) {
            longest = longest.max(b.len() - 6);
            stream.extend(b);
            want.push(p.clone());
        }
    }
    let max = [MAXIMUM_PDU_SIZE, 16_384, 1_018, 65_536][c.max_sel as usize % 4];
    // strict mode refuses PDUs longer than the maximum (C25's subject): it is used only when every PDU fits
    let strict = c.strict && longest <= max as usize;
    obs.class(format!("receiver:{}:max-{max}", if strict { "strict" } else { "lenient" }));
    if want.is_empty() {
        obs.skip("no encodable PDU in the case");
        return;
    }
    let total = stream.len();
    let sizes = sizes_from(c, total);
    obs.nontrivial = want.len() >= 2 || sizes.iter().any(|s| *s > 0 && (*s as usize) < total);
    obs.class(format!("pdus:{}", want.len()));
    if sizes == vec![1] {
        obs.class("one-byte-reads");
    }
    if sizes.is_empty() {
        obs.class("all-at-once");
    }
    if sizes.contains(&0) {
        obs.class("with-pending");
    }
    for is_async in [false, true] {
        obs.extra_evals += 1;
        let which = if is_async { "async" } else { "sync" };
        let mut src = Src { data: stream.clone(), pos: 0, sizes: sizes.clone(), k: 0, taken: 0 };
        let mut buf = BytesMut::new();
        let mut got = vec![];
        let mut end_err = None;
        let waker = noop_waker();
        let mut cx = Context::from_waker(&waker);
        for _ in 0..want.len() + 1 {
            let r = if !is_async {
                read_pdu_from_wire(&mut src, &mut buf, max, strict)
            } else {
                let fut = read_pdu_from_wire_async(&mut src, &mut buf, max, strict);
                tokio::pin!(fut);
                let mut out = None;
                for _ in 0..10_000_000u32 {
                    if let Poll::Ready(v) = fut.as_mut().poll(&mut cx) {
                        out = Some(v);
                        break;
                    }
                }
                match out {
                    Some(v) => v,
                    None => {
                        obs.fail(format!("C27:{which} receiver does not make progress"), format!("sizes {sizes:?}"));
                        return;
                    }
                }
            };
            match r {
                Ok(p) => got.push(from_ul(&p)),
                Err(e) => {
                    end_err = Some(e);
                    break;
                }
            }
        }
        let n = got.len().min(want.len());
        if got[..n] != want[..n] {
            let i = (0..n).find(|i| got[*i] != want[*i]).unwrap();
            obs.fail(
                format!("C27:{which} receiver returns a different PDU"),
                format!("PDU #{i} of {}: sizes {:?}", want.len(), &sizes[..sizes.len().min(12)]),
            );
            continue;
        }
        if got.len() < want.len() {
            obs.fail(
                format!("C27:{which} receiver loses PDUs"),
                format!("{} of {} PDUs, then {:?}; sizes {:?}", got.len(), want.len(), end_err.as_ref().map(|e| e.to_string()), &sizes[..sizes.len().min(12)]),
            );
            continue;
        }
        if got.len() > want.len() {
            obs.fail(format!("C27:{which} receiver duplicates or invents a PDU"), format!("{} for {}", got.len(), want.len()));
            continue;
        }
        match end_err {
            Some(e) => {
                let txt = format!("{e:?}");
                if !txt.contains("ConnectionClosed") {
                    obs.fail(format!("C27:{which} receiver ends with the wrong error"), format!("{e}: {txt:.200}"));
                }
            }
            None => obs.fail(format!("C27:{which} receiver returns a PDU after the end of the stream"), String::new()),
        }
        if src.taken != total {
            obs.fail(format!("C27:{which} receiver did not take the whole stream"), format!("{} of {total}", src.taken));
        }
    }
}

pub fn run(ctx: &Ctx) {
    // exhaustive-small: two short PDUs (release RQ + abort = 20 bytes): all compositions of cut points among
    // boundary-relevant positions (inside header, at header end, inside body, at PDU end, inside the next header)
    let base = vec![PduIr::ReleaseRq, PduIr::Abort { source: 2, reason: 1 }, PduIr::PData { pdvs: vec![refimpl::pdu::Pdv { pc_id: 1, command: true, last: true, data: vec![1, 2, 3] }] }];
    let relevant: Vec<u32> = vec![1, 2, 5, 6, 7, 9, 10, 11, 12, 15, 16, 19, 20, 21, 25, 26, 27, 30, 34];
    let mut small = vec![];
    let m = relevant.len();
    for mask in 0u32..(1 << m) {
        // all subsets of up to 4 cut positions
        if mask.count_ones() > 4 {
            continue;
        }
        let cuts: Vec<u32> = (0..m).filter(|i| mask >> i & 1 == 1).map(|i| relevant[i]).collect();
        for strict in [false, true] {
            small.push(Case { pdus: base.clone(), deliver: vec![], cuts: cuts.clone(), strict, max_sel: (mask.count_ones() + mask) as u8 % 3 });
        }
    }
    ctx.run_enum(
        "exhaustive_small_segmentations",
        "exhaustive: a fixed stream of three short PDUs (A-RELEASE-RQ, A-ABORT, P-DATA of 3 bytes; 35 bytes) cut at every subset of <= 4 positions out of 19 boundary-relevant offsets (inside a header, at the header end, inside a body, at a PDU end, inside the next header): sync and async receivers, each strict and lenient, with a maximum PDU length of MAXIMUM_PDU_SIZE / 16384 / 1018 (rotating) and one shared buffer return exactly the sequence, then ConnectionClosed, having taken exactly the stream",
        small,
        true,
        check,
    );
    ctx.run_prop(
        "random_segmentations",
        "1-8 G-PDU values (all kinds, P-DATA up to 70 000 bytes) concatenated from the reference encoder, received strictly (when every PDU fits the maximum) or leniently with a maximum PDU length of MAXIMUM_PDU_SIZE / 65536 / 16384 / 1018, delivered by a scripted Read / AsyncRead in chunks cycling through 1-8 sizes (1-byte reads, all at once, interleaved Pending for async) or cut at explicit random offsets; oracle as above; non-trivial = >= 2 PDUs or a PDU split across reads",
        || {
            (
                proptest::collection::vec(pdu(false), 1..9),
                prop_oneof![
                    1 => Just(vec![1u32]),
                    1 => Just(vec![]),
                    4 => proptest::collection::vec(prop_oneof![3 => 1u32..16, 2 => 16u32..5000, 1 => Just(0u32), 1 => 5000u32..100_000], 1..9),
                ],
                prop_oneof![2 => Just(vec![]), 1 => proptest::collection::vec(0u32..4000, 1..8)],
                any::<bool>(),
                0u8..4,
            )
                .prop_map(|(pdus, mut deliver, cuts, strict, max_sel)| {
                    if !deliver.is_empty() && deliver.iter().all(|d| *d == 0) {
                        deliver.push(3);
                    }
                    Case { pdus, deliver, cuts, strict, max_sel }
                })
                .boxed()
        },
        ctx.cases(6_000, 150_000),
        check,
    );
}
