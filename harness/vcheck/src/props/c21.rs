//! C21 — native pixel data frames are extracted exactly.
use crate::engine::{Ctx, Obs};
use crate::img::{self, Img, ImgCfg};
use dicom_encoding::adapters::PixelDataObject;
use dicom_pixeldata::PixelDecoder;
use proptest::prelude::*;
use serde::{Deserialize, Serialize};

#[derive(Clone, Debug, Serialize, Deserialize)]
pub struct Case {
    pub img: Img,
    /// 0 = Explicit VR LE, 1 = Implicit VR LE, 2 = Explicit VR BE
    pub ts: u8,
    /// decode the object as read back from a written file rather than as built in memory
    pub via_file: bool,
}

const TS: [&str; 3] = ["1.2.840.10008.1.2.1", "1.2.840.10008.1.2", "1.2.840.10008.1.2.2"];

/// expected decoded samples of the whole object, from the IR alone
pub fn expected_whole(im: &Img) -> Vec<u8> {
    if im.bits_alloc == 1 {
        let n = im.frame_pixels() * im.frames as usize;
        (0..n).map(|i| ((im.data[i / 8] >> (i % 8)) & 1) * 255).collect()
    } else {
        im.data.clone()
    }
}

fn first_diff(a: &[u8], b: &[u8]) -> String {
    if a.len() != b.len() {
        return format!("length {} vs expected {}", a.len(), b.len());
    }
    match a.iter().zip(b).position(|(x, y)| x != y) {
        Some(i) => format!("first difference at sample byte {i}: got {:#04x}, expected {:#04x}", a[i], b[i]),
        None => "equal".into(),
    }
}

fn check(c: &Case, obs: &mut Obs) {
    let im = &c.img;
    let px = im.frame_pixels();
    let unaligned = im.bits_alloc == 1 && px % 8 != 0;
    obs.nontrivial = im.frames > 1 || unaligned;
    obs.class(im.label());
    if unaligned {
        obs.class(if im.frames > 1 { "1bit-unaligned-multiframe" } else { "1bit-unaligned-single" });
    }
    if im.frames > 1 {
        obs.class("multiframe");
    }
    if !im.frames_attr {
        obs.class("no-number-of-frames");
    }
    let tag = format!("{}:{}", if im.bits_alloc == 1 { if unaligned { "1bit-unaligned" } else { "1bit-aligned" } } else { "8/16bit" }, if im.frames > 1 { "multiframe" } else { "single" });
    let built = img::build_native(im, TS[c.ts as usize % 3]);
    let obj = if c.via_file {
        match img::through_file(&built) {
            Ok(o) => o,
            Err(e) => {
                obs.fail("C21:native image does not survive write and read", e);
                return;
            }
        }
    } else {
        built
    };
    let want = expected_whole(im);
    let fsz = px * im.samples as usize * im.bytes_per_sample();
    // whole object
    let whole = match obj.decode_pixel_data() {
        Ok(d) => d,
        Err(e) => {
            obs.fail(format!("C21:decode_pixel_data fails on a native image:{tag}"), img::errs(&e));
            return;
        }
    };
    if whole.number_of_frames() != im.frames {
        obs.fail("C21:decoded number of frames differs", format!("{} vs {}", whole.number_of_frames(), im.frames));
    }
    // an odd total may carry one trailing pad byte once the object went through a file
    let got = whole.data();
    let got_cmp = if got.len() == want.len() + 1 && want.len() % 2 == 1 && im.bits_alloc != 1 { &got[..want.len()] } else { got };
    if im.bits_alloc == 1 {
        if got.len() != want.len() {
            obs.fail(format!("C21:whole-object decoding does not yield frames x frame-size samples:{tag}"), format!("{} samples, expected {} = {} frames x {}", got.len(), want.len(), im.frames, px));
        } else if got != &want[..] {
            obs.fail(format!("C21:whole-object samples differ from the stored pixel data:{tag}"), first_diff(got, &want));
        }
    } else if got_cmp != &want[..] {
        obs.fail(format!("C21:whole-object samples differ from the stored pixel data:{tag}"), first_diff(got_cmp, &want));
    }
    for k in 0..im.frames {
        let exp = &want[k as usize * fsz..(k as usize + 1) * fsz];
        // slicing the whole-object result
        match whole.frame_data(k) {
            Ok(s) => {
                if s != exp {
                    obs.fail(format!("C21:frame_data slice differs from the stored frame:{tag}"), format!("frame {k}: {}", first_diff(s, exp)));
                }
            }
            Err(e) => obs.fail(format!("C21:frame_data fails for an existing frame:{tag}"), format!("frame {k}: {}", img::errs(&e))),
        }
        // decoding one frame
        match obj.decode_pixel_data_frame(k) {
            Ok(d) => {
                if d.data() != exp {
                    obs.fail(format!("C21:single-frame decoding differs from the stored frame:{tag}"), format!("frame {k} of {}: {}", im.frames, first_diff(d.data(), exp)));
                }
                if d.number_of_frames() != 1 {
                    obs.fail("C21:single-frame decoding reports several frames", format!("{}", d.number_of_frames()));
                }
                match d.frame_data(0) {
                    Ok(s) if s == exp => {}
                    Ok(s) => obs.fail(format!("C21:frame_data(0) of a single decoded frame differs:{tag}"), first_diff(s, exp)),
                    Err(e) => obs.fail(format!("C21:frame_data(0) of a single decoded frame fails:{tag}"), img::errs(&e)),
                }
            }
            Err(e) => obs.fail(format!("C21:decode_pixel_data_frame fails for an existing frame:{tag}"), format!("frame {k} of {}: {}", im.frames, img::errs(&e))),
        }
        // encoded frame bytes of a native object
        if im.bits_alloc != 1 {
            match obj.frame_pixel_data(k) {
                Some(b) if &b[..] == exp => {}
                Some(b) => obs.fail("C21:frame_pixel_data of a native object differs from the stored frame", format!("frame {k}: {}", first_diff(&b, exp))),
                None => obs.fail("C21:frame_pixel_data of a native object yields nothing for an existing frame", format!("frame {k} of {}", im.frames)),
            }
        } else {
            // 1-bit: documented as a byte slice that "may include leading or trailing bits belonging to other
            // frames" - so it must be exactly the bytes that hold the frame's bits (fsz = samples = bits here)
            let (b0, b1) = (k as usize * fsz / 8, ((k as usize + 1) * fsz).div_ceil(8));
            match obj.frame_pixel_data(k) {
                Some(b) if b1 <= im.data.len() && b[..] == im.data[b0..b1] => {}
                Some(b) => obs.fail("C21:frame_pixel_data of a native 1-bit object is not the bytes holding the frame's bits", format!("frame {k} of {}: {} bytes, the frame's bits occupy bytes {b0}..{b1} of {}", im.frames, b.len(), im.data.len())),
                None => obs.fail("C21:frame_pixel_data of a native object yields nothing for an existing frame", format!("frame {k} of {} (1-bit)", im.frames)),
            }
        }
    }
}

pub fn run(ctx: &Ctx) {
    ctx.run_prop(
        "native_frames",
        "G-IMG native images: bits allocated 1/8/16, 1 or 3 samples, rows/cols 1-17, 1-7 frames, random and run-shaped pixel bytes, three native transfer syntaxes, decoded as built and as re-read from a written file; oracle from the IR: whole-object samples == stored data (1-bit: bit i of the continuously packed stream -> 0/255), frame_data(k), decode_pixel_data_frame(k) and native frame_pixel_data(k) == frame k of it (1-bit: frame_pixel_data(k) == exactly the bytes that hold the frame's bits); non-trivial = several frames or a 1-bit pixel count not divisible by 8",
        || (img::img(ImgCfg { one_bit: true, max_frames: 7, large: false }), 0u8..3, any::<bool>()).prop_map(|(img, ts, via_file)| Case { img, ts, via_file }).boxed(),
        ctx.cases(8_000, 150_000),
        check,
    );
}
