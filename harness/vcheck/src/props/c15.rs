//! C15 — the standard data dictionary answers consistently for every tag and keyword.
use crate::engine::{Ctx, Obs, Tier};
use crate::gen::dict;
use dicom_core::dictionary::{DataDictionary, DataDictionaryEntry, TagRange, UidDictionary, VirtualVr};
use dicom_core::Tag;
use dicom_dictionary_std::{StandardDataDictionary, StandardSopClassDictionary};
use refimpl::dict::{Kind, Lookup};
use serde::{Deserialize, Serialize};
use std::collections::BTreeSet;

#[derive(Clone, Debug, Serialize, Deserialize)]
pub struct GroupCase {
    group: u16,
    /// element numbers to probe (empty = all 65 536)
    elements: Vec<u16>,
}

fn vvr_name(v: VirtualVr) -> String {
    match v {
        VirtualVr::Exact(vr) => vr.to_string().to_string(),
        VirtualVr::Xs => "Xs".into(),
        VirtualVr::Ox => "Ox".into(),
        VirtualVr::Px => "Px".into(),
        VirtualVr::Lt => "Lt".into(),
        _ => "?".into(),
    }
}

fn probe(g: u16, e: u16, obs: &mut Obs) {
    let d = dict();
    let want = d.lookup((g, e));
    let got = StandardDataDictionary.by_tag(Tag(g, e));
    match (&want, got) {
        (Lookup::None, None) => {}
        (Lookup::None, Some(en)) => obs.fail("C15:lookup returns an entry where the table prescribes none", format!("({g:04X},{e:04X}) -> {}", en.alias())),
        (Lookup::PrivateCreator, Some(en)) => {
            if en.alias() != "PrivateCreator" || vvr_name(en.vr()) != "LO" || !matches!(en.tag_range(), TagRange::PrivateCreator) {
                obs.fail("C15:private creator lookup differs", format!("({g:04X},{e:04X}) -> {} {:?}", en.alias(), en.vr()));
            }
        }
        (Lookup::GroupLength, Some(en)) => {
            if en.alias() != "GenericGroupLength" || vvr_name(en.vr()) != "UL" {
                obs.fail("C15:generic group length lookup differs", format!("({g:04X},{e:04X}) -> {} {:?}", en.alias(), en.vr()));
            }
        }
        (Lookup::Entry(i), Some(en)) => {
            let w = &d.entries[*i];
            let kind_ok = match (en.tag_range(), &w.kind) {
                (TagRange::Single(t), Kind::Single) => (t.0, t.1) == w.tag,
                (TagRange::Group100(t), Kind::Group100) => (t.0, t.1) == w.tag,
                (TagRange::Element100(t), Kind::Element100) => (t.0, t.1) == w.tag,
                _ => false,
            };
            if en.alias() != w.alias || vvr_name(en.vr()) != w.vr || !kind_ok {
                obs.fail(
                    format!("C15:lookup returns a different entry:{}", match w.kind { Kind::Single => "exact", Kind::Group100 => "ggxx", Kind::Element100 => "eexx" }),
                    format!("({g:04X},{e:04X}) -> {} {:?} {:?}, table: {} {} {:?}", en.alias(), en.vr(), en.tag_range(), w.alias, w.vr, w.tag),
                );
            }
        }
        (w, None) => obs.fail(
            format!("C15:lookup finds nothing where the table has an answer:{}", match w { Lookup::Entry(_) => "entry", Lookup::PrivateCreator => "private-creator", _ => "group-length" }),
            format!("({g:04X},{e:04X}), table: {w:?}"),
        ),
    }
}

fn check_group(c: &GroupCase, obs: &mut Obs) {
    obs.nontrivial = true;
    if c.elements.is_empty() {
        for e in 0..=u16::MAX {
            probe(c.group, e, obs);
            if obs.viols.len() > 3 {
                break;
            }
        }
        obs.extra_evals += 65535;
    } else {
        for e in &c.elements {
            probe(c.group, *e, obs);
        }
        obs.extra_evals += c.elements.len() as u64 - 1;
    }
}

#[derive(Clone, Debug, Serialize, Deserialize)]
pub struct KwCase {
    ix: usize,
}

fn check_kw(c: &KwCase, obs: &mut Obs) {
    obs.nontrivial = true;
    let w = &dict().entries[c.ix];
    match StandardDataDictionary.by_name(&w.alias) {
        Some(en) => {
            if en.alias() != w.alias {
                obs.fail("C15:by_name returns an entry with another keyword", format!("{} -> {}", w.alias, en.alias()));
            }
            let t = en.tag();
            if (t.0, t.1) != w.tag {
                obs.fail("C15:by_name entry has a different tag than the table / constant", format!("{} -> {t}, table {:04X?} (constant {})", w.alias, w.tag, w.const_name));
            }
            // and the tag leads back to an entry with that keyword (unless a more specific entry shadows it)
            if let Some(back) = StandardDataDictionary.by_tag(t) {
                if back.alias() != w.alias {
                    // allowed only when the table itself has two entries answering for this tag
                    if let Lookup::Entry(i) = dict().lookup(w.tag) {
                        if dict().entries[i].alias != back.alias() {
                            obs.fail("C15:tag of a keyword resolves to another keyword", format!("{} -> {t} -> {}", w.alias, back.alias()));
                        }
                    }
                }
            } else {
                obs.fail("C15:tag of a keyword is not found by tag", format!("{} -> {t}", w.alias));
            }
        }
        None => obs.fail("C15:keyword not found by name", w.alias.clone()),
    }
}

#[derive(Clone, Debug, Serialize, Deserialize)]
pub struct UidCase {
    uid: String,
    alias: String,
    name: String,
    table: String,
    retired: bool,
}

fn check_uid(c: &UidCase, obs: &mut Obs) {
    obs.nontrivial = true;
    let is_sop = c.table == "SOP_CLASSES";
    let by_uid = StandardSopClassDictionary.by_uid(&c.uid);
    let by_kw = StandardSopClassDictionary.by_keyword(&c.alias);
    if is_sop {
        match (by_uid, by_kw) {
            (Some(a), Some(b)) => {
                if a.uid != c.uid || a.alias != c.alias || a.name != c.name || a.retired != c.retired {
                    obs.fail("C15:SOP class by UID differs from the table", format!("{} -> {a:?}", c.uid));
                }
                if b.uid != c.uid || b.alias != c.alias {
                    obs.fail("C15:SOP class by keyword differs from the table", format!("{} -> {b:?}", c.alias));
                }
                if !std::ptr::eq(a, b) && (a.uid != b.uid || a.alias != b.alias || a.name != b.name) {
                    obs.fail("C15:SOP class UID and keyword map to different entries", format!("{a:?} vs {b:?}"));
                }
            }
            _ => obs.fail("C15:SOP class missing from the dictionary", format!("{} / {}", c.uid, c.alias)),
        }
    } else {
        // UIDs of other kinds must not be in the SOP class dictionary (unless the same UID is also a SOP class)
        if let Some(a) = by_uid {
            obs.fail(format!("C15:non-SOP-class UID present in the SOP class dictionary:{}", c.table), format!("{} -> {a:?}", c.uid));
        }
    }
}

pub fn run(ctx: &Ctx) {
    let d = dict();
    if !d.problems.is_empty() {
        ctx.infra(format!("reference dictionary parse problems: {:?}", &d.problems[..d.problems.len().min(5)]));
    }
    // overlap check of the reference precedence: an exact tag inside a repeating range is fine (exact wins);
    // two different range entries answering for one tag would make the precedence ambiguous
    ctx.assume("the reference lookup is built from the source text of dictionary-std/src/tags.rs (constants, doc comments and ENTRIES rows cross-checked)");
    let groups: Vec<GroupCase> = if ctx.tier == Tier::Thorough {
        (0..=u16::MAX).map(|group| GroupCase { group, elements: vec![] }).collect()
    } else {
        // every element number that occurs in the table, +-1, plus boundary numbers
        let mut els: BTreeSet<u16> = BTreeSet::new();
        for e in &d.entries {
            for k in [e.tag.1.wrapping_sub(1), e.tag.1, e.tag.1.wrapping_add(1), e.tag.1 | 0x00FF, e.tag.1 & 0xFF00] {
                els.insert(k);
            }
        }
        for k in [0u16, 1, 0x000F, 0x0010, 0x0011, 0x00FE, 0x00FF, 0x0100, 0x0FFF, 0x1000, 0xFFFF, 0xE000, 0xE00D, 0xE0DD] {
            els.insert(k);
        }
        let mut x = ctx.seed.wrapping_mul(0x9E37_79B9_7F4A_7C15) | 1;
        let base: Vec<u16> = els.into_iter().collect();
        (0..=u16::MAX)
            .map(|group| {
                // in groups that have entries probe every table element number; elsewhere a rotating slice + random ones
                let has = d.entries.iter().any(|e| e.tag.0 == group || (e.kind == Kind::Group100 && e.tag.0 == group & 0xFF00));
                let mut elements: Vec<u16> = if has { base.clone() } else { base.iter().copied().skip(group as usize % 16).step_by(16).collect() };
                for _ in 0..64 {
                    x ^= x << 13;
                    x ^= x >> 7;
                    x ^= x << 17;
                    elements.push(x as u16);
                }
                GroupCase { group, elements }
            })
            .collect()
    };
    ctx.run_enum(
        "by_tag",
        "thorough: all 2^32 tags (65 536 groups x 65 536 elements, exhaustive); quick: every group x (every element number of the table, +-1, |0xFF, &0xFF00, boundary numbers; in groups without entries a rotating 1/16 slice) + 64 seeded elements per group (~50M probes); oracle: reference lookup with the stated precedence exact > ggxx > eexx > private creator > group length > none; keyword, VR and range kind of the answer compared",
        groups,
        ctx.tier == Tier::Thorough,
        check_group,
    );
    ctx.run_enum(
        "keywords",
        "exhaustive: every ENTRIES row: by_name(keyword) has that keyword and the tag of the named constant; the tag leads back to the keyword",
        (0..d.entries.len()).map(|ix| KwCase { ix }).collect(),
        true,
        check_kw,
    );
    let src = std::fs::read_to_string("/repo/dictionary-std/src/uids.rs").unwrap_or_default();
    let uids = refimpl::dict::parse_uids_rs(&src);
    if uids.iter().filter(|u| u.table == "SOP_CLASSES").count() < 100 {
        ctx.infra(format!("only {} SOP class rows parsed from uids.rs", uids.len()));
    }
    let sop: BTreeSet<String> = uids.iter().filter(|u| u.table == "SOP_CLASSES").map(|u| u.uid.clone()).collect();
    ctx.run_enum(
        "sop_classes",
        "exhaustive: every row of every UID table in uids.rs: SOP class rows map UID -> entry and keyword -> the same entry (uid, name, keyword, retired flag); rows of other tables are absent from the SOP class dictionary",
        uids.into_iter()
            .filter(|u| u.table == "SOP_CLASSES" || !sop.contains(&u.uid))
            .map(|u| UidCase { uid: u.uid, alias: u.alias, name: u.name, table: u.table, retired: u.retired })
            .collect(),
        true,
        check_uid,
    );
}
