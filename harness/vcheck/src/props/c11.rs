//! C11 — numeric value conversions are exact or fail; extend / truncate follow a list model.
use crate::conv::prim_of;
use crate::engine::{Ctx, Obs};
use dicom_core::value::{PrimitiveValue, Value};
use dicom_core::{DataElement, Tag, VR};
use dicom_object::InMemDicomObject;
use proptest::prelude::*;
use refimpl::ds::Val;
use serde::{Deserialize, Serialize};

// ------------------------------------------------------------------------------------------
// generators

fn num_string() -> BoxedStrategy<String> {
    let core = prop_oneof![
        6 => "-?[0-9]{1,5}",
        2 => "[+]?[0-9]{1,20}",
        2 => prop_oneof![
            Just("255".to_string()), Just("256".to_string()), Just("-128".to_string()), Just("-129".to_string()), Just("127".to_string()), Just("128".to_string()),
            Just("65535".to_string()), Just("65536".to_string()), Just("32767".to_string()), Just("32768".to_string()), Just("-32768".to_string()), Just("-32769".to_string()),
            Just("4294967295".to_string()), Just("4294967296".to_string()), Just("2147483647".to_string()), Just("2147483648".to_string()), Just("-2147483648".to_string()), Just("-2147483649".to_string()),
            Just("18446744073709551615".to_string()), Just("18446744073709551616".to_string()), Just("9223372036854775807".to_string()), Just("9223372036854775808".to_string()),
            Just("-9223372036854775808".to_string()), Just("-9223372036854775809".to_string()), Just("0".to_string()), Just("00012".to_string()),
        ],
        2 => "-?[0-9]{1,4}\\.[0-9]{1,4}",
        1 => "[0-9]e[0-9]",
        1 => "[ -~]{0,6}",
        1 => Just(String::new()),
    ];
    (core, "[ \\x00\\t]{0,2}", "[ \\x00]{0,3}").prop_map(|(c, l, r)| format!("{l}{c}{r}")).boxed()
}

fn ints<T: Arbitrary + Clone + 'static>(extremes: Vec<T>) -> BoxedStrategy<Vec<T>>
where
    T::Strategy: 'static,
{
    let ex = proptest::sample::select(extremes);
    proptest::collection::vec(prop_oneof![2 => any::<T>(), 1 => ex], 0..5).boxed()
}

pub fn prim_val() -> BoxedStrategy<Val> {
    prop_oneof![
        1 => Just(Val::Empty),
        3 => num_string().prop_map(Val::Str),
        3 => proptest::collection::vec(num_string(), 0..4).prop_map(Val::Strs),
        1 => ints::<u8>(vec![0, 255, 127, 128]).prop_map(Val::U8),
        1 => ints::<u16>(vec![0, u16::MAX, 255, 256, 32767, 32768]).prop_map(Val::U16),
        1 => ints::<i16>(vec![0, i16::MAX, i16::MIN, -1, 127, 128, -128, -129]).prop_map(Val::I16),
        1 => ints::<u32>(vec![0, u32::MAX, 65535, 65536, i32::MAX as u32, i32::MAX as u32 + 1]).prop_map(Val::U32),
        1 => ints::<i32>(vec![0, i32::MAX, i32::MIN, -1, 65535, 65536, -32768, -32769]).prop_map(Val::I32),
        1 => ints::<u64>(vec![0, u64::MAX, u32::MAX as u64, u32::MAX as u64 + 1, i64::MAX as u64, i64::MAX as u64 + 1, 1 << 53, (1 << 53) + 1]).prop_map(Val::U64),
        1 => ints::<i64>(vec![0, i64::MAX, i64::MIN, -1, u32::MAX as i64, u32::MAX as i64 + 1, i32::MIN as i64 - 1]).prop_map(Val::I64),
        1 => proptest::collection::vec(prop_oneof![any::<u32>(), Just(f32::NAN.to_bits()), Just(f32::INFINITY.to_bits()), Just(1.5f32.to_bits()), Just(3.0f32.to_bits())], 0..4).prop_map(Val::F32),
        1 => proptest::collection::vec(prop_oneof![any::<u64>(), Just(f64::NAN.to_bits()), Just(f64::NEG_INFINITY.to_bits()), Just(2.0f64.to_bits()), Just(1e300f64.to_bits())], 0..4).prop_map(Val::F64),
        1 => proptest::collection::vec((any::<u16>(), any::<u16>()), 0..3).prop_map(Val::Tags),
        1 => proptest::collection::vec(crate::gen::date_text(), 1..3).prop_map(Val::Dates),
        1 => proptest::collection::vec(crate::gen::time_text(), 1..3).prop_map(Val::Times),
    ]
    .boxed()
}

// ------------------------------------------------------------------------------------------
// reference model

fn trim(s: &str) -> &str {
    s.trim_matches(|c: char| c.is_whitespace() || c == '\0')
}

/// integer denoted by trimmed text under Rust's integer grammar (sign, digits); None = not an integer
fn parse_int(s: &str) -> Option<(bool, u128, bool)> {
    // returns (negative, magnitude, had_minus_sign); magnitude saturates
    let t = trim(s);
    let (neg, digits) = match t.strip_prefix('-') {
        Some(r) => (true, r),
        None => (false, t.strip_prefix('+').unwrap_or(t)),
    };
    if digits.is_empty() || !digits.bytes().all(|b| b.is_ascii_digit()) {
        return None;
    }
    let mut m: u128 = 0;
    for b in digits.bytes() {
        m = m.saturating_mul(10).saturating_add((b - b'0') as u128);
    }
    Some((neg, m, neg))
}

#[derive(Clone, Debug, PartialEq)]
enum Num {
    /// exact integer
    Int(i128),
    /// integer too large for i128 bookkeeping (never fits any target)
    Huge,
    /// text that is not an integer
    NotInt,
    /// a minus sign on a zero magnitude (Rust's unsigned parsers reject it; signed accept it)
    MinusZero,
}

fn text_num(s: &str) -> Num {
    match parse_int(s) {
        None => Num::NotInt,
        Some((neg, m, _)) => {
            if m > i128::MAX as u128 / 2 {
                Num::Huge
            } else if neg && m == 0 {
                Num::MinusZero
            } else {
                Num::Int(if neg { -(m as i128) } else { m as i128 })
            }
        }
    }
}

/// items of the value as exact numbers; None = variant has no integer reading
fn int_items(v: &Val) -> Option<Vec<Num>> {
    Some(match v {
        Val::Empty => vec![],
        Val::Str(s) => vec![text_num(s)],
        Val::Strs(s) => s.iter().map(|x| text_num(x)).collect(),
        Val::U8(x) => x.iter().map(|n| Num::Int(*n as i128)).collect(),
        Val::U16(x) => x.iter().map(|n| Num::Int(*n as i128)).collect(),
        Val::I16(x) => x.iter().map(|n| Num::Int(*n as i128)).collect(),
        Val::U32(x) => x.iter().map(|n| Num::Int(*n as i128)).collect(),
        Val::I32(x) => x.iter().map(|n| Num::Int(*n as i128)).collect(),
        Val::U64(x) => x.iter().map(|n| Num::Int(*n as i128)).collect(),
        Val::I64(x) => x.iter().map(|n| Num::Int(*n as i128)).collect(),
        _ => return None,
    })
}

trait Target: num_like::Bounded + std::str::FromStr<Err = std::num::ParseIntError> + Copy + std::fmt::Debug + PartialEq + 'static {
    const NAME: &'static str;
    const SIGNED: bool;
    fn to_i128(self) -> i128;
}
mod num_like {
    pub trait Bounded {
        fn lo() -> i128;
        fn hi() -> i128;
    }
}
macro_rules! target {
    ($t:ty, $signed:expr) => {
        impl num_like::Bounded for $t {
            fn lo() -> i128 {
                <$t>::MIN as i128
            }
            fn hi() -> i128 {
                <$t>::MAX as i128
            }
        }
        impl Target for $t {
            const NAME: &'static str = stringify!($t);
            const SIGNED: bool = $signed;
            fn to_i128(self) -> i128 {
                self as i128
            }
        }
    };
}
target!(u8, false);
target!(i8, true);
target!(u16, false);
target!(i16, true);
target!(u32, false);
target!(i32, true);
target!(u64, false);
target!(i64, true);

/// Expected outcome of converting one item to T: Some(n) = Ok(n), None = Err; Err(()) = unspecified
fn fit<T: Target>(n: &Num, from_text: bool) -> Result<Option<i128>, ()> {
    match n {
        Num::Int(x) => Ok(if *x >= T::lo() && *x <= T::hi() { Some(*x) } else { None }),
        Num::Huge | Num::NotInt => Ok(None),
        Num::MinusZero => {
            if from_text && !T::SIGNED {
                Err(()) // "-0" for an unsigned target: grammar detail, not asserted
            } else {
                Ok(Some(0))
            }
        }
    }
}

#[derive(Clone, Debug, Serialize, Deserialize)]
pub struct ConvCase {
    pub v: Val,
}

fn check_target<T>(c: &ConvCase, p: &PrimitiveValue, obs: &mut Obs)
where
    T: Target + num_traits_shim::NumCastLike,
{
    let items = int_items(&c.v);
    let from_text = matches!(c.v, Val::Str(_) | Val::Strs(_));
    let single = T::conv_single(p);
    let multi = T::conv_multi(p);
    obs.extra_evals += 2;
    match &items {
        None => {
            // floats, tags, dates: "does not enable the conversion" -> error for both
            if single.is_ok() {
                obs.fail(format!("C11:to_int succeeds on a non-integer variant:{}", variant(&c.v)), format!("{:?} -> {single:?}", c.v));
            }
            if multi.is_ok() {
                obs.fail(format!("C11:to_multi_int succeeds on a non-integer variant:{}", variant(&c.v)), format!("{:?} -> {multi:?}", c.v));
            }
        }
        Some(items) => {
            // multi: exactly one result per stored item, in order; any unrepresentable item => Err
            let mut want: Option<Vec<i128>> = Some(vec![]);
            let mut unspecified = false;
            for it in items {
                match fit::<T>(it, from_text) {
                    Ok(Some(n)) => {
                        if let Some(w) = want.as_mut() {
                            w.push(n)
                        }
                    }
                    Ok(None) => want = None,
                    Err(()) => unspecified = true,
                }
            }
            if !unspecified {
                match (&want, &multi) {
                    (Some(w), Ok(g)) => {
                        let g: Vec<i128> = g.iter().map(|x| x.to_i128()).collect();
                        if *w != g {
                            obs.fail(
                                format!("C11:to_multi_int<{}> returns different numbers:{}", T::NAME, variant(&c.v)),
                                format!("{:?} -> {g:?}, want {w:?}", c.v),
                            );
                        }
                    }
                    (Some(w), Err(e)) => obs.fail(
                        format!(
                            "C11:to_multi_int fails on representable items:{}:{}",
                            variant(&c.v),
                            if w.is_empty() { "no-items" } else { "items" }
                        ),
                        format!("to_multi_int::<{}>({:?}) -> Err({e}), want {w:?}", T::NAME, c.v),
                    ),
                    (None, Ok(g)) => obs.fail(
                        format!("C11:to_multi_int<{}> accepts a non-representable number:{}", T::NAME, variant(&c.v)),
                        format!("{:?} -> {g:?}", c.v),
                    ),
                    (None, Err(_)) => {}
                }
            }
            // single: the first item
            match items.first() {
                None => {
                    if let Ok(g) = &single {
                        obs.fail(format!("C11:to_int succeeds on a value without items:{}", variant(&c.v)), format!("{:?} -> {g:?}", c.v));
                    }
                }
                Some(first) => match (fit::<T>(first, from_text), &single) {
                    (Err(()), _) => {}
                    (Ok(Some(n)), Ok(g)) => {
                        if g.to_i128() != n {
                            obs.fail(format!("C11:to_int<{}> returns a different number:{}", T::NAME, variant(&c.v)), format!("{:?} -> {g:?}, want {n}", c.v));
                        }
                    }
                    (Ok(Some(n)), Err(e)) => obs.fail(
                        format!("C11:to_int<{}> fails on a representable number:{}", T::NAME, variant(&c.v)),
                        format!("{:?} -> Err({e}), want {n}", c.v),
                    ),
                    (Ok(None), Ok(g)) => obs.fail(
                        format!("C11:to_int<{}> accepts a non-representable number (wrapped/truncated?):{}", T::NAME, variant(&c.v)),
                        format!("{:?} -> {g:?}", c.v),
                    ),
                    (Ok(None), Err(_)) => {}
                },
            }
        }
    }
}

mod num_traits_shim {
    use dicom_core::value::PrimitiveValue;
    pub trait NumCastLike: Sized {
        fn conv_single(p: &PrimitiveValue) -> Result<Self, String>;
        fn conv_multi(p: &PrimitiveValue) -> Result<Vec<Self>, String>;
    }
    macro_rules! imp {
        ($t:ty) => {
            impl NumCastLike for $t {
                fn conv_single(p: &PrimitiveValue) -> Result<Self, String> {
                    p.to_int::<$t>().map_err(|e| e.to_string())
                }
                fn conv_multi(p: &PrimitiveValue) -> Result<Vec<Self>, String> {
                    p.to_multi_int::<$t>().map_err(|e| e.to_string())
                }
            }
        };
    }
    imp!(u8);
    imp!(i8);
    imp!(u16);
    imp!(i16);
    imp!(u32);
    imp!(i32);
    imp!(u64);
    imp!(i64);
}

fn variant(v: &Val) -> &'static str {
    match v {
        Val::Empty => "Empty",
        Val::Str(_) => "Str",
        Val::Strs(_) => "Strs",
        Val::U8(_) => "U8",
        Val::U16(_) => "U16",
        Val::I16(_) => "I16",
        Val::U32(_) => "U32",
        Val::I32(_) => "I32",
        Val::U64(_) => "U64",
        Val::I64(_) => "I64",
        Val::F32(_) => "F32",
        Val::F64(_) => "F64",
        Val::Tags(_) => "Tags",
        Val::Dates(_) => "Date",
        Val::Times(_) => "Time",
        Val::DateTimes(_) => "DateTime",
        _ => "other",
    }
}

fn n_items(v: &Val) -> Option<usize> {
    Some(match v {
        Val::Empty => 0,
        Val::Str(_) => 1,
        Val::Strs(s) => s.len(),
        Val::U8(x) => x.len(),
        Val::U16(x) => x.len(),
        Val::I16(x) => x.len(),
        Val::U32(x) => x.len(),
        Val::I32(x) => x.len(),
        Val::U64(x) => x.len(),
        Val::I64(x) => x.len(),
        Val::F32(x) => x.len(),
        Val::F64(x) => x.len(),
        _ => return None,
    })
}

/// float reading of each item (Rust's float grammar for text); None item = not a number
fn float_items(v: &Val) -> Option<Vec<Option<f64>>> {
    Some(match v {
        Val::Empty => vec![],
        Val::Str(s) => vec![trim(s).parse::<f64>().ok()],
        Val::Strs(s) => s.iter().map(|x| trim(x).parse::<f64>().ok()).collect(),
        Val::U8(x) => x.iter().map(|n| Some(*n as f64)).collect(),
        Val::U16(x) => x.iter().map(|n| Some(*n as f64)).collect(),
        Val::I16(x) => x.iter().map(|n| Some(*n as f64)).collect(),
        Val::U32(x) => x.iter().map(|n| Some(*n as f64)).collect(),
        Val::I32(x) => x.iter().map(|n| Some(*n as f64)).collect(),
        Val::U64(x) => x.iter().map(|n| Some(*n as f64)).collect(),
        Val::I64(x) => x.iter().map(|n| Some(*n as f64)).collect(),
        Val::F32(x) => x.iter().map(|b| Some(f32::from_bits(*b) as f64)).collect(),
        Val::F64(x) => x.iter().map(|b| Some(f64::from_bits(*b))).collect(),
        _ => return None,
    })
}

fn same_f64(a: f64, b: f64) -> bool {
    a.to_bits() == b.to_bits() || (a.is_nan() && b.is_nan()) || a == b
}

fn check_conv(c: &ConvCase, obs: &mut Obs) {
    let p = prim_of(&c.v);
    obs.nontrivial = !matches!(c.v, Val::Empty);
    obs.class(format!("variant:{}", variant(&c.v)));
    if n_items(&c.v) == Some(0) {
        obs.class("no-items");
    }
    check_target::<u8>(c, &p, obs);
    check_target::<i8>(c, &p, obs);
    check_target::<u16>(c, &p, obs);
    check_target::<i16>(c, &p, obs);
    check_target::<u32>(c, &p, obs);
    check_target::<i32>(c, &p, obs);
    check_target::<u64>(c, &p, obs);
    check_target::<i64>(c, &p, obs);

    // floats: cardinality law and single == first of multi
    let fi = float_items(&c.v);
    let m64 = p.to_multi_float64();
    let m32 = p.to_multi_float32();
    let s64 = p.to_float64();
    let s32 = p.to_float32();
    obs.extra_evals += 4;
    match &fi {
        None => {
            if m64.is_ok() || m32.is_ok() || s64.is_ok() || s32.is_ok() {
                obs.fail(format!("C11:float conversion succeeds on a non-numeric variant:{}", variant(&c.v)), format!("{:?}", c.v));
            }
        }
        Some(items) => {
            let all_ok = items.iter().all(|x| x.is_some());
            match &m64 {
                Ok(g) => {
                    if !all_ok {
                        obs.fail(format!("C11:to_multi_float64 accepts non-numeric text:{}", variant(&c.v)), format!("{:?} -> {g:?}", c.v));
                    } else if g.len() != items.len() {
                        obs.fail(format!("C11:to_multi_float64 cardinality differs:{}", variant(&c.v)), format!("{:?} -> {} results for {} items", c.v, g.len(), items.len()));
                    } else {
                        for (a, b) in g.iter().zip(items) {
                            if !same_f64(*a, b.unwrap()) {
                                obs.fail(format!("C11:to_multi_float64 returns a different number:{}", variant(&c.v)), format!("{:?} -> {g:?}", c.v));
                                break;
                            }
                        }
                    }
                }
                Err(e) => {
                    if all_ok {
                        obs.fail(
                            format!("C11:to_multi_float64 fails on numeric items:{}:{}", variant(&c.v), if items.is_empty() { "no-items" } else { "items" }),
                            format!("{:?} -> Err({e})", c.v),
                        );
                    }
                }
            }
            match &m32 {
                Ok(g) => {
                    if all_ok && g.len() != items.len() {
                        obs.fail(format!("C11:to_multi_float32 cardinality differs:{}", variant(&c.v)), format!("{:?} -> {} results for {} items", c.v, g.len(), items.len()));
                    }
                    if !all_ok {
                        obs.fail(format!("C11:to_multi_float32 accepts non-numeric text:{}", variant(&c.v)), format!("{:?} -> {g:?}", c.v));
                    }
                }
                Err(e) => {
                    // narrowing f64 -> f32 may legitimately fail for out-of-range numbers; only the empty / in-range cases are asserted
                    let in_range = items.iter().all(|x| x.map(|v| !v.is_finite() || v.abs() <= f32::MAX as f64).unwrap_or(false));
                    if all_ok && in_range {
                        obs.fail(
                            format!("C11:to_multi_float32 fails on numeric items:{}:{}", variant(&c.v), if items.is_empty() { "no-items" } else { "items" }),
                            format!("{:?} -> Err({e})", c.v),
                        );
                    }
                }
            }
            // single == first item
            match (items.first(), &s64) {
                (None, Ok(g)) => obs.fail(format!("C11:to_float64 succeeds on a value without items:{}", variant(&c.v)), format!("{:?} -> {g}", c.v)),
                (Some(Some(w)), Ok(g)) => {
                    if !same_f64(*w, *g) {
                        obs.fail(format!("C11:to_float64 is not the first item:{}", variant(&c.v)), format!("{:?} -> {g}, want {w}", c.v));
                    }
                }
                (Some(Some(w)), Err(e)) => obs.fail(format!("C11:to_float64 fails on a numeric first item:{}", variant(&c.v)), format!("{:?} -> Err({e}), want {w}", c.v)),
                (Some(None), Ok(g)) => obs.fail(format!("C11:to_float64 accepts non-numeric text:{}", variant(&c.v)), format!("{:?} -> {g}", c.v)),
                _ => {}
            }
            if let (Ok(a), Ok(b)) = (&s32, &m32) {
                if b.first().map(|x| x.to_bits() != a.to_bits() && !(x.is_nan() && a.is_nan())).unwrap_or(true) {
                    obs.fail(format!("C11:to_float32 is not the first of to_multi_float32:{}", variant(&c.v)), format!("{:?}: {a} vs {b:?}", c.v));
                }
            }
        }
    }

    // the same answers through Value and DataElement
    let val: Value<InMemDicomObject> = Value::Primitive(p.clone());
    let el: DataElement<InMemDicomObject> = DataElement::new(Tag(0x0009, 0x1001), VR::UN, val.clone());
    let a = p.to_multi_int::<i64>().ok();
    if val.to_multi_int::<i64>().ok() != a || el.to_multi_int::<i64>().ok() != a {
        obs.fail("C11:Value/DataElement to_multi_int differs from the primitive value's", format!("{:?}", c.v));
    }
    let a = p.to_int::<u16>().ok();
    if val.to_int::<u16>().ok() != a || el.to_int::<u16>().ok() != a {
        obs.fail("C11:Value/DataElement to_int differs from the primitive value's", format!("{:?}", c.v));
    }
    let a = p.to_multi_float64().ok().map(|v| v.iter().map(|x| x.to_bits()).collect::<Vec<_>>());
    if val.to_multi_float64().ok().map(|v| v.iter().map(|x| x.to_bits()).collect::<Vec<_>>()) != a {
        obs.fail("C11:Value to_multi_float64 differs from the primitive value's", format!("{:?}", c.v));
    }
}

// ------------------------------------------------------------------------------------------
// extend / truncate histories against a list model

#[derive(Clone, Debug, Serialize, Deserialize)]
pub enum Op {
    Str(Vec<String>),
    U16(Vec<u16>),
    I16(Vec<i16>),
    I32(Vec<i32>),
    U32(Vec<u32>),
    F32(Vec<u32>),
    F64(Vec<u64>),
    Truncate(usize),
}

#[derive(Clone, Debug, Serialize, Deserialize)]
pub struct HistCase {
    pub start: Val,
    pub ops: Vec<Op>,
}

/// list model: class + items rendered canonically
#[derive(Clone, Debug, PartialEq)]
enum Model {
    Empty,
    Text(Vec<String>, bool), // items, was single Str
    U8(Vec<u8>),
    U16(Vec<u16>),
    I16(Vec<i16>),
    U32(Vec<u32>),
    I32(Vec<i32>),
    U64(Vec<u64>),
    I64(Vec<i64>),
    F32(Vec<u32>),
    F64(Vec<u64>),
    Opaque(usize), // tags / dates: only the item count is tracked
}

fn model_of(v: &Val) -> Model {
    match v {
        Val::Empty => Model::Empty,
        Val::Str(s) => Model::Text(vec![s.clone()], true),
        Val::Strs(s) => Model::Text(s.clone(), false),
        Val::U8(x) => Model::U8(x.clone()),
        Val::U16(x) => Model::U16(x.clone()),
        Val::I16(x) => Model::I16(x.clone()),
        Val::U32(x) => Model::U32(x.clone()),
        Val::I32(x) => Model::I32(x.clone()),
        Val::U64(x) => Model::U64(x.clone()),
        Val::I64(x) => Model::I64(x.clone()),
        Val::F32(x) => Model::F32(x.clone()),
        Val::F64(x) => Model::F64(x.clone()),
        Val::Tags(x) => Model::Opaque(x.len()),
        Val::Dates(x) | Val::Times(x) | Val::DateTimes(x) => Model::Opaque(x.len()),
        _ => Model::Empty,
    }
}

/// what the implementation holds, in the model's terms
fn observe(p: &PrimitiveValue) -> Model {
    match p {
        PrimitiveValue::Empty => Model::Empty,
        PrimitiveValue::Str(s) => Model::Text(vec![s.clone()], true),
        PrimitiveValue::Strs(s) => Model::Text(s.to_vec(), false),
        PrimitiveValue::U8(x) => Model::U8(x.to_vec()),
        PrimitiveValue::U16(x) => Model::U16(x.to_vec()),
        PrimitiveValue::I16(x) => Model::I16(x.to_vec()),
        PrimitiveValue::U32(x) => Model::U32(x.to_vec()),
        PrimitiveValue::I32(x) => Model::I32(x.to_vec()),
        PrimitiveValue::U64(x) => Model::U64(x.to_vec()),
        PrimitiveValue::I64(x) => Model::I64(x.to_vec()),
        PrimitiveValue::F32(x) => Model::F32(x.iter().map(|f| f.to_bits()).collect()),
        PrimitiveValue::F64(x) => Model::F64(x.iter().map(|f| f.to_bits()).collect()),
        PrimitiveValue::Tags(x) => Model::Opaque(x.len()),
        PrimitiveValue::Date(x) => Model::Opaque(x.len()),
        PrimitiveValue::Time(x) => Model::Opaque(x.len()),
        PrimitiveValue::DateTime(x) => Model::Opaque(x.len()),
    }
}

fn items_count(m: &Model) -> usize {
    match m {
        Model::Empty => 0,
        Model::Text(v, _) => v.len(),
        Model::U8(v) => v.len(),
        Model::U16(v) => v.len(),
        Model::I16(v) => v.len(),
        Model::U32(v) => v.len(),
        Model::I32(v) => v.len(),
        Model::U64(v) => v.len(),
        Model::I64(v) => v.len(),
        Model::F32(v) => v.len(),
        Model::F64(v) => v.len(),
        Model::Opaque(n) => *n,
    }
}

/// equality up to representation of "no items" and Str-vs-Strs of one item
fn model_eq(a: &Model, b: &Model) -> bool {
    if items_count(a) == 0 && items_count(b) == 0 {
        return true;
    }
    match (a, b) {
        (Model::Text(x, _), Model::Text(y, _)) => x == y,
        _ => a == b,
    }
}

/// the documented `as`-cast rules, written out per source type
trait Src: Copy {
    fn to_u8(self) -> u8;
    fn to_u16(self) -> u16;
    fn to_i16(self) -> i16;
    fn to_u32(self) -> u32;
    fn to_i32(self) -> i32;
    fn to_u64(self) -> u64;
    fn to_i64(self) -> i64;
    fn to_f32(self) -> f32;
    fn to_f64(self) -> f64;
    fn text(self) -> String;
}
macro_rules! src {
    ($t:ty) => {
        impl Src for $t {
            fn to_u8(self) -> u8 {
                self as u8
            }
            fn to_u16(self) -> u16 {
                self as u16
            }
            fn to_i16(self) -> i16 {
                self as i16
            }
            fn to_u32(self) -> u32 {
                self as u32
            }
            fn to_i32(self) -> i32 {
                self as i32
            }
            fn to_u64(self) -> u64 {
                self as u64
            }
            fn to_i64(self) -> i64 {
                self as i64
            }
            fn to_f32(self) -> f32 {
                self as f32
            }
            fn to_f64(self) -> f64 {
                self as f64
            }
            fn text(self) -> String {
                self.to_string()
            }
        }
    };
}
src!(u16);
src!(i16);
src!(i32);
src!(u32);
src!(f32);
src!(f64);

/// apply `extend_<T>`; returns false when the model says the operation must fail (value unchanged)
fn model_extend<T: Src>(m: &mut Model, nums: &[T], adopt: fn(Vec<T>) -> Model) -> bool {
    match m {
        Model::Empty => {
            *m = adopt(nums.to_vec());
            true
        }
        Model::Text(v, single) => {
            v.extend(nums.iter().map(|n| n.text()));
            *single = false;
            true
        }
        Model::U8(v) => {
            v.extend(nums.iter().map(|n| n.to_u8()));
            true
        }
        Model::U16(v) => {
            v.extend(nums.iter().map(|n| n.to_u16()));
            true
        }
        Model::I16(v) => {
            v.extend(nums.iter().map(|n| n.to_i16()));
            true
        }
        Model::U32(v) => {
            v.extend(nums.iter().map(|n| n.to_u32()));
            true
        }
        Model::I32(v) => {
            v.extend(nums.iter().map(|n| n.to_i32()));
            true
        }
        Model::U64(v) => {
            v.extend(nums.iter().map(|n| n.to_u64()));
            true
        }
        Model::I64(v) => {
            v.extend(nums.iter().map(|n| n.to_i64()));
            true
        }
        Model::F32(v) => {
            v.extend(nums.iter().map(|n| n.to_f32().to_bits()));
            true
        }
        Model::F64(v) => {
            v.extend(nums.iter().map(|n| n.to_f64().to_bits()));
            true
        }
        Model::Opaque(_) => false,
    }
}

fn model_truncate(m: &mut Model, n: usize) {
    match m {
        Model::Empty => {}
        Model::Text(_, true) if n == 0 => *m = Model::Empty, // a single string has no list to keep: the value becomes empty
        Model::Text(v, _) => v.truncate(n),
        Model::U8(v) => v.truncate(n),
        Model::U16(v) => v.truncate(n),
        Model::I16(v) => v.truncate(n),
        Model::U32(v) => v.truncate(n),
        Model::I32(v) => v.truncate(n),
        Model::U64(v) => v.truncate(n),
        Model::I64(v) => v.truncate(n),
        Model::F32(v) => v.truncate(n),
        Model::F64(v) => v.truncate(n),
        Model::Opaque(k) => *k = (*k).min(n),
    }
}

fn check_hist(c: &HistCase, obs: &mut Obs) {
    let mut p = prim_of(&c.start);
    let mut m = model_of(&c.start);
    obs.nontrivial = c.ops.len() >= 2;
    obs.class(format!("start:{}", variant(&c.start)));
    for (i, op) in c.ops.iter().enumerate() {
        let before = observe(&p);
        let (res, must_ok, opname): (Result<(), String>, bool, &str) = match op {
            Op::Str(s) => {
                let r = p.extend_str(s.clone()).map_err(|e| e.to_string());
                let ok = match &mut m {
                    Model::Empty => {
                        m = Model::Text(s.clone(), false);
                        true
                    }
                    Model::Text(v, single) => {
                        v.extend(s.iter().cloned());
                        *single = false;
                        true
                    }
                    _ => false,
                };
                (r, ok, "extend_str")
            }
            Op::U16(n) => (p.extend_u16(n.clone()).map_err(|e| e.to_string()), model_extend(&mut m, n, Model::U16), "extend_u16"),
            Op::I16(n) => (p.extend_i16(n.clone()).map_err(|e| e.to_string()), model_extend(&mut m, n, Model::I16), "extend_i16"),
            Op::I32(n) => (p.extend_i32(n.clone()).map_err(|e| e.to_string()), model_extend(&mut m, n, Model::I32), "extend_i32"),
            Op::U32(n) => (p.extend_u32(n.clone()).map_err(|e| e.to_string()), model_extend(&mut m, n, Model::U32), "extend_u32"),
            Op::F32(bits) => {
                let n: Vec<f32> = bits.iter().map(|b| f32::from_bits(*b)).collect();
                (
                    p.extend_f32(n.clone()).map_err(|e| e.to_string()),
                    model_extend(&mut m, &n, |v| Model::F32(v.into_iter().map(|x| x.to_bits()).collect())),
                    "extend_f32",
                )
            }
            Op::F64(bits) => {
                let n: Vec<f64> = bits.iter().map(|b| f64::from_bits(*b)).collect();
                (
                    p.extend_f64(n.clone()).map_err(|e| e.to_string()),
                    model_extend(&mut m, &n, |v| Model::F64(v.into_iter().map(|x| x.to_bits()).collect())),
                    "extend_f64",
                )
            }
            Op::Truncate(n) => {
                p.truncate(*n);
                model_truncate(&mut m, *n);
                (Ok(()), true, "truncate")
            }
        };
        obs.extra_evals += 1;
        let after = observe(&p);
        match (res.is_ok(), must_ok) {
            (true, true) => {
                if !model_eq(&after, &m) {
                    let cls = match (&before, op) {
                        (Model::Text(_, true), Op::Truncate(_)) => ":single-string",
                        _ => "",
                    };
                    obs.fail(
                        format!("C11:{opname} result differs from the list model{cls}"),
                        format!("step {i} {op:?} on {before:?}: got {after:?}, model {m:?}"),
                    );
                    return;
                }
            }
            (false, false) => {
                if !model_eq(&after, &before) {
                    obs.fail(format!("C11:failed {opname} changed the value"), format!("step {i} {op:?} on {before:?}: now {after:?}"));
                    return;
                }
            }
            (true, false) => {
                obs.fail(format!("C11:{opname} succeeds on an incompatible value"), format!("step {i} {op:?} on {before:?}: now {after:?}"));
                return;
            }
            (false, true) => {
                obs.fail(format!("C11:{opname} fails on a compatible value"), format!("step {i} {op:?} on {before:?}: {res:?}"));
                return;
            }
        }
        // multiplicity agrees with the model's item count
        if p.multiplicity() as usize != items_count(&m) {
            obs.fail("C11:multiplicity differs from the list model", format!("after step {i} {op:?}: multiplicity {} model {}", p.multiplicity(), items_count(&m)));
            return;
        }
    }
}

pub fn run(ctx: &Ctx) {
    ctx.run_prop(
        "conversions",
        "every PrimitiveValue variant with random contents (empty collections, Empty, extremes of every integer type, numeric strings with leading/trailing spaces/NULs/tabs, signs, overflow up to 2^64 and beyond, decimals, garbage, NaN/inf) x to_int/to_multi_int for u8,i8,u16,i16,u32,i32,u64,i64 and to_float32/64 single and multi, also through Value and DataElement; oracle: exact i128 model (Ok(n) iff the stored number fits the target, else Err; multi = one result per item in order, no items => empty list; single = first item); non-trivial = any variant but Empty",
        || prim_val().prop_map(|v| ConvCase { v }).boxed(),
        ctx.cases(40_000, 1_000_000),
        check_conv,
    );
    ctx.run_prop(
        "extend_truncate_histories",
        "random start value x history of 0-12 operations from extend_{str,u16,i16,i32,u32,f32,f64} and truncate(n) against a list model of the documented rules (text: append decimal text; numeric: `as` cast to the variant's type; Empty adopts the pushed type; Tags/Date/Time: error and unchanged; truncate keeps the first n items); compared after every step; non-trivial = history of >= 2 operations",
        || {
            let op = prop_oneof![
                proptest::collection::vec("[ -~]{0,5}", 0..3).prop_map(Op::Str),
                proptest::collection::vec(any::<u16>(), 0..3).prop_map(Op::U16),
                proptest::collection::vec(any::<i16>(), 0..3).prop_map(Op::I16),
                proptest::collection::vec(any::<i32>(), 0..3).prop_map(Op::I32),
                proptest::collection::vec(any::<u32>(), 0..3).prop_map(Op::U32),
                proptest::collection::vec(prop_oneof![any::<u32>(), Just(2.5f32.to_bits()), Just(70000.0f32.to_bits()), Just((-3.0f32).to_bits())], 0..3).prop_map(Op::F32),
                proptest::collection::vec(prop_oneof![any::<u64>(), Just(1.25f64.to_bits()), Just(1e10f64.to_bits()), Just((-7.0f64).to_bits())], 0..3).prop_map(Op::F64),
                (0usize..5).prop_map(Op::Truncate),
            ];
            (prim_val(), proptest::collection::vec(op, 0..13)).prop_map(|(start, ops)| HistCase { start, ops }).boxed()
        },
        ctx.cases(40_000, 1_000_000),
        check_hist,
    );
}
