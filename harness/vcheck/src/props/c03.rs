//! C03 — element and item headers follow the PS3.5 §7.1 wire layout (exhaustive enumeration).
use crate::conv::vr_of;
use crate::engine::{Ctx, Obs};
use dicom_core::header::{DataElementHeader, HasLength, Header, Length, SequenceItemHeader};
use dicom_core::{Tag, VR};
use dicom_encoding::decode::adaptive_le::AdaptiveVRLittleEndianDecoder;
use dicom_encoding::decode::explicit_be::ExplicitVRBigEndianDecoder;
use dicom_encoding::decode::explicit_le::ExplicitVRLittleEndianDecoder;
use dicom_encoding::decode::implicit_le::ImplicitVRLittleEndianDecoder;
use dicom_encoding::decode::Decode;
use dicom_encoding::encode::explicit_be::ExplicitVRBigEndianEncoder;
use dicom_encoding::encode::explicit_le::ExplicitVRLittleEndianEncoder;
use dicom_encoding::encode::implicit_le::ImplicitVRLittleEndianEncoder;
use dicom_encoding::encode::Encode;
use refimpl::ds::{self, Ts, ALL_VRS};
use serde::{Deserialize, Serialize};

#[derive(Clone, Debug, Serialize, Deserialize)]
pub struct HdrCase {
    ts: Ts,
    vr: String,
    tags: Vec<(u16, u16)>,
    lens: Vec<u32>,
}

const LENS: [u32; 12] = [0, 1, 2, 0xFFFE, 0xFFFF, 0x10000, 0x10001, 0x7FFF_FFFF, 0x8000_0000, 0xFFFF_FFFE, 0xFFFF_FFFF, 0x1234_5678];

fn enc_header(ts: Ts, h: DataElementHeader, out: &mut Vec<u8>) -> Result<usize, String> {
    match ts {
        Ts::ImplicitLE => ImplicitVRLittleEndianEncoder::default().encode_element_header(out, h),
        Ts::ExplicitLE => ExplicitVRLittleEndianEncoder::default().encode_element_header(out, h),
        Ts::ExplicitBE => ExplicitVRBigEndianEncoder::default().encode_element_header(out, h),
    }
    .map_err(|e| e.to_string())
}

fn dec_header(ts: Ts, b: &[u8]) -> Result<(DataElementHeader, usize), String> {
    let mut src = b;
    match ts {
        Ts::ImplicitLE => ImplicitVRLittleEndianDecoder::default().decode_header(&mut src),
        Ts::ExplicitLE => ExplicitVRLittleEndianDecoder::default().decode_header(&mut src),
        Ts::ExplicitBE => ExplicitVRBigEndianDecoder::default().decode_header(&mut src),
    }
    .map_err(|e| e.to_string())
}

fn check_hdr(c: &HdrCase, obs: &mut Obs) {
    obs.nontrivial = true;
    let ts = c.ts;
    let tsn = format!("{ts:?}");
    let vr = vr_of(&c.vr);
    for &tag in &c.tags {
        for &len in &c.lens {
            obs.extra_evals += 1;
            let want = ds::header_layout(ts, &c.vr, tag, len);
            let mut out = vec![];
            let r = enc_header(ts, DataElementHeader::new(Tag(tag.0, tag.1), vr, Length(len)), &mut out);
            match (&want, &r) {
                (None, Ok(_)) => obs.fail(
                    format!("C03:16-bit length form accepted a length that does not fit:{tsn}"),
                    format!("{} {:?} len {len:#x}: encoder wrote {:02x?}", c.vr, tag, out),
                ),
                (None, Err(_)) => {
                    if !out.is_empty() {
                        obs.fail("C03:rejected header left bytes in the output", format!("{} {len:#x}: {:02x?}", c.vr, out));
                    }
                }
                (Some(w), Ok(n)) => {
                    if out != *w {
                        obs.fail(
                            format!("C03:encoded header layout differs:{tsn}:{}", if ds::is_short_vr(&c.vr) { "short-form" } else { "long-form" }),
                            format!("{} {:?} len {len:#x}: wrote {:02x?}, PS3.5 layout {:02x?}", c.vr, tag, out, w),
                        );
                    }
                    if *n != out.len() {
                        obs.fail(format!("C03:encode_element_header byte count wrong:{tsn}"), format!("{} reported {n}, wrote {}", c.vr, out.len()));
                    }
                }
                (Some(_), Err(e)) => obs.fail(format!("C03:valid header rejected by encoder:{tsn}"), format!("{} {:?} len {len:#x}: {e}", c.vr, tag)),
            }
            // decoding the reference bytes
            if let Some(w) = &want {
                let mut padded = w.clone();
                padded.extend_from_slice(&[0xAA; 4]); // trailing bytes must not be touched
                match dec_header(ts, &padded) {
                    Ok((h, n)) => {
                        if n != w.len() {
                            obs.fail(format!("C03:decode_header byte count wrong:{tsn}"), format!("{} {:?} len {len:#x}: reported {n}, layout has {}", c.vr, tag, w.len()));
                        }
                        if (h.tag().0, h.tag().1) != tag || h.length().0 != len {
                            obs.fail(format!("C03:decoded tag/length differ:{tsn}"), format!("{} {:?} len {len:#x}: got {:?} {:?}", c.vr, tag, h.tag(), h.length()));
                        }
                        if ts.explicit() && h.vr() != vr {
                            obs.fail(format!("C03:decoded VR differs:{tsn}"), format!("{} came back as {:?}", c.vr, h.vr()));
                        }
                    }
                    Err(e) => obs.fail(format!("C03:reference header rejected by decoder:{tsn}"), format!("{} {:?} len {len:#x}: {e}", c.vr, tag)),
                }
                // the adaptive decoder once it is in its explicit state
                if ts == Ts::ExplicitLE {
                    let d = AdaptiveVRLittleEndianDecoder::default();
                    // PatientID (0010,0020) LO, explicit: puts the decoder in explicit state
                    let first = ds::header_layout(Ts::ExplicitLE, "LO", (0x0010, 0x0020), 4).unwrap();
                    let mut src: &[u8] = &first;
                    if let Ok((h0, _)) = d.decode_header(&mut src) {
                        if h0.vr() == VR::LO {
                            let mut src: &[u8] = &padded;
                            match d.decode_header(&mut src) {
                                Ok((h, n)) => {
                                    if n != w.len() || (h.tag().0, h.tag().1) != tag || h.length().0 != len || h.vr() != vr {
                                        obs.fail(
                                            "C03:adaptive decoder (explicit state) differs",
                                            format!("{} {:?} len {len:#x}: got {:?} {:?} {:?} in {n} bytes", c.vr, tag, h.tag(), h.vr(), h.length()),
                                        );
                                    }
                                }
                                Err(e) => obs.fail("C03:adaptive decoder rejected reference header", format!("{} {e}", c.vr)),
                            }
                        }
                    }
                }
            }
        }
    }
}

#[derive(Clone, Debug, Serialize, Deserialize)]
pub struct CodeCase {
    hi: u8,
}

fn check_codes(c: &CodeCase, obs: &mut Obs) {
    obs.nontrivial = true;
    for lo in 0u16..256 {
        obs.extra_evals += 1;
        let code = [c.hi, lo as u8];
        let defined = std::str::from_utf8(&code).ok().and_then(|s| ALL_VRS.iter().find(|v| **v == s).copied());
        let got = VR::from_binary(code);
        match (defined, got) {
            (Some(name), Some(vr)) => {
                if vr.to_string() != name || vr.to_bytes() != code {
                    obs.fail("C03:VR code maps to a different VR", format!("{code:02x?} -> {vr:?}"));
                }
            }
            (Some(name), None) => obs.fail("C03:defined VR code not recognised", name.to_string()),
            (None, Some(vr)) => obs.fail("C03:undefined two-byte code recognised as a VR", format!("{code:02x?} -> {vr:?}")),
            (None, None) => {}
        }
        // through the explicit decoders: a defined code must decode to that VR with its layout;
        // an undefined code must never come out as a *defined* VR other than UN (or be an error)
        for ts in [Ts::ExplicitLE, Ts::ExplicitBE] {
            let mut b = vec![];
            let (g, e) = (0x0009u16, 0x1001u16);
            if ts.big() {
                b.extend_from_slice(&g.to_be_bytes());
                b.extend_from_slice(&e.to_be_bytes());
            } else {
                b.extend_from_slice(&g.to_le_bytes());
                b.extend_from_slice(&e.to_le_bytes());
            }
            b.extend_from_slice(&code);
            b.extend_from_slice(&[0, 0, 0, 0, 0, 0]);
            match dec_header(ts, &b) {
                Ok((h, n)) => match defined {
                    Some(name) => {
                        let want_n = if ds::is_short_vr(name) { 8 } else { 12 };
                        if h.vr().to_string() != name || n != want_n {
                            obs.fail(format!("C03:explicit decoder mis-reads VR code:{ts:?}"), format!("{name}: got {:?} in {n} bytes", h.vr()));
                        }
                    }
                    None => {
                        if h.vr() != VR::UN {
                            obs.fail(format!("C03:explicit decoder invents a VR for an undefined code:{ts:?}"), format!("{code:02x?} -> {:?}", h.vr()));
                        }
                    }
                },
                Err(_) => {
                    if defined.is_some() {
                        obs.fail(format!("C03:explicit decoder rejects a defined VR code:{ts:?}"), format!("{code:02x?}"));
                    }
                }
            }
        }
        // adaptive decoder in explicit state
        if let Some(name) = defined {
            let d = AdaptiveVRLittleEndianDecoder::default();
            let first = ds::header_layout(Ts::ExplicitLE, "LO", (0x0010, 0x0020), 4).unwrap();
            let mut src: &[u8] = &first;
            let _ = d.decode_header(&mut src);
            let hdr = ds::header_layout(Ts::ExplicitLE, name, (0x0009, 0x1001), 6).unwrap();
            let mut src: &[u8] = &hdr;
            match d.decode_header(&mut src) {
                Ok((h, n)) => {
                    if h.vr().to_string() != name || n != hdr.len() || h.length().0 != 6 {
                        obs.fail("C03:adaptive decoder mis-reads VR code", format!("{name}: {:?} {n}", h.vr()));
                    }
                }
                Err(e) => obs.fail("C03:adaptive decoder rejects a defined VR code", format!("{name}: {e}")),
            }
        }
    }
}

#[derive(Clone, Debug, Serialize, Deserialize)]
pub struct ItemCase {
    ts: Ts,
    len: u32,
}

fn check_items(c: &ItemCase, obs: &mut Obs) {
    obs.nontrivial = true;
    let ts = c.ts;
    macro_rules! with_enc {
        ($f:expr) => {
            match ts {
                Ts::ImplicitLE => $f(&ImplicitVRLittleEndianEncoder::default() as &dyn DynEnc),
                Ts::ExplicitLE => $f(&ExplicitVRLittleEndianEncoder::default() as &dyn DynEnc),
                Ts::ExplicitBE => $f(&ExplicitVRBigEndianEncoder::default() as &dyn DynEnc),
            }
        };
    }
    trait DynEnc {
        fn item(&self, len: u32) -> Result<Vec<u8>, String>;
        fn item_delim(&self) -> Result<Vec<u8>, String>;
        fn seq_delim(&self) -> Result<Vec<u8>, String>;
    }
    impl<T: Encode> DynEnc for T {
        fn item(&self, len: u32) -> Result<Vec<u8>, String> {
            let mut o = vec![];
            self.encode_item_header(&mut o, len).map_err(|e| e.to_string())?;
            Ok(o)
        }
        fn item_delim(&self) -> Result<Vec<u8>, String> {
            let mut o = vec![];
            self.encode_item_delimiter(&mut o).map_err(|e| e.to_string())?;
            Ok(o)
        }
        fn seq_delim(&self) -> Result<Vec<u8>, String> {
            let mut o = vec![];
            self.encode_sequence_delimiter(&mut o).map_err(|e| e.to_string())?;
            Ok(o)
        }
    }
    let item = with_enc!(|e: &dyn DynEnc| e.item(c.len));
    let idel = with_enc!(|e: &dyn DynEnc| e.item_delim());
    let sdel = with_enc!(|e: &dyn DynEnc| e.seq_delim());
    let want_item = ds::item_header(ts, ds::ITEM, c.len);
    let want_idel = ds::item_header(ts, ds::ITEM_DELIM, 0);
    let want_sdel = ds::item_header(ts, ds::SEQ_DELIM, 0);
    for (name, got, want) in [("item", item, &want_item), ("item-delimiter", idel, &want_idel), ("sequence-delimiter", sdel, &want_sdel)] {
        obs.extra_evals += 1;
        match got {
            Ok(b) => {
                if b != *want {
                    obs.fail(format!("C03:{name} header layout differs:{ts:?}"), format!("len {:#x}: wrote {b:02x?}, layout {want:02x?}", c.len));
                }
            }
            Err(e) => obs.fail(format!("C03:{name} header rejected by encoder"), e),
        }
    }
    // decoding: decode_item_header and decode_header on the reference bytes
    fn dec_item(ts: Ts, b: &[u8]) -> Result<SequenceItemHeader, String> {
        let mut src = b;
        match ts {
            Ts::ImplicitLE => ImplicitVRLittleEndianDecoder::default().decode_item_header(&mut src),
            Ts::ExplicitLE => ExplicitVRLittleEndianDecoder::default().decode_item_header(&mut src),
            Ts::ExplicitBE => ExplicitVRBigEndianDecoder::default().decode_item_header(&mut src),
        }
        .map_err(|e| e.to_string())
    }
    match dec_item(ts, &want_item) {
        Ok(SequenceItemHeader::Item { len }) if len.0 == c.len => {}
        other => obs.fail(format!("C03:decode_item_header(item) differs:{ts:?}"), format!("len {:#x}: {other:?}", c.len)),
    }
    match dec_item(ts, &want_idel) {
        Ok(SequenceItemHeader::ItemDelimiter) => {}
        other => obs.fail(format!("C03:decode_item_header(item delimiter) differs:{ts:?}"), format!("{other:?}")),
    }
    match dec_item(ts, &want_sdel) {
        Ok(SequenceItemHeader::SequenceDelimiter) => {}
        other => obs.fail(format!("C03:decode_item_header(sequence delimiter) differs:{ts:?}"), format!("{other:?}")),
    }
    for (name, bytes, tag, len) in [("item", &want_item, ds::ITEM, c.len), ("item-delimiter", &want_idel, ds::ITEM_DELIM, 0), ("sequence-delimiter", &want_sdel, ds::SEQ_DELIM, 0)] {
        obs.extra_evals += 1;
        match dec_header(ts, bytes) {
            Ok((h, n)) => {
                if n != 8 || (h.tag().0, h.tag().1) != tag || h.length().0 != len {
                    obs.fail(format!("C03:decode_header on {name} header differs:{ts:?}"), format!("{:?} {:?} in {n} bytes", h.tag(), h.length()));
                }
            }
            Err(e) => obs.fail(format!("C03:decode_header rejects {name} header:{ts:?}"), e),
        }
    }
}

pub fn run(ctx: &Ctx) {
    let mut tags: Vec<(u16, u16)> = vec![(0, 0), (0x0008, 0x0005), (0x7FE0, 0x0010), (0xFFFF, 0xFFFF), (0x0009, 0x1001), (0x0010, 0x0020), (0x0002, 0x0010), (0xFFFD, 0xE000)];
    // eight pseudo-random tags derived from the seed (group FFFE excluded: it has no VR on the wire)
    let mut x = ctx.seed.wrapping_mul(0x9E37_79B9_7F4A_7C15).wrapping_add(0x1234_5678_9ABC_DEF1);
    for _ in 0..8 {
        x ^= x << 13;
        x ^= x >> 7;
        x ^= x << 17;
        let g = (x >> 16) as u16;
        let e = (x >> 40) as u16;
        if g != 0xFFFE {
            tags.push((g, e));
        }
    }
    let mut cases = vec![];
    for ts in Ts::ALL {
        for vr in ALL_VRS {
            cases.push(HdrCase { ts, vr: vr.to_string(), tags: tags.clone(), lens: LENS.to_vec() });
        }
    }
    ctx.run_enum(
        "element_headers",
        "exhaustive: 34 VRs x 3 syntaxes x 16 tags (boundary + seeded) x 12 boundary lengths; encoder output == PS3.5 §7.1 layout from the reference table, returned count == layout size, 16-bit form with length > 0xFFFF must be rejected; decoding the reference bytes (plain decoders and the adaptive decoder in explicit state) returns tag/VR/length/byte count; every (VR, syntax) cell is a distinct non-trivial case",
        cases,
        true,
        check_hdr,
    );
    ctx.run_enum(
        "vr_codes",
        "exhaustive: all 65 536 two-byte codes (256 rows of 256): VR::from_binary is Some exactly for the 34 defined codes and agrees with to_bytes; explicit LE/BE decoders and the adaptive decoder read defined codes with the right layout and never invent a VR for an undefined code",
        (0u16..256).map(|h| CodeCase { hi: h as u8 }).collect(),
        true,
        check_codes,
    );
    let mut items = vec![];
    for ts in Ts::ALL {
        for len in LENS {
            items.push(ItemCase { ts, len });
        }
    }
    ctx.run_enum(
        "item_headers",
        "exhaustive: 3 syntaxes x 12 boundary lengths: item, item delimiter, sequence delimiter headers are tag + 32-bit length; decode_item_header and decode_header read them back in 8 bytes",
        items,
        true,
        check_items,
    );
}
