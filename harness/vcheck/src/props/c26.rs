//! C26 — P-DATA fragmentation and reassembly preserve the message under any schedule.
use crate::engine::{Ctx, Obs};
use bytes::BytesMut;
use dicom_ul::association::{AsyncPDataWriter, PDataReader, PDataWriter};
use proptest::prelude::*;
use refimpl::pdu::{self as rp, PduIr, Pdv};
use serde::{Deserialize, Serialize};
use std::future::Future;
use std::io::{Read, Write};
use std::pin::Pin;
use std::sync::OnceLock;
use std::task::{Context, Poll, RawWaker, RawWakerVTable, Waker};
use tokio::io::{AsyncRead, AsyncWrite, ReadBuf};

pub fn runtime() -> &'static tokio::runtime::Runtime {
    static RT: OnceLock<tokio::runtime::Runtime> = OnceLock::new();
    RT.get_or_init(|| tokio::runtime::Builder::new_multi_thread().worker_threads(2).enable_all().build().unwrap())
}

pub fn noop_waker() -> Waker {
    fn clone(_: *const ()) -> RawWaker {
        RawWaker::new(std::ptr::null(), &VT)
    }
    fn noop(_: *const ()) {}
    static VT: RawWakerVTable = RawWakerVTable::new(clone, noop, noop, noop);
    unsafe { Waker::from_raw(RawWaker::new(std::ptr::null(), &VT)) }
}

pub fn payload(len: u32, seed: u8) -> Vec<u8> {
    let mut x: u32 = 0x9E37_79B9 ^ (seed as u32) << 8 ^ len;
    (0..len)
        .map(|_| {
            x = x.wrapping_mul(1_664_525).wrapping_add(1_013_904_223);
            (x >> 24) as u8
        })
        .collect()
}

#[derive(Clone, Debug, Serialize, Deserialize, PartialEq)]
pub enum Ev {
    /// accept at most n bytes (0 = the transport reports a zero-length write)
    Ready(u32),
    All,
    Pending,
}

#[derive(Clone, Debug, Serialize, Deserialize)]
pub struct WCase {
    pub max: u32,
    pub len: u32,
    pub seed: u8,
    pub pc_id: u8,
    /// cut points of the caller's writes (sorted, within 0..=len)
    pub cuts: Vec<u32>,
    /// transport script for the asynchronous writer (then everything is accepted)
    pub script: Vec<Ev>,
}

/// the emitted bytes must be a sequence of P-DATA-TF PDUs carrying the payload
fn check_stream(bytes: &[u8], max: u32, pc_id: u8, want: &[u8]) -> Result<usize, (String, String)> {
    let mut pos = 0;
    let mut got = vec![];
    let mut n = 0;
    let mut seen_last = false;
    while pos < bytes.len() {
        let (p, used) = rp::parse(&bytes[pos..]).map_err(|e| ("emitted bytes are not well-formed PDUs".to_string(), format!("at offset {pos}: {e}")))?;
        let body = used - 6;
        if body as u64 > max as u64 {
            return Err(("PDU length exceeds the maximum".into(), format!("PDU #{n}: length {body} > max {max}")));
        }
        match p {
            PduIr::PData { pdvs } => {
                if pdvs.len() != 1 {
                    return Err(("PDU does not carry exactly one value".into(), format!("PDU #{n}: {} PDVs", pdvs.len())));
                }
                let v = &pdvs[0];
                if v.pc_id != pc_id {
                    return Err(("wrong presentation context id".into(), format!("PDU #{n}: {} want {pc_id}", v.pc_id)));
                }
                if v.command {
                    return Err(("value flagged as command".into(), format!("PDU #{n}")));
                }
                if seen_last {
                    return Err(("PDU after the one marked last".into(), format!("PDU #{n}")));
                }
                seen_last = v.last;
                got.extend_from_slice(&v.data);
            }
            other => return Err(("non P-DATA PDU emitted".into(), format!("PDU #{n}: {other:?}").chars().take(200).collect())),
        }
        pos += used;
        n += 1;
    }
    if !seen_last {
        return Err(("no PDU marked last".into(), format!("{n} PDUs")));
    }
    if got != want {
        let off = got.iter().zip(want).position(|(a, b)| a != b).unwrap_or(got.len().min(want.len()));
        return Err(("payloads do not concatenate to the input".into(), format!("{} bytes emitted for {} bytes written; first difference at {off}", got.len(), want.len())));
    }
    Ok(n)
}

fn chunks<'a>(data: &'a [u8], cuts: &[u32]) -> Vec<&'a [u8]> {
    let mut c: Vec<usize> = cuts.iter().map(|x| (*x as usize).min(data.len())).collect();
    c.sort();
    c.dedup();
    let mut out = vec![];
    let mut prev = 0;
    for x in c {
        if x > prev {
            out.push(&data[prev..x]);
            prev = x;
        }
    }
    if prev < data.len() || out.is_empty() {
        out.push(&data[prev..]);
    }
    out
}

/// scripted transport for the asynchronous writer
struct ScriptedSink {
    out: Vec<u8>,
    script: std::collections::VecDeque<Ev>,
}
impl AsyncWrite for ScriptedSink {
    fn poll_write(mut self: Pin<&mut Self>, cx: &mut Context<'_>, buf: &[u8]) -> Poll<std::io::Result<usize>> {
        match self.script.pop_front() {
            Some(Ev::Pending) => {
                // a real executor (the writer's Drop uses one) must be told to poll again
                cx.waker().wake_by_ref();
                Poll::Pending
            }
            Some(Ev::Ready(n)) => {
                let n = (n as usize).min(buf.len());
                self.out.extend_from_slice(&buf[..n]);
                Poll::Ready(Ok(n))
            }
            Some(Ev::All) | None => {
                self.out.extend_from_slice(buf);
                Poll::Ready(Ok(buf.len()))
            }
        }
    }
    fn poll_flush(self: Pin<&mut Self>, _cx: &mut Context<'_>) -> Poll<std::io::Result<()>> {
        Poll::Ready(Ok(()))
    }
    fn poll_shutdown(self: Pin<&mut Self>, _cx: &mut Context<'_>) -> Poll<std::io::Result<()>> {
        Poll::Ready(Ok(()))
    }
}

fn poll_ready<F: Future>(mut f: Pin<&mut F>, cx: &mut Context<'_>) -> F::Output {
    // the scripted transports return Pending only a bounded number of times: poll until ready
    for _ in 0..100_000 {
        if let Poll::Ready(v) = f.as_mut().poll(cx) {
            return v;
        }
    }
    panic!("future never became ready under the scripted transport");
}

fn run_async_writer(c: &WCase, data: &[u8]) -> (Vec<u8>, Result<(), String>) {
    let _g = runtime().enter();
    let waker = noop_waker();
    let mut cx = Context::from_waker(&waker);
    let mut sink = ScriptedSink { out: vec![], script: c.script.iter().cloned().collect() };
    let res = {
        let mut w = AsyncPDataWriter::verif_new(&mut sink, c.pc_id, c.max);
        let mut res = Ok(());
        'outer: for ch in chunks(data, &c.cuts) {
            // write_all: re-poll with the same buffer after Pending, advance after Ready(n)
            let mut rest = ch;
            let mut guard = 0;
            while !rest.is_empty() {
                guard += 1;
                if guard > 1_000_000 {
                    res = Err("write_all does not make progress".to_string());
                    break 'outer;
                }
                match Pin::new(&mut w).poll_write(&mut cx, rest) {
                    Poll::Pending => continue,
                    Poll::Ready(Ok(0)) => {
                        res = Err("WriteZero: poll_write returned Ok(0) for a non-empty buffer".to_string());
                        break 'outer;
                    }
                    Poll::Ready(Ok(n)) => rest = &rest[n..],
                    Poll::Ready(Err(e)) => {
                        res = Err(format!("{:?}: {e}", e.kind()));
                        break 'outer;
                    }
                }
            }
        }
        if res.is_ok() {
            let fut = w.finish();
            tokio::pin!(fut);
            res = poll_ready(fut, &mut cx).map_err(|e| format!("finish: {:?}: {e}", e.kind()));
        } else {
            // cancelled mid-flight: dropping runs finish_impl inside the runtime context
            drop(w);
        }
        res
    };
    (sink.out, res)
}

fn check_writer(c: &WCase, obs: &mut Obs) {
    let data = payload(c.len, c.seed);
    let cap = c.max - 6;
    obs.nontrivial = c.len > cap || c.cuts.len() > 1;
    obs.class(format!("max:{}", if c.max <= 1024 { c.max.to_string() } else { ">1024".into() }));
    obs.class(format!("pdus-needed:{}", (c.len as u64).div_ceil(cap as u64).min(4)));
    // synchronous writer
    let mut sync_out = vec![];
    let sync_res: Result<(), String> = {
        let mut w = PDataWriter::verif_new(&mut sync_out, c.pc_id, c.max);
        let mut r = Ok(());
        for ch in chunks(&data, &c.cuts) {
            if let Err(e) = w.write_all(ch) {
                r = Err(format!("write_all: {:?}: {e}", e.kind()));
                break;
            }
        }
        if r.is_ok() {
            r = w.finish().map_err(|e| format!("finish: {e}"));
        }
        r
    };
    let cutdesc = || {
        let cs = chunks(&data, &c.cuts);
        format!("max {} (capacity {cap}), payload {} bytes, writes {:?}", c.max, c.len, cs.iter().map(|x| x.len()).collect::<Vec<_>>())
    };
    // classify where the writes end relative to the per-PDU capacity
    let mut acc = 0u64;
    let mut ends_at_capacity = false;
    let cs = chunks(&data, &c.cuts);
    for (i, ch) in cs.iter().enumerate() {
        acc += ch.len() as u64;
        if acc % cap as u64 == 0 && acc > 0 && i + 1 < cs.len() {
            ends_at_capacity = true;
        }
    }
    if ends_at_capacity {
        obs.class("a-write-ends-exactly-at-capacity");
    }
    match &sync_res {
        Err(e) => obs.fail(
            format!("C26:sync writer fails on a reliable transport:{}", if ends_at_capacity { "write-ends-at-capacity" } else { "other" }),
            format!("{e}; {}", cutdesc()),
        ),
        Ok(()) => {
            if let Err((k, d)) = check_stream(&sync_out, c.max, c.pc_id, &data) {
                obs.fail(format!("C26:sync writer: {k}"), format!("{d}; {}", cutdesc()));
            }
        }
    }
    // asynchronous writer under the transport script
    let has_zero = c.script.contains(&Ev::Ready(0));
    let (async_out, async_res) = run_async_writer(c, &data);
    obs.extra_evals += 1;
    if has_zero {
        obs.class("script-has-zero-write");
    }
    match (&async_res, &sync_res) {
        (Ok(()), Ok(())) => {
            if async_out != sync_out {
                let off = async_out.iter().zip(&sync_out).position(|(a, b)| a != b).unwrap_or(async_out.len().min(sync_out.len()));
                obs.fail(
                    "C26:async writer output differs from the sync writer's",
                    format!("first difference at {off} ({} vs {} bytes); script {:?}; {}", async_out.len(), sync_out.len(), c.script, cutdesc()),
                );
            }
        }
        (Err(e), _) => {
            // an error is legitimate only when the transport reported a zero-length write that was actually reached
            if !(has_zero && e.contains("WriteZero")) {
                obs.fail(
                    format!("C26:async writer fails although the transport never failed:{}", if ends_at_capacity { "write-ends-at-capacity" } else { "other" }),
                    format!("{e}; script {:?}; {}", c.script, cutdesc()),
                );
            }
        }
        (Ok(()), Err(_)) => {
            if let Err((k, d)) = check_stream(&async_out, c.max, c.pc_id, &data) {
                obs.fail(format!("C26:async writer: {k}"), format!("{d}; script {:?}; {}", c.script, cutdesc()));
            }
        }
    }
}

// ------------------------------------------------------------------------------------------
// reader

#[derive(Clone, Debug, Serialize, Deserialize)]
pub struct RCase {
    pub max: u32,
    pub seed: u8,
    /// sizes of the PDV payloads, grouped per PDU
    pub pdus: Vec<Vec<u32>>,
    pub pc_id: u8,
    /// chunk sizes delivered by the transport (cycled); 0 = Pending for the async reader / skipped for sync
    pub deliver: Vec<u32>,
    /// bytes following the message on the same connection (they belong to the next receive)
    pub following: Vec<u8>,
    /// size of the caller's read buffer
    pub read_buf: u32,
}

struct ScriptedSource {
    data: Vec<u8>,
    pos: usize,
    deliver: Vec<u32>,
    k: usize,
}
impl ScriptedSource {
    fn next_len(&mut self) -> usize {
        if self.deliver.is_empty() {
            return usize::MAX;
        }
        let n = self.deliver[self.k % self.deliver.len()];
        self.k += 1;
        n as usize
    }
}
impl Read for ScriptedSource {
    fn read(&mut self, buf: &mut [u8]) -> std::io::Result<usize> {
        let mut n = self.next_len();
        while n == 0 {
            n = self.next_len();
        }
        let n = n.min(buf.len()).min(self.data.len() - self.pos);
        buf[..n].copy_from_slice(&self.data[self.pos..self.pos + n]);
        self.pos += n;
        Ok(n)
    }
}
impl AsyncRead for ScriptedSource {
    fn poll_read(mut self: Pin<&mut Self>, cx: &mut Context<'_>, buf: &mut ReadBuf<'_>) -> Poll<std::io::Result<()>> {
        let n = self.next_len();
        if n == 0 {
            cx.waker().wake_by_ref();
            return Poll::Pending;
        }
        let n = n.min(buf.remaining()).min(self.data.len() - self.pos);
        let p = self.pos;
        buf.put_slice(&self.data[p..p + n]);
        self.pos += n;
        Poll::Ready(Ok(()))
    }
}

fn check_reader(c: &RCase, obs: &mut Obs) {
    // build the wire stream with the reference encoder
    let total: u32 = c.pdus.iter().flatten().sum();
    let data = payload(total, c.seed);
    let mut stream = vec![];
    let mut off = 0usize;
    let npdus = c.pdus.len();
    for (i, pdu) in c.pdus.iter().enumerate() {
        let mut pdvs = vec![];
        for (j, l) in pdu.iter().enumerate() {
            let last = i + 1 == npdus && j + 1 == pdu.len();
            pdvs.push(Pdv { pc_id: c.pc_id, command: false, last, data: data[off..off + *l as usize].to_vec() });
            off += *l as usize;
        }
        stream.extend(rp::encode(&PduIr::PData { pdvs }).unwrap());
    }
    let msg_len = stream.len();
    stream.extend_from_slice(&c.following);
    obs.nontrivial = npdus >= 2 || c.deliver.iter().any(|d| *d > 0 && (*d as usize) < msg_len);
    obs.class(format!("pdus:{}", npdus.min(4)));
    if c.deliver.iter().all(|d| *d == 1) && !c.deliver.is_empty() {
        obs.class("one-byte-reads");
    }

    for is_async in [false, true] {
        obs.extra_evals += 1;
        let mut src = ScriptedSource { data: stream.clone(), pos: 0, deliver: c.deliver.clone(), k: 0 };
        let mut shared = BytesMut::new();
        let mut got = vec![];
        let res: Result<(), String> = if !is_async {
            let mut r = PDataReader::new(&mut src, c.max, &mut shared);
            let mut buf = vec![0u8; c.read_buf.max(1) as usize];
            loop {
                match Read::read(&mut r, &mut buf) {
                    Ok(0) => break Ok(()),
                    Ok(n) => got.extend_from_slice(&buf[..n]),
                    Err(e) => break Err(format!("{:?}: {e}", e.kind())),
                }
                if got.len() > data.len() + 16 {
                    break Err("reader returns more bytes than the message holds".into());
                }
            }
        } else {
            let waker = noop_waker();
            let mut cx = Context::from_waker(&waker);
            let mut r = PDataReader::new(&mut src, c.max, &mut shared);
            let mut buf = vec![0u8; c.read_buf.max(1) as usize];
            let mut guard = 0u32;
            loop {
                guard += 1;
                if guard > 5_000_000 {
                    break Err("async reader does not make progress".into());
                }
                let mut rb = ReadBuf::new(&mut buf);
                match Pin::new(&mut r).poll_read(&mut cx, &mut rb) {
                    Poll::Pending => continue,
                    Poll::Ready(Ok(())) => {
                        let f = rb.filled();
                        if f.is_empty() {
                            break Ok(());
                        }
                        got.extend_from_slice(f);
                    }
                    Poll::Ready(Err(e)) => break Err(format!("{:?}: {e}", e.kind())),
                }
                if got.len() > data.len() + 16 {
                    break Err("reader returns more bytes than the message holds".into());
                }
            }
        };
        let which = if is_async { "async" } else { "sync" };
        match res {
            Err(e) => obs.fail(format!("C26:{which} reader fails on a well-formed stream"), format!("{e}; PDUs {:?}, deliver {:?}", c.pdus, c.deliver)),
            Ok(()) => {
                if got != data {
                    obs.fail(
                        format!("C26:{which} reader returns a different payload"),
                        format!("{} bytes for {}; PDUs {:?}, deliver {:?}, read buffer {}", got.len(), data.len(), c.pdus, c.deliver, c.read_buf),
                    );
                }
                // what follows the message stays available: shared buffer + what the source still holds
                let mut rest = shared.to_vec();
                rest.extend_from_slice(&src.data[src.pos..]);
                if rest != c.following {
                    obs.fail(
                        format!("C26:{which} reader does not leave the following bytes for the next receive"),
                        format!("{} bytes left, {} expected; deliver {:?}", rest.len(), c.following.len(), c.deliver),
                    );
                }
            }
        }
    }
}

pub fn run(ctx: &Ctx) {
    ctx.assume("hook verif-hooks: PDataWriter::verif_new / AsyncPDataWriter::verif_new (the constructors are crate-private); maximum lengths below the protocol minimum 1018 are outside the domain");
    // ---- exhaustive small space (writers)
    let mut small = vec![];
    for max in [1018u32, 1019, 1020, 1024] {
        let c = max - 6;
        let lens = [0, 1, c - 1, c, c + 1, 2 * c - 1, 2 * c, 2 * c + 1, 3 * c + 1];
        for len in lens {
            let mut pts: Vec<u32> = vec![0, 1, c - 1, c, c + 1, 2 * c - 1, 2 * c, 2 * c + 1, len.saturating_sub(1), len];
            pts.retain(|p| *p <= len);
            pts.sort();
            pts.dedup();
            // all chunkings into at most 4 writes: choose up to 3 interior cut points
            let n = pts.len();
            let mut cutsets: Vec<Vec<u32>> = vec![vec![]];
            for i in 0..n {
                cutsets.push(vec![pts[i]]);
                for j in i + 1..n {
                    cutsets.push(vec![pts[i], pts[j]]);
                    for k in j + 1..n {
                        cutsets.push(vec![pts[i], pts[j], pts[k]]);
                    }
                }
            }
            for cuts in cutsets {
                small.push(WCase { max, len, seed: 7, pc_id: 1, cuts, script: vec![] });
            }
        }
    }
    ctx.run_enum(
        "writers_exhaustive_chunkings",
        "exhaustive: max PDU length in {1018 (minimum), 1019, 1020, 1024}, capacity c = max-6, payload length in {0, 1, c-1, c, c+1, 2c-1, 2c, 2c+1, 3c+1}, all chunkings into <= 4 writes with cut points from {0, 1, c-1, c, c+1, 2c-1, 2c, 2c+1, len-1, len}; sync and async writer (reliable transport): emitted bytes parse as P-DATA-TF PDUs (reference parser), each PDU length <= max, one PDV each with the context id, only the last flagged last, payloads concatenate to the input; async == sync",
        small,
        true,
        check_writer,
    );
    // ---- exhaustive transport scripts up to 6 events for two boundary configurations
    let evs = [Ev::Ready(1), Ev::Ready(500), Ev::All, Ev::Pending];
    let mut scripts: Vec<Vec<Ev>> = vec![vec![]];
    let mut frontier: Vec<Vec<Ev>> = vec![vec![]];
    for _ in 0..6 {
        let mut next = vec![];
        for s in &frontier {
            for e in &evs {
                let mut t = s.clone();
                t.push(e.clone());
                next.push(t);
            }
        }
        scripts.extend(next.iter().cloned());
        frontier = next;
    }
    let mut sc = vec![];
    for (len, cuts) in [(1013u32, vec![]), (2025u32, vec![1012u32]), (1012, vec![5])] {
        for s in &scripts {
            sc.push(WCase { max: 1018, len, seed: 3, pc_id: 5, cuts: cuts.clone(), script: s.clone() });
        }
    }
    ctx.run_enum(
        "async_writer_exhaustive_scripts",
        "exhaustive: all transport scripts of up to 6 events from {Ready(1), Ready(500), Ready(all), Pending} (5461 scripts) for three boundary configurations at the minimum PDU length (payload c+1 in one write; 2c+1 cut at c; c cut at 5); the harness polls manually (Pending is followed by an immediate re-poll with the same buffer, as write_all does): async output must equal the sync writer's bytes",
        sc,
        true,
        check_writer,
    );
    // ---- random beyond the bound
    ctx.run_prop(
        "writers_random",
        "random: max PDU length 1018..128 KiB, payload 0..300 KiB, 0-6 random cut points (biased to multiples of the capacity +-1), transport scripts of 0-12 events incl. Ready(0) (zero-length write => WriteZero expected when reached); same oracle; non-trivial = payload needs > 1 PDU or > 1 write",
        || {
            (prop_oneof![3 => 1018u32..1100, 2 => 1100u32..20_000, 1 => 20_000u32..131_072], any::<u8>(), 1u8..=255)
                .prop_flat_map(|(max, seed, pc_id)| {
                    let c = max - 6;
                    let len = prop_oneof![
                        3 => 0u32..(3 * c + 2),
                        2 => (0u32..4, 0u32..3).prop_map(move |(k, d)| (k * c + d).saturating_sub(1)),
                        1 => 0u32..300_000,
                    ];
                    (Just(max), Just(seed), Just(pc_id), len)
                })
                .prop_flat_map(|(max, seed, pc_id, len)| {
                    let c = max - 6;
                    let cut = prop_oneof![2 => 0u32..=len.max(1), 2 => (0u32..5, 0u32..3).prop_map(move |(k, d)| (k * c + d).saturating_sub(1))];
                    let ev = prop_oneof![3 => (1u32..2000).prop_map(Ev::Ready), 2 => Just(Ev::All), 2 => Just(Ev::Pending), 1 => Just(Ev::Ready(1)), 1 => Just(Ev::Ready(0))];
                    (Just(max), Just(seed), Just(pc_id), Just(len), proptest::collection::vec(cut, 0..7), proptest::collection::vec(ev, 0..13))
                })
                .prop_map(|(max, seed, pc_id, len, cuts, script)| WCase { max, len, seed, pc_id, cuts, script })
                .boxed()
        },
        ctx.cases(20_000, 400_000),
        check_writer,
    );
    // ---- readers
    ctx.run_prop(
        "readers",
        "a message of 1-5 P-DATA PDUs (1-3 PDVs each, 0-3000 bytes, reference-encoded), followed by 0-40 bytes that belong to the next receive, delivered by a scripted Read / AsyncRead in chunks cycling through 1-6 sizes (1-byte reads, whole stream, Pending for async); caller buffer 1-5000 bytes; oracle: reader returns exactly the concatenated payload then EOF, and shared buffer + unread source bytes == the following bytes; sync and async; non-trivial = >= 2 PDUs or a split delivery",
        || {
            (
                1018u32..70_000,
                any::<u8>(),
                proptest::collection::vec(proptest::collection::vec(prop_oneof![3 => 0u32..40, 2 => 0u32..3000], 1..4), 1..6),
                1u8..=255,
                prop_oneof![
                    1 => Just(vec![1u32]),
                    1 => Just(vec![]),
                    4 => proptest::collection::vec(prop_oneof![3 => 1u32..20, 2 => 20u32..4000, 1 => Just(0u32)], 1..7),
                ],
                proptest::collection::vec(any::<u8>(), 0..40),
                prop_oneof![Just(1u32), 1u32..64, 64u32..5000],
            )
                .prop_map(|(max, seed, pdus, pc_id, mut deliver, following, read_buf)| {
                    if deliver.iter().all(|d| *d == 0) {
                        deliver.push(7);
                    }
                    RCase { max, seed, pdus, pc_id, deliver, following, read_buf }
                })
                .boxed()
        },
        ctx.cases(15_000, 300_000),
        check_reader,
    );
}
