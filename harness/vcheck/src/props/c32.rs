//! C32 — the storage SCP stores exactly what it receives, only in its output directory.
use crate::engine::{Ctx, Obs};
use crate::gen::{self, DsCfg};
use crate::ulpeer::{self, RawPeer, Recv};
use proptest::prelude::*;
use refimpl::ds::{self, Elem, LenMode, PElem, PVal, ParseOpts, Ts, Val};
use refimpl::pdu::{PcProposed, PduIr};
use serde::{Deserialize, Serialize};
use std::io::Write;
use std::net::TcpStream;
use std::path::PathBuf;
use std::time::Duration;

const SOP_CLASSES: [&str; 4] = ["1.2.840.10008.5.1.4.1.1.2", "1.2.840.10008.5.1.4.1.1.4", "1.2.840.10008.5.1.4.1.1.7", "1.2.840.10008.5.1.4.1.1.88.11"];

#[derive(Clone, Debug, Serialize, Deserialize)]
pub enum UidText {
    Plain(String),
    /// `../` repeated n times, then a name
    Parent(u8, String),
    /// a relative path with directories
    Nested(String),
    /// an absolute path (placed inside the sandbox, outside the output directory)
    Absolute(String),
    Dots(u8),
    Backslash(String),
}

#[derive(Clone, Debug, Serialize, Deserialize)]
pub struct Store {
    pub sop_class: u8,
    pub affected_instance: UidText,
    /// SOP Instance UID inside the data set
    pub ds_instance: String,
    /// 0 implicit LE, 1 explicit LE, 2 explicit BE, 3 deflated explicit LE
    pub ts: u8,
    pub elems: Vec<Elem>,
    pub cuts: Vec<u16>,
    /// finish the data with a zero-length last fragment (what a streaming sender does when the
    /// data ends exactly at a PDU boundary)
    #[serde(default)]
    pub empty_last: bool,
}

#[derive(Clone, Debug, Serialize, Deserialize)]
pub struct Case {
    pub non_blocking: bool,
    pub stores: Vec<Store>,
}

fn ts_of(i: u8) -> (Ts, &'static str, bool) {
    match i % 4 {
        0 => (Ts::ImplicitLE, "1.2.840.10008.1.2", false),
        1 => (Ts::ExplicitLE, "1.2.840.10008.1.2.1", false),
        2 => (Ts::ExplicitBE, "1.2.840.10008.1.2.2", false),
        _ => (Ts::ExplicitLE, "1.2.840.10008.1.2.1.99", true),
    }
}

fn uid_text(u: &UidText, sandbox: &std::path::Path) -> String {
    match u {
        UidText::Plain(s) => s.clone(),
        // (a distinct suffix per kind keeps sanitised names of different kinds apart)
        UidText::Parent(n, s) => format!("{}{s}p", "../".repeat(*n as usize % 4 + 1)),
        UidText::Nested(s) => format!("{s}n"),
        UidText::Absolute(s) => format!("{}/{s}a", sandbox.display()),
        UidText::Dots(n) => ".".repeat(*n as usize % 3 + 1),
        UidText::Backslash(s) => format!("..\\{s}b"),
    }
}

/// the data set as sent: generated elements plus SOP Class / Instance UID
fn dataset(st: &Store) -> Vec<Elem> {
    // no command / meta groups, no character set switch, and the two UIDs are set below
    let mut v: Vec<Elem> = st.elems.iter().filter(|e| e.g >= 8 && !(e.g == 8 && (e.e == 0x05 || e.e == 0x16 || e.e == 0x18))).cloned().collect();
    v.push(Elem { g: 8, e: 0x16, vr: "UI".into(), v: Val::Strs(vec![SOP_CLASSES[st.sop_class as usize % 4].into()]) });
    v.push(Elem { g: 8, e: 0x18, vr: "UI".into(), v: Val::Strs(vec![st.ds_instance.clone()]) });
    v.sort_by_key(|e| (e.g, e.e));
    v.dedup_by_key(|e| (e.g, e.e));
    v
}

fn trimmed(b: &[u8]) -> &[u8] {
    let mut e = b.len();
    while e > 0 && (b[e - 1] == 0 || b[e - 1] == b' ') {
        e -= 1;
    }
    &b[..e]
}

/// structural equality of two parsed data sets (tags, nesting, value bytes up to trailing padding)
fn same(a: &[PElem], b: &[PElem], path: &str) -> Result<(), String> {
    if a.len() != b.len() {
        return Err(format!("{path}: {} elements vs {} sent ({:?} vs {:?})", a.len(), b.len(), a.iter().map(|e| e.tag).collect::<Vec<_>>(), b.iter().map(|e| e.tag).collect::<Vec<_>>()));
    }
    for (x, y) in a.iter().zip(b) {
        if x.tag != y.tag {
            return Err(format!("{path}: tag ({:04X},{:04X}) vs ({:04X},{:04X})", x.tag.0, x.tag.1, y.tag.0, y.tag.1));
        }
        let p = format!("{path}/({:04X},{:04X})", x.tag.0, x.tag.1);
        match (&x.value, &y.value) {
            (PVal::Bytes(m), PVal::Bytes(n)) => {
                if trimmed(m) != trimmed(n) {
                    return Err(format!("{p}: value of {} bytes vs {} sent", m.len(), n.len()));
                }
            }
            (PVal::Seq(m), PVal::Seq(n)) => {
                if m.len() != n.len() {
                    return Err(format!("{p}: {} items vs {}", m.len(), n.len()));
                }
                for (i, (u, v)) in m.iter().zip(n).enumerate() {
                    same(&u.elems, &v.elems, &format!("{p}[{i}]"))?;
                }
            }
            (PVal::Pix { bot: b1, frags: f1, .. }, PVal::Pix { bot: b2, frags: f2, .. }) => {
                if b1 != b2 || f1 != f2 {
                    return Err(format!("{p}: pixel fragments differ"));
                }
            }
            _ => return Err(format!("{p}: value kinds differ")),
        }
    }
    Ok(())
}

fn inflate(b: &[u8]) -> Option<Vec<u8>> {
    use std::io::Read;
    let mut out = vec![];
    flate2::read::DeflateDecoder::new(b).read_to_end(&mut out).ok()?;
    Some(out)
}

fn check(ctx_root: &std::path::Path, c: &Case, obs: &mut Obs) {
    let started = ulpeer::thread_storescp(ctx_root, c.non_blocking);
    let (port, sandbox) = match started {
        Ok(x) => x,
        Err(e) => {
            obs.fail("HARNESS-PANIC@c32:cannot start dicom-storescp", e);
            return;
        }
    };
    let out_dir = sandbox.join(ulpeer::OUT_REL);
    // clean the sandbox (keep the log files at its top level)
    for f in ulpeer::files_below(&sandbox) {
        if f.parent().map(|p| p.as_os_str().is_empty()).unwrap_or(true) && f.extension().map(|e| e == "log").unwrap_or(false) {
            continue;
        }
        let _ = std::fs::remove_file(sandbox.join(&f));
    }
    obs.class(if c.non_blocking { "non-blocking" } else { "sync" });
    let t = Duration::from_secs(10);
    let pcs: Vec<PcProposed> = c.stores.iter().enumerate().map(|(i, st)| PcProposed { id: (2 * i + 1) as u8, abstract_syntax: SOP_CLASSES[st.sop_class as usize % 4].into(), transfer_syntaxes: vec![ts_of(st.ts).1.into()] }).collect();
    // associate (one retry: a connection may be lost while the tool is still starting up)
    let mut attempt = 0;
    let (mut peer, accepted, peer_max) = loop {
        attempt += 1;
        let sock = match TcpStream::connect(("127.0.0.1", port)) {
            Ok(s) => s,
            Err(e) => {
                ulpeer::thread_storescp_reset(c.non_blocking);
                obs.skip(format!("cannot connect to storescp: {e}"));
                return;
            }
        };
        let mut peer = RawPeer::new(sock);
        if peer.send(&ulpeer::assoc_rq("STORE-SCP", "VERIF-SCU", pcs.clone(), 16384)).is_err() {
            obs.skip("cannot send the association request");
            return;
        }
        match peer.recv(t) {
            Recv::Pdu(PduIr::AssocAc { pcs, user, .. }) => {
                let max = user.iter().find_map(|u| if let refimpl::pdu::UserItem::MaxLength(n) = u { Some(*n) } else { None }).unwrap_or(16384);
                break (peer, pcs, if max == 0 { 65536 } else { max });
            }
            Recv::Eof | Recv::IoError(_) if attempt == 1 => continue,
            other => {
                obs.fail("C32:storescp does not accept a plain storage association", format!("{other:?}").chars().take(300).collect::<String>());
                return;
            }
        }
    };
    let mut expected: Vec<(String, String, Vec<u8>, Ts, String, std::collections::HashSet<(u16, u16)>)> = vec![]; // (ts uid, ds instance uid, sent data set bytes (not deflated), ts, affected text)
    let mut traversal = false;
    for (i, st) in c.stores.iter().enumerate() {
        let id = (2 * i + 1) as u8;
        let acc = accepted.iter().find(|p| p.id == id);
        if acc.map(|p| p.reason != 0).unwrap_or(true) {
            obs.fail("C32:storescp refuses a storage context with a native transfer syntax", format!("context {id}: {acc:?}"));
            return;
        }
        let (rts, ts_uid, defl) = ts_of(st.ts);
        let affected = uid_text(&st.affected_instance, &sandbox);
        match &st.affected_instance {
            UidText::Plain(_) => {}
            UidText::Parent(..) => {
                traversal = true;
                obs.class("uid:parent-reference")
            }
            UidText::Nested(_) => {
                traversal = true;
                obs.class("uid:path-separator")
            }
            UidText::Absolute(_) => {
                traversal = true;
                obs.class("uid:absolute-path")
            }
            UidText::Dots(_) => obs.class("uid:dots"),
            UidText::Backslash(_) => obs.class("uid:backslash"),
        }
        let elems = dataset(st);
        let raw = ds::encode_ds(&elems, rts, LenMode::AsFlagged);
        let wire = if defl {
            let mut e = flate2::write::DeflateEncoder::new(Vec::new(), flate2::Compression::fast());
            let _ = e.write_all(&raw);
            e.finish().unwrap_or_default()
        } else {
            raw.clone()
        };
        let cmd = ulpeer::cstore_rq(SOP_CLASSES[st.sop_class as usize % 4], &affected, (i + 1) as u16);
        // the command set goes in one fragment (the statement quantifies over fragmented data only)
        let mut pdus = ulpeer::pdata_pdus(id, true, &cmd, peer_max, &[]);
        let mut data_pdus = ulpeer::pdata_pdus(id, false, &wire, peer_max, &st.cuts);
        if st.empty_last {
            obs.class("zero-length-last-fragment");
            if let Some(PduIr::PData { pdvs }) = data_pdus.last_mut() {
                pdvs[0].last = false;
            }
            data_pdus.push(PduIr::PData { pdvs: vec![refimpl::pdu::Pdv { pc_id: id, command: false, last: true, data: vec![] }] });
        }
        pdus.extend(data_pdus);
        if pdus.len() > 3 {
            obs.class("data-in-several-fragments");
        }
        for p in &pdus {
            if let Err(e) = peer.send(p) {
                obs.fail("C32:connection lost while sending a store request", e);
                return;
            }
        }
        // the response
        match peer.recv(t) {
            Recv::Pdu(PduIr::PData { pdvs }) => {
                let cmdb: Vec<u8> = pdvs.iter().filter(|v| v.command).flat_map(|v| v.data.clone()).collect();
                let opts = ParseOpts { ts: Ts::ImplicitLE, sq_tags: None, require_even: false, require_ascending: false };
                let status = ds::parse_strict(&cmdb, &opts).ok().and_then(|p| {
                    p.iter().find(|e| e.tag == (0, 0x0900)).and_then(|e| if let PVal::Bytes(b) = &e.value { Some(u16::from_le_bytes([*b.first()?, *b.get(1)?])) } else { None })
                });
                match status {
                    Some(0) => expected.push((ts_uid.to_string(), st.ds_instance.clone(), raw, rts, affected, ds::sq_tags(&elems))),
                    Some(s) => obs.class(format!("store-status:{s:#06x}")),
                    None => {
                        obs.fail("C32:store response without a status", format!("{} command bytes", cmdb.len()));
                        return;
                    }
                }
            }
            Recv::Eof | Recv::Pdu(PduIr::Abort { .. }) => {
                // the SCP gave up on this request: acceptable for a UID it cannot store, not for a plain one
                obs.class("association-dropped-by-scp");
                if matches!(st.affected_instance, UidText::Plain(_)) {
                    let tail = ulpeer::thread_storescp_log_tail(c.non_blocking, 3);
                    obs.fail("C32:storescp drops a well-formed store request", format!("affected UID {affected:?}, {ts_uid}; log: {tail}"));
                    return;
                }
                break;
            }
            other => {
                obs.fail("C32:unexpected answer to a store request", format!("{other:?}").chars().take(300).collect::<String>());
                return;
            }
        }
    }
    // release
    if peer.send(&PduIr::ReleaseRq).is_ok() {
        match peer.recv(t) {
            Recv::Pdu(PduIr::ReleaseRp) | Recv::Eof => {}
            Recv::Pdu(PduIr::Abort { .. }) => {}
            other => obs.fail("C32:storescp does not answer a release request with a release reply", format!("{other:?}").chars().take(200).collect::<String>()),
        }
    }
    drop(peer);
    // give an asynchronous task the time to finish writing
    std::thread::sleep(Duration::from_millis(if c.non_blocking { 30 } else { 5 }));
    obs.nontrivial = !expected.is_empty() && (traversal || c.stores.len() > 1 || c.stores.iter().any(|s| !s.cuts.is_empty()));
    // 1. files only directly inside the output directory
    let all = ulpeer::files_below(&sandbox);
    let mut stored: Vec<PathBuf> = vec![];
    for f in &all {
        let full = sandbox.join(f);
        if f.parent().map(|p| p.as_os_str().is_empty()).unwrap_or(true) && f.extension().map(|e| e == "log").unwrap_or(false) {
            continue;
        }
        if full.parent() == Some(out_dir.as_path()) {
            stored.push(full);
        } else {
            let kind = if f.starts_with(ulpeer::OUT_REL) { "in a sub-directory of the output directory" } else { "outside the output directory" };
            obs.fail(format!("C32:file created {kind}"), format!("{} (output directory {}); affected SOP Instance UIDs sent: {:?}", f.display(), ulpeer::OUT_REL, c.stores.iter().map(|s| uid_text(&s.affected_instance, std::path::Path::new("<sandbox>"))).collect::<Vec<_>>()));
            let _ = std::fs::remove_file(&full);
        }
    }
    // 2. every acknowledged store is on disk with the right meta group and content
    //    (a later store with the same Affected SOP Instance UID text replaces the earlier file)
    let last_of: Vec<bool> = (0..expected.len()).map(|i| !expected[i + 1..].iter().any(|e| e.4 == expected[i].4)).collect();
    for (k, (ts_uid, ds_uid, raw, rts, affected, sqs)) in expected.iter().enumerate() {
        if !last_of[k] {
            continue;
        }
        let mut found = false;
        let mut why = String::new();
        for f in &stored {
            let Ok(bytes) = std::fs::read(f) else { continue };
            let head = match refimpl::file::parse_file_head(&bytes) {
                Ok(h) => h,
                Err(e) => {
                    obs.fail("C32:stored file is not a valid DICOM file", format!("{}: {e}", f.display()));
                    continue;
                }
            };
            let text = |t: (u16, u16)| head.meta.iter().find(|e| e.tag == t).and_then(|e| if let PVal::Bytes(b) = &e.value { Some(String::from_utf8_lossy(trimmed(b)).to_string()) } else { None });
            if text((2, 3)).as_deref() != Some(ds_uid.as_str()) {
                why.push_str(&format!("[{} has media storage instance {:?}] ", f.file_name().map(|n| n.to_string_lossy().to_string()).unwrap_or_default(), text((2, 3))));
                continue;
            }
            found = true;
            if head.transfer_syntax.trim_end_matches('\0') != ts_uid {
                obs.fail("C32:stored file's transfer syntax is not the negotiated one", format!("{} vs {ts_uid}", head.transfer_syntax));
            }
            let body = &bytes[head.dataset_offset..];
            let body = if ts_uid.ends_with(".99") { inflate(body).unwrap_or_default() } else { body.to_vec() };
            let opts = ParseOpts { ts: *rts, sq_tags: None, require_even: true, require_ascending: true };
            match (ds::parse_strict(&body, &ParseOpts { sq_tags: Some(sqs), ..opts }), ds::parse_strict(raw, &ParseOpts { ts: *rts, sq_tags: Some(sqs), require_even: false, require_ascending: false })) {
                (Ok(a), Ok(b)) => {
                    if let Err(e) = same(&a, &b, "") {
                        why = e;
                        obs.fail("C32:stored data set differs from the received one", format!("{}: {why}", f.display()));
                    }
                    let sc = a.iter().find(|e| e.tag == (8, 0x16)).and_then(|e| if let PVal::Bytes(b) = &e.value { Some(String::from_utf8_lossy(trimmed(b)).to_string()) } else { None });
                    if text((2, 2)) != sc {
                        obs.fail("C32:media storage SOP class differs from the data set", format!("{:?} vs {sc:?}", text((2, 2))));
                    }
                }
                (Err(e), _) => obs.fail("C32:stored data set is not accepted by the reference parser", format!("{}: {e}", f.display())),
                (_, Err(e)) => obs.fail("HARNESS-PANIC@c32:sent data set does not parse", e),
            }
        }
        if !found {
            obs.fail("C32:acknowledged store has no file in the output directory", format!("affected UID {affected:?}, data set instance {ds_uid:?}; files: {:?} {why}", stored.iter().map(|p| p.file_name().map(|n| n.to_string_lossy().to_string())).collect::<Vec<_>>()));
        }
    }
}

fn uid() -> BoxedStrategy<String> {
    "[1-9][0-9]{0,3}(\\.[1-9][0-9]{0,4}){2,6}".boxed()
}

fn strategy() -> BoxedStrategy<Case> {
    let name = "[a-z0-9.]{1,12}";
    let affected = prop_oneof![
        5 => uid().prop_map(UidText::Plain),
        2 => (any::<u8>(), name).prop_map(|(n, s)| UidText::Parent(n, s)),
        1 => (name, name).prop_map(|(a, b)| UidText::Nested(format!("{a}/{b}"))),
        2 => name.prop_map(UidText::Absolute),
        1 => any::<u8>().prop_map(UidText::Dots),
        1 => name.prop_map(UidText::Backslash),
    ];
    // data sets in the default repertoire without pixel sequences in implicit VR (the SCP re-reads with the dictionary)
    let store = (0u8..4, affected, uid(), 0u8..4, gen::dataset(DsCfg { max_depth: 2, max_top: 5, pixel_seq: false }), proptest::collection::vec(any::<u16>(), 0..4), proptest::bool::weighted(0.2))
        .prop_map(|(sop_class, affected_instance, ds_instance, ts, elems, cuts, empty_last)| Store { sop_class, affected_instance, ds_instance, ts, elems, cuts, empty_last });
    (any::<bool>(), proptest::collection::vec(store, 1..=3)).prop_map(|(non_blocking, stores)| Case { non_blocking, stores }).boxed()
}

pub fn run(ctx: &Ctx) {
    let root = ctx.root.clone();
    ctx.assume("the real dicom-storescp binary is built from /repo's working tree into /verif/target/tools by ./check; one process per worker thread and mode, each in its own sandbox directory (output directory <sandbox>/a/b/c/d/e/out, so that parent references stay inside the sandbox)");
    ctx.run_prop(
        "storescp",
        "a scripted requestor (reference PDU and data set encoders over a raw socket) sends 1-3 C-STORE requests per association to the real dicom-storescp binary (sync and --non-blocking): SOP classes from 4 storage classes, G-DS data sets in Implicit VR LE / Explicit VR LE / Explicit VR BE / Deflated Explicit VR LE, command and data split into fragments at generated cut points and at the acceptor's maximum PDU length, optionally ending with a zero-length last fragment, Affected SOP Instance UID texts that are plain UIDs, parent references (../), paths with separators, absolute paths (pointing into the sandbox, outside the output directory), dots only, backslashes; oracle: after the association every file in the sandbox lies directly inside the output directory; every acknowledged store (status 0) has a file whose meta group carries the negotiated transfer syntax and the data set's SOP class / instance UID and whose data set, parsed by the reference parser, equals the one sent; a plain request is never dropped; non-trivial = an acknowledged store with a path-like UID, several stores or fragmented data",
        strategy,
        ctx.cases(3_000, 40_000),
        move |c: &Case, obs: &mut Obs| check(&root, c, obs),
    );
}
