//! C14 — tags, keywords and attribute selectors have a lossless text syntax.
use crate::engine::{Ctx, Obs};
use crate::gen::dict;
use dicom_core::dictionary::{DataDictionary, DataDictionaryEntry};
use dicom_core::ops::{AttributeSelector, AttributeSelectorStep};
use dicom_core::Tag;
use dicom_dictionary_std::StandardDataDictionary;
use proptest::prelude::*;
use serde::{Deserialize, Serialize};

#[derive(Clone, Debug, Serialize, Deserialize)]
pub struct TagCase {
    g: u16,
    e: u16,
    /// 0 "(gggg,eeee)", 1 "gggg,eeee", 2 "ggggeeee"
    form: u8,
    /// per hex digit: upper-case?
    case_mask: u8,
}

fn render(g: u16, e: u16, form: u8, mask: u8) -> String {
    let hex = format!("{g:04x}{e:04x}");
    let hex: String = hex
        .chars()
        .enumerate()
        .map(|(i, c)| if mask >> i & 1 == 1 { c.to_ascii_uppercase() } else { c })
        .collect();
    match form {
        0 => format!("({},{})", &hex[..4], &hex[4..]),
        1 => format!("{},{}", &hex[..4], &hex[4..]),
        _ => hex,
    }
}

/// independent acceptor: exactly the three forms with ASCII hex digits
pub fn ref_parse(s: &str) -> Option<(u16, u16)> {
    let b = s.as_bytes();
    let hex4 = |x: &[u8]| -> Option<u16> {
        if x.len() == 4 && x.iter().all(|c| c.is_ascii_hexdigit()) {
            u16::from_str_radix(std::str::from_utf8(x).ok()?, 16).ok()
        } else {
            None
        }
    };
    match b.len() {
        11 if b[0] == b'(' && b[5] == b',' && b[10] == b')' => Some((hex4(&b[1..5])?, hex4(&b[6..10])?)),
        9 if b[4] == b',' => Some((hex4(&b[0..4])?, hex4(&b[5..9])?)),
        8 => Some((hex4(&b[0..4])?, hex4(&b[4..8])?)),
        _ => None,
    }
}

fn check_tag(c: &TagCase, obs: &mut Obs) {
    obs.nontrivial = true;
    obs.class(format!("form:{}", c.form));
    let s = render(c.g, c.e, c.form, c.case_mask);
    match s.parse::<Tag>() {
        Ok(t) => {
            if (t.0, t.1) != (c.g, c.e) {
                obs.fail("C14:tag text parses to a different tag", format!("{s:?} -> {t}"));
            }
        }
        Err(e) => obs.fail(format!("C14:accepted tag form rejected:form{}", c.form), format!("{s:?}: {e}")),
    }
    // Display form parses back
    let t = Tag(c.g, c.e);
    match t.to_string().parse::<Tag>() {
        Ok(u) if u == t => {}
        other => obs.fail("C14:Display form of a tag does not parse back", format!("{t} -> {other:?}")),
    }
    // through the dictionary's parse_tag as well
    match StandardDataDictionary.parse_tag(&s) {
        Some(u) if (u.0, u.1) == (c.g, c.e) => {}
        other => obs.fail("C14:dictionary parse_tag differs on a tag form", format!("{s:?} -> {other:?}")),
    }
}

#[derive(Clone, Debug, Serialize, Deserialize)]
pub struct StrCase {
    s: String,
}

fn check_str(c: &StrCase, obs: &mut Obs) {
    let want = ref_parse(&c.s);
    obs.nontrivial = matches!(c.s.len(), 8 | 9 | 11);
    obs.class(if want.is_some() { "accepted-by-reference" } else { "rejected-by-reference" });
    if !c.s.is_ascii() {
        obs.class("non-ascii");
    }
    match (c.s.parse::<Tag>(), want) {
        (Ok(t), Some(w)) => {
            if (t.0, t.1) != w {
                obs.fail("C14:tag text parses to a different tag", format!("{:?} -> {t}, reference {w:04X?}", c.s));
            }
        }
        (Err(_), None) => {}
        (Ok(t), None) => obs.fail("C14:string outside the three tag forms accepted", format!("{:?} -> {t}", c.s)),
        (Err(e), Some(w)) => obs.fail("C14:accepted tag form rejected", format!("{:?}: {e}; reference {w:04X?}", c.s)),
    }
    // the selector parser must not panic either (result not asserted for arbitrary text)
    let _ = StandardDataDictionary.parse_selector(&c.s);
}

#[derive(Clone, Debug, Serialize, Deserialize)]
pub struct SelCase {
    /// intermediate steps (tag, item) then the leaf tag
    steps: Vec<((u16, u16), u32)>,
    leaf: (u16, u16),
    /// print intermediate/leaf tags with a keyword when the dictionary has one (index into entries)
    keyword_for: Vec<Option<usize>>,
}

fn check_sel(c: &SelCase, obs: &mut Obs) {
    obs.nontrivial = !c.steps.is_empty();
    obs.class(format!("depth:{}", c.steps.len() + 1));
    let mut steps: Vec<AttributeSelectorStep> = c
        .steps
        .iter()
        .map(|((g, e), i)| AttributeSelectorStep::Nested { tag: Tag(*g, *e), item: *i })
        .collect();
    steps.push(AttributeSelectorStep::Tag(Tag(c.leaf.0, c.leaf.1)));
    let sel = match AttributeSelector::new(steps.clone()) {
        Some(s) => s,
        None => {
            obs.fail("C14:AttributeSelector::new rejects a well-formed step list", format!("{steps:?}"));
            return;
        }
    };
    let txt = sel.to_string();
    match StandardDataDictionary.parse_selector(&txt) {
        Ok(back) => {
            if back != sel {
                obs.fail("C14:selector text parses to a different selector", format!("{sel:?} -> {txt:?} -> {back:?}"));
            }
        }
        Err(e) => obs.fail("C14:printed selector does not parse", format!("{sel:?} -> {txt:?}: {e}")),
    }
    // the same selector written with keywords where requested
    let d = dict();
    let mut parts = vec![];
    let mut want_steps = vec![];
    let n = c.steps.len();
    for (k, ((g, e), i)) in c.steps.iter().enumerate() {
        match c.keyword_for.get(k).copied().flatten() {
            Some(ix) => {
                let en = &d.entries[ix % d.entries.len()];
                parts.push(format!("{}[{}]", en.alias, i));
                want_steps.push(AttributeSelectorStep::Nested { tag: Tag(en.tag.0, en.tag.1), item: *i });
            }
            None => {
                parts.push(format!("({g:04X},{e:04X})[{i}]"));
                want_steps.push(AttributeSelectorStep::Nested { tag: Tag(*g, *e), item: *i });
            }
        }
    }
    match c.keyword_for.get(n).copied().flatten() {
        Some(ix) => {
            let en = &d.entries[ix % d.entries.len()];
            parts.push(en.alias.clone());
            want_steps.push(AttributeSelectorStep::Tag(Tag(en.tag.0, en.tag.1)));
            obs.class("uses-keyword");
        }
        None => {
            parts.push(format!("{:04x}{:04x}", c.leaf.0, c.leaf.1));
            want_steps.push(AttributeSelectorStep::Tag(Tag(c.leaf.0, c.leaf.1)));
        }
    }
    let txt2 = parts.join(".");
    let want = AttributeSelector::new(want_steps).unwrap();
    match StandardDataDictionary.parse_selector(&txt2) {
        Ok(back) => {
            if back != want {
                obs.fail("C14:keyword selector resolves to a different selector", format!("{txt2:?} -> {back:?}, want {want:?}"));
            }
        }
        Err(e) => obs.fail("C14:keyword selector does not parse", format!("{txt2:?}: {e}")),
    }
}

#[derive(Clone, Debug, Serialize, Deserialize)]
pub struct KwCase {
    ix: usize,
}

fn check_kw(c: &KwCase, obs: &mut Obs) {
    obs.nontrivial = true;
    let en = &dict().entries[c.ix];
    let want = Tag(en.tag.0, en.tag.1);
    match StandardDataDictionary.by_name(&en.alias) {
        Some(e) => {
            if e.tag() != want {
                obs.fail("C14:keyword resolves to a different tag", format!("{} -> {} want {}", en.alias, e.tag(), want));
            }
        }
        None => obs.fail("C14:dictionary keyword not found by name", en.alias.clone()),
    }
    match StandardDataDictionary.parse_selector(&en.alias) {
        Ok(s) => {
            if s != AttributeSelector::from(want) {
                obs.fail("C14:keyword selector resolves to a different tag", format!("{} -> {s:?}", en.alias));
            }
        }
        Err(e) => obs.fail("C14:keyword is not accepted as a selector", format!("{}: {e}", en.alias)),
    }
    if let Ok(t) = en.alias.parse::<Tag>() {
        obs.fail("C14:a keyword parses as a numeric tag", format!("{} -> {t}", en.alias));
    }
}

pub fn run(ctx: &Ctx) {
    ctx.run_prop(
        "tag_forms",
        "uniform + boundary tags printed as (gggg,eeee) / gggg,eeee / ggggeeee with every upper/lower-case mix; oracle: from_str and the dictionary's parse_tag return the same tag; Display form parses back",
        || {
            (
                prop_oneof![4 => any::<u16>(), 1 => prop_oneof![Just(0u16), Just(0xFFFF), Just(0xFFFE), Just(0x7FE0), Just(0x00FF), Just(0xABCD)]],
                prop_oneof![4 => any::<u16>(), 1 => prop_oneof![Just(0u16), Just(0xFFFF), Just(0xE000), Just(0x0010), Just(0xFEDC)]],
                0u8..3,
                any::<u8>(),
            )
                .prop_map(|(g, e, form, case_mask)| TagCase { g, e, form, case_mask })
                .boxed()
        },
        ctx.cases(60_000, 1_500_000),
        check_tag,
    );
    ctx.run_prop(
        "arbitrary_strings",
        "arbitrary strings of 0-16 scalars: ASCII-heavy, hex-heavy, near-miss tag forms, and multi-byte scalars placed at every byte alignment (so byte offsets 1, 4, 5, 6 fall inside a character); oracle: an independent acceptor of exactly the three forms: Ok(tag) iff accepted with the same value, Err otherwise, never a panic (parse_selector on the same text must not panic); non-trivial = byte length 8, 9 or 11 (reaches the form-specific code)",
        || {
            let hexish = proptest::collection::vec(
                prop_oneof![
                    10 => "[0-9a-fA-F]".prop_map(|s| s),
                    2 => Just(",".to_string()),
                    1 => Just("(".to_string()),
                    1 => Just(")".to_string()),
                    2 => "[g-zG-Z ]".prop_map(|s| s),
                    3 => prop_oneof![Just("é".to_string()), Just("ß".to_string()), Just("€".to_string()), Just("中".to_string()), Just("😀".to_string()), Just("\u{0}".to_string()), Just("０".to_string()), Just("Ａ".to_string())],
                ],
                0..12,
            )
            .prop_map(|v| v.concat());
            // a valid form with one character replaced by an arbitrary scalar
            let near = (any::<u16>(), any::<u16>(), 0u8..3, any::<u8>(), any::<proptest::sample::Index>(), proptest::char::any()).prop_map(
                |(g, e, form, mask, ix, ch)| {
                    let s = render(g, e, form, mask);
                    let mut chars: Vec<char> = s.chars().collect();
                    let i = ix.index(chars.len());
                    chars[i] = ch;
                    chars.into_iter().collect::<String>()
                },
            );
            prop_oneof![4 => hexish, 3 => near, 2 => "\\PC{0,16}".prop_map(|s| s), 1 => ".{0,12}".prop_map(|s| s)]
                .prop_map(|s| StrCase { s })
                .boxed()
        },
        ctx.cases(120_000, 3_000_000),
        check_str,
    );
    let nent = dict().entries.len();
    ctx.run_prop(
        "selectors",
        "selectors of depth 1-4 with item indices incl. 0 and u32::MAX, tags uniform; oracle: parse_selector(to_string(sel)) == sel; the same path written with dictionary keywords / bare hex tags resolves to the same steps; non-trivial = depth >= 2",
        move || {
            (
                proptest::collection::vec(((any::<u16>(), any::<u16>()), prop_oneof![Just(0u32), Just(1), Just(u32::MAX), any::<u32>()]), 0..4),
                (any::<u16>(), any::<u16>()),
                proptest::collection::vec(proptest::option::weighted(0.5, 0..nent), 4),
            )
                .prop_map(|(steps, leaf, keyword_for)| SelCase { steps, leaf, keyword_for })
                .boxed()
        },
        ctx.cases(40_000, 800_000),
        check_sel,
    );
    ctx.run_enum(
        "keywords",
        "exhaustive: every keyword of the dictionary table (parsed from tags.rs): by_name and parse_selector resolve it to the table's tag; no keyword parses as a numeric tag",
        (0..nent).map(|ix| KwCase { ix }).collect(),
        true,
        check_kw,
    );
}
