//! C29 — requestor and acceptor agree on the association and respect PDU limits.
use crate::engine::{Ctx, Obs, Tier};
use crate::pduconv::from_ul;
use crate::props::c26::{payload, runtime};
use dicom_ul::association::client::{AsyncClientAssociation, ClientAssociation, ClientAssociationOptions};
use dicom_ul::association::server::{AsyncServerAssociation, ServerAssociation, ServerAssociationOptions};
use dicom_ul::pdu::{PDataValue, PDataValueType, Pdu, PresentationContextNegotiated, MAXIMUM_PDU_SIZE};
use proptest::prelude::*;
use refimpl::pdu as rp;
use serde::{Deserialize, Serialize};
use std::io::{Read, Write};
use std::net::{TcpListener, TcpStream};
use std::time::Duration;

const ABSTRACT: [&str; 8] = [
    "1.2.840.10008.1.1",
    "1.2.840.10008.5.1.4.1.1.2",
    "1.2.840.10008.5.1.4.1.1.4",
    "1.2.840.10008.5.1.4.1.1.7",
    "1.2.840.10008.5.1.4.1.1.1",
    "1.2.840.10008.5.1.4.1.2.1.1",
    "1.2.3.4.5.6.7.8.9",
    "1.2.840.10008.5.1.4.1.1.88.11",
];
const TRANSFER: [&str; 7] = ["1.2.840.10008.1.2", "1.2.840.10008.1.2.1", "1.2.840.10008.1.2.2", "1.2.840.10008.1.2.4.50", "1.2.840.10008.1.2.5", "1.2.826.0.1.3680043.999.1", "1.2.840.10008.1.2.1.99"];

#[derive(Clone, Debug, Serialize, Deserialize)]
pub enum Step {
    /// one P-DATA PDU with a single value of `len` bytes
    Pdu { from_client: bool, len: u32 },
    /// a byte stream through send_pdata
    Stream { from_client: bool, len: u32 },
}

#[derive(Clone, Debug, Serialize, Deserialize)]
pub struct Case {
    /// proposed contexts: (abstract syntax index, transfer syntax indices)
    pub pcs: Vec<(u8, Vec<u8>)>,
    pub client_max: u32,
    pub server_max: u32,
    pub server_abs: Vec<u8>,
    pub server_ts: Vec<u8>,
    pub promiscuous: bool,
    pub strict_client: bool,
    pub strict_server: bool,
    pub roles: Vec<(u8, bool, bool)>,
    pub ext: Vec<(u8, Vec<u8>)>,
    pub async_client: bool,
    pub async_server: bool,
    pub script: Vec<Step>,
}

fn eff(max: u32) -> u32 {
    if max == 0 { MAXIMUM_PDU_SIZE } else { max.min(MAXIMUM_PDU_SIZE) }
}

enum Assoc {
    C(ClientAssociation<TcpStream>),
    AC(AsyncClientAssociation<tokio::net::TcpStream>),
    S(ServerAssociation<TcpStream>),
    AS(AsyncServerAssociation<tokio::net::TcpStream>),
}

impl Assoc {
    fn pcs(&self) -> Vec<PresentationContextNegotiated> {
        match self {
            Assoc::C(a) => a.presentation_contexts().to_vec(),
            Assoc::AC(a) => a.presentation_contexts().to_vec(),
            Assoc::S(a) => a.presentation_contexts().to_vec(),
            Assoc::AS(a) => a.presentation_contexts().to_vec(),
        }
    }
    /// (requestor max, acceptor max) as this side sees them
    fn maxes(&self) -> (u32, u32) {
        match self {
            Assoc::C(a) => (a.requestor_max_pdu_length(), a.acceptor_max_pdu_length()),
            Assoc::AC(a) => (a.requestor_max_pdu_length(), a.acceptor_max_pdu_length()),
            Assoc::S(a) => (a.requestor_max_pdu_length(), a.acceptor_max_pdu_length()),
            Assoc::AS(a) => (a.requestor_max_pdu_length(), a.acceptor_max_pdu_length()),
        }
    }
    fn send(&mut self, p: &Pdu) -> Result<(), String> {
        let e = |e: dicom_ul::association::Error| format!("{}|{}", err_kind(&e), crate::img::errs(&e));
        match self {
            Assoc::C(a) => a.send(p).map_err(e),
            Assoc::S(a) => a.send(p).map_err(e),
            Assoc::AC(a) => runtime().block_on(a.send(p)).map_err(e),
            Assoc::AS(a) => runtime().block_on(a.send(p)).map_err(e),
        }
    }
    fn receive(&mut self) -> Result<Pdu, String> {
        let e = |e: dicom_ul::association::Error| format!("{}|{}", err_kind(&e), crate::img::errs(&e));
        match self {
            Assoc::C(a) => a.receive().map_err(e),
            Assoc::S(a) => a.receive().map_err(e),
            Assoc::AC(a) => runtime().block_on(a.receive()).map_err(e),
            Assoc::AS(a) => runtime().block_on(a.receive()).map_err(e),
        }
    }
    fn stream(&mut self, pc: u8, data: &[u8]) -> Result<(), String> {
        match self {
            Assoc::C(a) => {
                let mut w = a.send_pdata(pc);
                w.write_all(data).and_then(|_| w.finish()).map_err(|e| e.to_string())
            }
            Assoc::S(a) => {
                let mut w = a.send_pdata(pc);
                w.write_all(data).and_then(|_| w.finish()).map_err(|e| e.to_string())
            }
            Assoc::AC(a) => runtime().block_on(async {
                use tokio::io::AsyncWriteExt;
                let mut w = a.send_pdata(pc);
                w.write_all(data).await.map_err(|e| e.to_string())?;
                w.finish().await.map_err(|e| e.to_string())
            }),
            Assoc::AS(a) => runtime().block_on(async {
                use tokio::io::AsyncWriteExt;
                let mut w = a.send_pdata(pc);
                w.write_all(data).await.map_err(|e| e.to_string())?;
                w.finish().await.map_err(|e| e.to_string())
            }),
        }
    }
    fn abort(self) {
        match self {
            Assoc::C(a) => {
                let _ = a.abort();
            }
            Assoc::S(a) => {
                let _ = a.abort();
            }
            Assoc::AC(a) => {
                let _ = runtime().block_on(a.abort());
            }
            Assoc::AS(a) => {
                let _ = runtime().block_on(a.abort());
            }
        }
    }
}

fn err_kind(e: &dicom_ul::association::Error) -> &'static str {
    match e {
        dicom_ul::association::Error::SendTooLongPdu { .. } => "too-long",
        _ => "other",
    }
}

/// what one side found out, reported to the judge
#[derive(Debug, Default)]
struct Report {
    established: Option<(Vec<(u8, String, String)>, (u32, u32))>,
    establish_error: Option<String>,
    /// violations noticed locally: (signature, detail)
    fails: Vec<(String, String)>,
    steps_done: usize,
}

fn pdu_len(p: &Pdu) -> Option<usize> {
    rp::encode(&from_ul(p)).ok().map(|b| b.len() - 6)
}

fn side(mut a: Assoc, is_client: bool, c: &Case, pc: u8, rep: &mut Report) {
    let (rq_max, ac_max) = a.maxes();
    let (own_max, peer_max) = if is_client { (rq_max, ac_max) } else { (ac_max, rq_max) };
    let own_eff = eff(own_max);
    let who = if is_client { "requestor" } else { "acceptor" };
    for (i, st) in c.script.iter().enumerate() {
        let (from_client, len, is_stream) = match st {
            Step::Pdu { from_client, len } => (*from_client, *len, false),
            Step::Stream { from_client, len } => (*from_client, *len, true),
        };
        let data = payload(len, i as u8);
        if from_client == is_client {
            // this side sends
            if is_stream {
                if let Err(e) = a.stream(pc, &data) {
                    rep.fails.push((format!("C29:{who} cannot stream P-DATA within the peer's limit"), format!("step {i}: {len} bytes, peer max {peer_max}: {e}")));
                    break;
                }
            } else {
                let p = Pdu::PData { data: vec![PDataValue { presentation_context_id: pc, value_type: PDataValueType::Data, is_last: true, data: data.clone() }] };
                let too_long = len as u64 + 6 > peer_max as u64;
                match a.send(&p) {
                    Ok(()) if too_long => {
                        rep.fails.push((format!("C29:{who} sent a PDU longer than the peer's maximum"), format!("step {i}: PDU length {} > peer max {peer_max}", len as u64 + 6)));
                        break;
                    }
                    Ok(()) => {}
                    Err(e) if too_long && e.starts_with("too-long") => {}
                    Err(e) if too_long => {
                        rep.fails.push((format!("C29:{who} rejected an over-long PDU with a different error"), format!("step {i}: {e}")));
                        break;
                    }
                    Err(e) => {
                        rep.fails.push((format!("C29:{who} refused a PDU within the peer's maximum"), format!("step {i}: PDU length {} <= peer max {peer_max}: {e}", len as u64 + 6)));
                        break;
                    }
                }
            }
        } else {
            // this side receives what the model says arrives
            let sender_peer_max = own_eff; // the sender's view of our maximum
            if !is_stream && len as u64 + 6 > sender_peer_max as u64 {
                rep.steps_done = i + 1;
                continue; // the sender must refuse locally: nothing arrives
            }
            let mut got = vec![];
            loop {
                match a.receive() {
                    Ok(p) => {
                        if let Some(l) = pdu_len(&p) {
                            if l as u64 > own_eff as u64 {
                                rep.fails.push((format!("C29:{who} received a PDU longer than its maximum"), format!("step {i}: PDU length {l} > own max {own_max}")));
                            }
                        }
                        match p {
                            Pdu::PData { data: vals } => {
                                let mut last = false;
                                for v in vals {
                                    got.extend_from_slice(&v.data);
                                    last |= v.is_last;
                                }
                                if last {
                                    break;
                                }
                            }
                            other => {
                                rep.fails.push((format!("C29:{who} received an unexpected PDU during data transfer"), format!("step {i}: {}", other.short_description())));
                                rep.steps_done = i;
                                a.abort();
                                return;
                            }
                        }
                    }
                    Err(e) => {
                        rep.fails.push((format!("C29:{who} failed to receive data the peer sent within the limits"), format!("step {i} ({} {len} bytes): {e}", if is_stream { "stream of" } else { "PDU of" })));
                        rep.steps_done = i;
                        a.abort();
                        return;
                    }
                }
            }
            if got != data {
                rep.fails.push((format!("C29:{who} received different data"), format!("step {i}: {} bytes for {} sent", got.len(), data.len())));
                break;
            }
        }
        rep.steps_done = i + 1;
    }
    a.abort();
}

fn negotiated(a: &Assoc) -> Vec<(u8, String, String)> {
    let mut v: Vec<(u8, String, String)> = a.pcs().into_iter().filter(|p| p.reason == dicom_ul::pdu::PresentationContextResultReason::Acceptance).map(|p| (p.id, p.abstract_syntax.trim_end_matches('\0').to_string(), p.transfer_syntax.trim_end_matches('\0').to_string())).collect();
    v.sort();
    v
}

fn check(c: &Case, obs: &mut Obs) {
    let listener = match TcpListener::bind("127.0.0.1:0") {
        Ok(l) => l,
        Err(e) => {
            obs.skip(format!("cannot bind: {e}"));
            return;
        }
    };
    let addr = listener.local_addr().unwrap();
    let t = Duration::from_secs(10);
    obs.class(format!("client:{}", if c.async_client { "async" } else { "sync" }));
    obs.class(format!("server:{}", if c.async_server { "async" } else { "sync" }));
    for (n, m) in [("client", c.client_max), ("server", c.server_max)] {
        obs.class(format!("{n}-max:{}", if m == 0 { "0".to_string() } else if m == 1018 { "minimum".into() } else if m > 1 << 20 { "huge".into() } else { "other".into() }));
    }
    let (srep, crep) = std::thread::scope(|s| {
        let server = s.spawn(|| {
            let mut rep = Report::default();
            let mut o = ServerAssociationOptions::new().accept_any().ae_title("VERIF-SCP").max_pdu_length(c.server_max).strict(c.strict_server).promiscuous(c.promiscuous).read_timeout(t).write_timeout(t);
            for a in &c.server_abs {
                o = o.with_abstract_syntax(ABSTRACT[*a as usize % 8]);
            }
            for x in &c.server_ts {
                o = o.with_transfer_syntax(TRANSFER[*x as usize % 7]);
            }
            let _ = listener.set_nonblocking(false);
            let sock = match listener.accept() {
                Ok((s, _)) => s,
                Err(e) => {
                    rep.establish_error = Some(format!("accept: {e}"));
                    return rep;
                }
            };
            let a = if c.async_server {
                runtime().block_on(async {
                    sock.set_nonblocking(true).ok();
                    let ts = tokio::net::TcpStream::from_std(sock).map_err(|e| e.to_string())?;
                    o.establish_async(ts).await.map(Assoc::AS).map_err(|e| crate::img::errs(&e))
                })
            } else {
                o.establish(sock).map(Assoc::S).map_err(|e| crate::img::errs(&e))
            };
            match a {
                Ok(a) => {
                    rep.established = Some((negotiated(&a), a.maxes()));
                    let pc = rep.established.as_ref().unwrap().0.first().map(|p| p.0).unwrap_or(1);
                    side(a, false, c, pc, &mut rep);
                }
                Err(e) => rep.establish_error = Some(e),
            }
            rep
        });
        let client = s.spawn(|| {
            let mut rep = Report::default();
            let mut o = ClientAssociationOptions::new().calling_ae_title("VERIF-SCU").called_ae_title("VERIF-SCP").max_pdu_length(c.client_max).strict(c.strict_client).read_timeout(t).write_timeout(t).connection_timeout(t);
            for (a, tss) in &c.pcs {
                o = o.with_presentation_context(ABSTRACT[*a as usize % 8], tss.iter().map(|x| TRANSFER[*x as usize % 7]).collect::<Vec<_>>());
            }
            for (a, scu, scp) in &c.roles {
                o = o.with_role_selection(ABSTRACT[*a as usize % 8], *scu, *scp);
            }
            for (a, b) in &c.ext {
                o = o.with_extended_negotiation(ABSTRACT[*a as usize % 8], b.clone());
            }
            let a = if c.async_client { runtime().block_on(o.establish_async(addr)).map(Assoc::AC).map_err(|e| crate::img::errs(&e)) } else { o.establish(addr).map(Assoc::C).map_err(|e| crate::img::errs(&e)) };
            match a {
                Ok(a) => {
                    rep.established = Some((negotiated(&a), a.maxes()));
                    let pc = rep.established.as_ref().unwrap().0.first().map(|p| p.0).unwrap_or(1);
                    side(a, true, c, pc, &mut rep);
                }
                Err(e) => rep.establish_error = Some(e),
            }
            rep
        });
        (server.join().unwrap_or_default(), client.join().unwrap_or_default())
    });
    let cfg = format!("client max {} (strict {}), server max {} (strict {}), {} contexts", c.client_max, c.strict_client, c.server_max, c.strict_server, c.pcs.len());
    let zero = if c.client_max == 0 || c.server_max == 0 { ":maximum 0 configured" } else { "" };
    match (&crep.established, &srep.established) {
        (Some((cp, cm)), Some((sp, sm))) => {
            obs.nontrivial = true;
            obs.class("established");
            if cp != sp {
                obs.fail("C29:requestor and acceptor disagree on the accepted presentation contexts", format!("requestor {cp:?}; acceptor {sp:?}; {cfg}"));
            }
            let ids: Vec<u8> = cp.iter().map(|p| p.0).collect();
            let mut d = ids.clone();
            d.dedup();
            if d.len() != ids.len() || ids.iter().any(|i| i % 2 == 0) {
                obs.fail("C29:context identifiers are not distinct odd numbers", format!("{ids:?}"));
            }
            // each side's view of the peer's maximum is what the peer configured (0 = no limit)
            if cm.1 != eff(c.server_max) {
                obs.fail("C29:requestor's view of the acceptor's maximum PDU length differs from the acceptor's setting", format!("{} vs configured {} ({cfg})", cm.1, c.server_max));
            }
            if sm.0 != eff(c.client_max) {
                obs.fail("C29:acceptor's view of the requestor's maximum PDU length differs from the requestor's setting", format!("{} vs configured {} ({cfg})", sm.0, c.client_max));
            }
            for (s, d) in crep.fails.iter().chain(srep.fails.iter()) {
                obs.fail(format!("{s}{zero}"), format!("{d} ({cfg})"));
            }
            if crep.fails.is_empty() && srep.fails.is_empty() && (crep.steps_done != c.script.len() || srep.steps_done != c.script.len()) {
                obs.fail("C29:exchange did not complete", format!("requestor finished {} and acceptor {} of {} steps ({cfg})", crep.steps_done, srep.steps_done, c.script.len()));
            }
            if c.script.iter().any(|s| matches!(s, Step::Pdu { len, from_client } if *len as u64 + 6 > eff(if *from_client { c.server_max } else { c.client_max }) as u64)) {
                obs.class("over-long-send-attempted");
            }
        }
        (None, None) => {
            obs.class("not-established");
            // both failed: legitimate when nothing can be accepted; the acceptor says why
            let se = srep.establish_error.clone().unwrap_or_default();
            let ce = crep.establish_error.clone().unwrap_or_default();
            let nothing = se.to_lowercase().contains("no presentation context") || ce.to_lowercase().contains("no accepted presentation context") || ce.to_lowercase().contains("rejected") || se.to_lowercase().contains("reject");
            if !nothing && (se.contains("pdu was too large") || ce.contains("pdu was too large")) {
                obs.fail("C29:strict side rejects an association PDU longer than its maximum P-DATA length", format!("requestor: {ce}; acceptor: {se}; {cfg}"));
            } else if !nothing {
                obs.fail(format!("C29:association cannot be established{zero}"), format!("requestor: {ce}; acceptor: {se}; {cfg}"));
            } else {
                obs.class("nothing-accepted");
            }
        }
        (Some((cp, _)), None) => {
            obs.fail(format!("C29:requestor holds an association the acceptor does not{zero}"), format!("requestor contexts {cp:?}; acceptor: {:?}; {cfg}", srep.establish_error));
        }
        (None, Some((sp, _))) => {
            // the requestor fails when nothing was accepted; the acceptor may have answered with all contexts refused
            let ce = crep.establish_error.clone().unwrap_or_default();
            if sp.is_empty() || ce.to_lowercase().contains("no accepted presentation context") {
                obs.class("nothing-accepted");
                if !sp.is_empty() {
                    obs.fail("C29:requestor reports nothing accepted although the acceptor accepted contexts", format!("acceptor {sp:?}; requestor: {ce}"));
                }
            } else if ce.contains("pdu was too large") {
                obs.fail("C29:strict side rejects an association PDU longer than its maximum P-DATA length", format!("requestor: {ce}; {cfg}"));
            } else {
                obs.fail(format!("C29:acceptor holds an association the requestor does not{zero}"), format!("acceptor contexts {sp:?}; requestor: {ce}; {cfg}"));
            }
        }
    }
}

fn strategy(thorough: bool) -> BoxedStrategy<Case> {
    let maxes = prop_oneof![Just(0u32), Just(1018u32), Just(1024u32), Just(4096u32), Just(16378u32), Just(16384u32), Just(65536u32), Just(1u32 << 31), 1018u32..70_000];
    let npcs = if thorough { prop_oneof![4 => 1usize..=20, 1 => 21usize..=128].boxed() } else { (1usize..=20).boxed() };
    let pcs = npcs.prop_flat_map(|n| proptest::collection::vec((0u8..8, proptest::collection::vec(0u8..7, 1..=4)), n));
    (
        pcs,
        maxes.clone(),
        maxes,
        proptest::collection::vec(0u8..8, 0..6),
        proptest::collection::vec(0u8..7, 0..5),
        any::<bool>(),
        (any::<bool>(), any::<bool>(), any::<bool>(), any::<bool>()),
        proptest::collection::vec((0u8..8, any::<bool>(), any::<bool>()), 0..3),
        proptest::collection::vec((0u8..8, proptest::collection::vec(any::<u8>(), 0..9)), 0..3),
        proptest::collection::vec((any::<bool>(), any::<bool>(), any::<u16>(), -8i32..8, 0u32..200_000), 0..8),
    )
        .prop_map(|(pcs, client_max, server_max, server_abs, server_ts, promiscuous, (strict_client, strict_server, async_client, async_server), roles, ext, raw)| {
            let script = raw
                .into_iter()
                .map(|(from_client, stream, frac, delta, biglen)| {
                    if stream {
                        Step::Stream { from_client, len: biglen }
                    } else {
                        // a single PDU around the receiver's limit (or small when the limit is huge)
                        let lim = eff(if from_client { server_max } else { client_max });
                        let len = if lim > 1 << 20 { frac as u32 } else { (lim as i64 - 6 + delta as i64).max(0) as u32 };
                        Step::Pdu { from_client, len }
                    }
                })
                .collect();
            // a promiscuous acceptor needs no abstract syntaxes; otherwise give it at least one
            let server_abs = if server_abs.is_empty() && !promiscuous { vec![pcs[0].0] } else { server_abs };
            Case { pcs, client_max, server_max, server_abs, server_ts, promiscuous, strict_client, strict_server, roles, ext, async_client, async_server, script }
        })
        .boxed()
}

pub fn run(ctx: &Ctx) {
    let thorough = matches!(ctx.tier, Tier::Thorough);
    ctx.run_prop(
        "loopback_association",
        "random ClientAssociationOptions x ServerAssociationOptions over loopback TCP (sync and async flavours of both sides): 1-20 proposed contexts (thorough up to 128) over 8 abstract and 7 transfer syntaxes (one unknown), acceptor abstract/transfer syntax lists, promiscuous on/off, strict on/off, role selection and extended negotiation items, maximum PDU lengths from {0, 1018, 1024, 4096, 16378, 16384, 65536, 2^31, random}; then up to 7 generated steps: single P-DATA PDUs whose length is within +-8 of the receiver's maximum and send_pdata streams of 0-200 000 bytes in either direction; oracle: both sides report the same accepted (id, abstract, transfer) set, ids distinct and odd, each side's view of the peer's maximum equals the peer's setting (0 = no limit), establish fails on both sides only when nothing is accepted, an over-long send is refused locally with SendTooLongPdu, every received PDU is within the receiver's maximum (length recomputed with the reference encoder), data arrives intact; non-trivial = association established",
        move || strategy(thorough),
        ctx.cases(4_000, 60_000),
        check,
    );
}
