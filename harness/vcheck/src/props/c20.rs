//! C20 — RLE Lossless decoding reproduces the encoded samples.
use crate::engine::{Ctx, Obs};
use crate::img::{self, Img, ImgCfg};
use dicom_core::value::{PixelFragmentSequence, Value};
use dicom_core::{DataElement, VR};
use dicom_dictionary_std::tags;
use dicom_encoding::transfer_syntax::Codec;
use dicom_pixeldata::PixelDecoder;
use dicom_transfer_syntax_registry::entries::RLE_LOSSLESS;
use proptest::prelude::*;
use refimpl::rle::{self, RleStats, Tape};
use serde::{Deserialize, Serialize};

#[derive(Clone, Debug, Serialize, Deserialize)]
pub struct Case {
    pub img: Img,
    /// choices of the reference encoder (literal / replicate / no-op, run lengths)
    pub tape: Vec<u8>,
    /// write a basic offset table (otherwise it is left empty, as PS3.5 allows)
    pub bot: bool,
    pub via_file: bool,
    /// bytes already present in the destination vector handed to the adapter
    pub prefix: u8,
}

fn first_diff(a: &[u8], b: &[u8]) -> String {
    if a.len() != b.len() {
        return format!("length {} vs expected {}", a.len(), b.len());
    }
    match a.iter().zip(b).position(|(x, y)| x != y) {
        Some(i) => format!("first difference at byte {i}: got {:#04x}, expected {:#04x} (got {:02x?}.. expected {:02x?}..)", a[i], b[i], &a[i.saturating_sub(2)..(i + 4).min(a.len())], &b[i.saturating_sub(2)..(i + 4).min(b.len())]),
        None => "equal".into(),
    }
}

fn check(c: &Case, obs: &mut Obs) {
    let im = &c.img;
    let (rows, cols, spp, bps) = (im.rows as usize, im.cols as usize, im.samples as usize, im.bytes_per_sample());
    let layout = im.label();
    obs.class(layout.clone());
    // encode with the reference encoder and make sure the reference itself round-trips
    let mut tape = Tape::new(&c.tape);
    let mut st = RleStats::default();
    let mut frags = vec![];
    for k in 0..im.frames as usize {
        let f = rle::encode_frame(im.frame(k), rows, cols, spp, bps, &mut tape, &mut st);
        assert_eq!(rle::decode_frame(&f, rows, cols, spp, bps), im.frame(k), "HARNESS: reference RLE encoder does not round-trip");
        frags.push(f);
    }
    if st.noops > 0 {
        obs.class("has-noop");
    }
    if st.max_len_runs > 0 {
        obs.class("has-128-byte-run");
    }
    if st.split_replicates > 0 {
        obs.class("split-replicate-run");
    }
    if st.literal_runs > 0 && st.replicate_runs > 0 {
        obs.class("literal-and-replicate");
    }
    if st.padded_segments > 0 {
        obs.class("padded-segment");
    }
    if im.frames > 1 {
        obs.class("multiframe");
    }
    obs.nontrivial = st.literal_runs > 0 && st.replicate_runs > 0;
    let bot: Vec<u32> = if c.bot {
        let mut o = 0u32;
        frags
            .iter()
            .map(|f| {
                let x = o;
                o += f.len() as u32 + 8;
                x
            })
            .collect()
    } else {
        vec![]
    };
    let mut o = img::base_object(im);
    o.put(DataElement::new(tags::PIXEL_DATA, VR::OB, Value::PixelSequence(PixelFragmentSequence::new(bot, frags))));
    let built = img::with_meta(o, "1.2.840.10008.1.2.5");
    let obj = if c.via_file {
        match img::through_file(&built) {
            Ok(o) => o,
            Err(e) => {
                obs.fail("C20:RLE object does not survive write and read", e);
                return;
            }
        }
    } else {
        built
    };
    let want = &im.data;
    let fsz = im.frame_bytes();
    // through the pixel decoder API
    let whole: Option<Vec<u8>> = match obj.decode_pixel_data() {
        Ok(d) => {
            if d.data() != &want[..] {
                obs.fail(format!("C20:whole-object decoding differs from the encoded samples:{layout}"), first_diff(d.data(), want));
            }
            if d.number_of_frames() != im.frames {
                obs.fail("C20:decoded number of frames differs", format!("{} vs {}", d.number_of_frames(), im.frames));
            }
            Some(d.data().to_vec())
        }
        Err(e) => {
            obs.fail(format!("C20:decode_pixel_data fails on a valid RLE image:{layout}"), img::errs(&e));
            None
        }
    };
    let mut concat = vec![];
    for k in 0..im.frames {
        let exp = &want[k as usize * fsz..(k as usize + 1) * fsz];
        match obj.decode_pixel_data_frame(k) {
            Ok(d) => {
                if d.data() != exp {
                    obs.fail(format!("C20:single-frame decoding differs from the encoded samples:{layout}"), format!("frame {k} of {}: {}", im.frames, first_diff(d.data(), exp)));
                }
                concat.extend_from_slice(d.data());
            }
            Err(e) => obs.fail(format!("C20:decode_pixel_data_frame fails on a valid RLE image:{layout}"), format!("frame {k}: {}", img::errs(&e))),
        }
    }
    if let Some(w) = &whole {
        if !obs.failed() && *w != concat {
            obs.fail("C20:whole-object result is not the concatenation of the per-frame results", first_diff(w, &concat));
        }
    }
    // through the registered adapter, appending to a non-empty destination
    if let Codec::EncapsulatedPixelData(Some(reader), _) = RLE_LOSSLESS.erased().codec() {
        let prefix = vec![0xEE; c.prefix as usize % 5];
        let mut dst = prefix.clone();
        match reader.decode(&obj, &mut dst) {
            Ok(()) => {
                if !dst.starts_with(&prefix) || &dst[prefix.len()..] != &want[..] {
                    obs.fail(format!("C20:adapter decode differs from the encoded samples:{layout}"), first_diff(&dst[prefix.len().min(dst.len())..], want));
                }
            }
            Err(e) => obs.fail(format!("C20:adapter decode fails on a valid RLE image:{layout}"), img::errs(&e)),
        }
        for k in 0..im.frames {
            let exp = &want[k as usize * fsz..(k as usize + 1) * fsz];
            let mut dst = prefix.clone();
            match reader.decode_frame(&obj, k, &mut dst) {
                Ok(()) => {
                    if !dst.starts_with(&prefix) || &dst[prefix.len()..] != exp {
                        obs.fail(format!("C20:adapter decode_frame differs from the encoded samples:{layout}"), format!("frame {k}: {}", first_diff(&dst[prefix.len().min(dst.len())..], exp)));
                    }
                }
                Err(e) => obs.fail(format!("C20:adapter decode_frame fails on a valid RLE image:{layout}"), img::errs(&e)),
            }
        }
    } else {
        obs.skip("RLE Lossless has no decoder in this build");
    }
}

pub fn run(ctx: &Ctx) {
    ctx.run_prop(
        "rle_decode",
        "G-IMG images (8/16 bits allocated, 1 or 3 samples, rows/cols 1-17 and occasionally 64-300 so rows exceed 128 bytes, 1-5 frames, random / few-valued / run-shaped bytes) encoded per PS3.5 Annex G by the reference encoder (one segment per byte plane, MSB first, rows encoded separately, literal/replicate choice and run lengths from a generated tape: lengths 1, 2, 127, 128, partial replicate runs, inserted -128 no-ops, zero padding to even); oracle: decode_pixel_data, decode_pixel_data_frame(k), and the registered adapter's decode/decode_frame (appending to a non-empty vector) equal the original little-endian pixel-interleaved bytes, whole == concatenation of frames; non-trivial = the encoding mixes literal and replicate runs",
        || {
            (img::img(ImgCfg { one_bit: false, max_frames: 5, large: true }), proptest::collection::vec(any::<u8>(), 0..40), any::<bool>(), any::<bool>(), any::<u8>())
                .prop_map(|(img, tape, bot, via_file, prefix)| Case { img, tape, bot, via_file, prefix })
                .boxed()
        },
        ctx.cases(4_000, 80_000),
        check,
    );
}
