//! C01 — data set write→read round trip in every writable transfer syntax.
use crate::conv::{obj_matches, split_mm, to_obj};
use crate::engine::{Ctx, Obs};
use crate::gen::{self, DsCfg};
use dicom_object::InMemDicomObject;
use dicom_parser::dataset::write::{DataSetWriterOptions, ExplicitLengthSqItemStrategy};
use dicom_transfer_syntax_registry::entries;
use dicom_encoding::TransferSyntax;
use proptest::prelude::*;
use refimpl::ds::{self, Elem, LenMode, Ts, Val};
use serde::{Deserialize, Serialize};

#[derive(Clone, Debug, Serialize, Deserialize)]
pub struct Case {
    pub ds: Vec<Elem>,
    /// 0 implicit LE, 1 explicit LE, 2 explicit BE, 3 deflated explicit LE
    pub ts: u8,
    pub no_change: bool,
    /// use the `_options` entry point even for the default strategy
    pub options_api: bool,
    /// path B: the in-memory object comes from reading a reference encoding (recorded lengths)
    pub from_reference_bytes: bool,
}

pub fn ts_of(i: u8) -> (TransferSyntax, Ts, &'static str) {
    match i {
        0 => (entries::IMPLICIT_VR_LITTLE_ENDIAN.erased(), Ts::ImplicitLE, "implicit-le"),
        1 => (entries::EXPLICIT_VR_LITTLE_ENDIAN.erased(), Ts::ExplicitLE, "explicit-le"),
        2 => (entries::EXPLICIT_VR_BIG_ENDIAN.erased(), Ts::ExplicitBE, "explicit-be"),
        _ => (entries::DEFLATED_EXPLICIT_VR_LITTLE_ENDIAN.erased(), Ts::ExplicitLE, "deflated"),
    }
}

fn strip_pix(elems: &[Elem]) -> Vec<Elem> {
    elems.iter().filter(|e| !e.v.is_pix()).cloned().collect()
}

pub fn nontrivial(ds: &[Elem]) -> bool {
    let mut nt = ds::count_elems(ds) >= 3;
    ds::walk(
        ds,
        &mut |e, _| {
            if e.v.is_seq() || e.v.is_pix() || !ds::is_short_vr(&e.vr) {
                nt = true;
            }
            if let Val::Strs(s) = &e.v {
                if s.len() > 1 {
                    nt = true;
                }
            }
        },
        0,
    );
    nt
}

pub fn classify(ds: &[Elem], obs: &mut Obs) {
    let mut depth = 0;
    let mut private = false;
    let mut pix = false;
    let mut explicit = false;
    let mut big = false;
    ds::walk(
        ds,
        &mut |e, d| {
            depth = depth.max(d + usize::from(e.v.is_seq()));
            private |= e.g & 1 == 1;
            pix |= e.v.is_pix();
            if let Val::Seq { items, explicit: ex } = &e.v {
                explicit |= *ex || items.iter().any(|i| i.explicit);
            }
            obs.class(format!("vr:{}", e.vr));
            big |= match &e.v {
                Val::U8(x) => x.len() > 65535,
                Val::U16(x) => x.len() > 32767,
                Val::U32(x) | Val::F32(x) => x.len() > 16383,
                Val::U64(x) | Val::F64(x) => x.len() > 8191,
                _ => false,
            };
        },
        0,
    );
    obs.class(format!("depth:{depth}"));
    if private {
        obs.class("has-private");
    }
    if pix {
        obs.class("has-pixel-sequence");
    }
    if explicit {
        obs.class("has-explicit-length-flag");
    }
    if big {
        obs.class("has-value>64KiB");
    }
}

/// Build the in-memory object for the case and write it.  Returns the written bytes, the IR the
/// output must be equivalent to, the length mode on the wire, and whether the options API was used.
pub fn build_and_write(c: &Case, obs: &mut Obs, prop: &str) -> Option<(Vec<u8>, Vec<Elem>, LenMode, bool)> {
    let (ts, enc, tsname) = ts_of(c.ts);
    let mut ir = c.ds.clone();
    if c.from_reference_bytes && enc == Ts::ExplicitBE {
        // encapsulated pixel data is little-endian only; the reference encoder is not asked for it
        ir = strip_pix(&ir);
    }
    obs.nontrivial = nontrivial(&ir);
    obs.class(format!("ts:{tsname}"));
    obs.class(if c.no_change { "strategy:no-change" } else { "strategy:set-undefined" });
    obs.class(if c.from_reference_bytes { "path:B-read-reference" } else { "path:A-built" });
    classify(&ir, obs);

    // --- build the in-memory object
    let (obj, mode_if_kept): (InMemDicomObject, LenMode) = if c.from_reference_bytes {
        let bytes = ds::encode_ds(&ir, enc, LenMode::AsFlagged);
        let base_ts = ts_of(match enc {
            Ts::ImplicitLE => 0,
            Ts::ExplicitLE => 1,
            Ts::ExplicitBE => 2,
        })
        .0;
        match InMemDicomObject::read_dataset_with_ts(&bytes[..], &base_ts) {
            Ok(o) => {
                if let Err(m) = obj_matches(&o, &ir, enc, LenMode::AsFlagged, "") {
                    let (k, d) = split_mm(&m);
                    obs.fail(format!("{prop}:read of reference encoding differs:{k}"), format!("[{tsname}] {d}"));
                    return None;
                }
                if enc == Ts::ImplicitLE {
                    // what the reader necessarily holds for unknown-tag defined-length sequences
                    ir = crate::conv::degrade_unknown_explicit_seqs(&ir, LenMode::AsFlagged);
                }
                (o, LenMode::AsFlagged)
            }
            Err(e) => {
                obs.fail(
                    format!("{prop}:reference encoding rejected by reader"),
                    format!("[{tsname}] {e}: {:?}", snafu_chain(&e)),
                );
                return None;
            }
        }
    } else {
        (to_obj(&ir, Some(enc)), LenMode::SeqFlaggedItemsUndefined)
    };

    // --- write
    let mut out = Vec::new();
    let use_options = c.no_change || c.options_api;
    let wr = if use_options {
        let strat = if c.no_change {
            ExplicitLengthSqItemStrategy::NoChange
        } else {
            ExplicitLengthSqItemStrategy::SetUndefined
        };
        obs.class("api:write_dataset_with_ts_options");
        obj.write_dataset_with_ts_options(
            &mut out,
            &ts,
            DataSetWriterOptions::default().explicit_length_sq_item_strategy(strat),
        )
    } else {
        obs.class("api:write_dataset_with_ts");
        obj.write_dataset_with_ts(&mut out, &ts)
    };
    if let Err(e) = wr {
        obs.fail(
            format!("{prop}:write failed:{}", err_kind(&e)),
            format!("[{tsname}] write error: {e}: {:?}", snafu_chain(&e)),
        );
        return None;
    }
    let written_mode = if c.no_change { mode_if_kept } else { LenMode::AllUndefined };
    Some((out, ir, written_mode, use_options))
}

pub fn check(c: &Case, obs: &mut Obs) {
    let (ts, enc, tsname) = ts_of(c.ts);
    let Some((out, ir, written_mode, use_options)) = build_and_write(c, obs, "C01") else { return };

    // --- read back with the same transfer syntax
    let back = match InMemDicomObject::read_dataset_with_ts(&out[..], &ts) {
        Ok(o) => o,
        Err(e) => {
            let api = if use_options { "options-api" } else { "default-api" };
            obs.fail(
                format!("C01:read-back failed:{}:{api}", if c.ts == 3 { "deflated" } else { "uncompressed" }),
                format!("[{tsname}] {e}: {:?}; {} bytes written", snafu_chain(&e), out.len()),
            );
            return;
        }
    };
    if let Err(m) = obj_matches(&back, &ir, enc, written_mode, "") {
        let (k, d) = split_mm(&m);
        obs.fail(format!("C01:round trip differs:{k}"), format!("[{tsname}] {d}"));
    }
}

pub fn snafu_chain(e: &dyn std::error::Error) -> Vec<String> {
    let mut v = vec![];
    let mut cur = e.source();
    while let Some(s) = cur {
        v.push(s.to_string());
        cur = s.source();
    }
    v
}

/// coarse kind of an error: its innermost source message with digits removed
pub fn err_kind(e: &dyn std::error::Error) -> String {
    let chain = snafu_chain(e);
    let last = chain.last().cloned().unwrap_or_else(|| e.to_string());
    crate::engine::norm_msg(&last)
}

pub fn strategy() -> BoxedStrategy<Case> {
    (gen::dataset(DsCfg::default()), 0u8..4, any::<bool>(), any::<bool>(), any::<bool>())
        .prop_map(|(ds, ts, no_change, options_api, from_reference_bytes)| Case {
            ds,
            ts,
            no_change,
            options_api,
            from_reference_bytes,
        })
        .boxed()
}

pub fn run(ctx: &Ctx) {
    ctx.assume("the dictionary VR used for the Implicit VR expectation is parsed from /repo/dictionary-std/src/tags.rs (consistency of the dictionary with that table is C15's business)");
    ctx.run_prop(
        "roundtrip",
        "G-DS data sets (all 34 VRs, standard/private/unknown tags, nesting<=4, explicit/undefined flags, pixel sequences) x {Implicit LE, Explicit LE, Explicit BE, Deflated} x {SetUndefined, NoChange} x {write_dataset_with_ts, _options} x {object built from parts, object read from a reference encoding}; oracle: write Ok, read-back ≈ IR; non-trivial = >=3 elements or a sequence/pixel sequence/32-bit-length VR/multi-valued text; distinct by IR+configuration",
        strategy,
        ctx.cases(60_000, 2_000_000),
        check,
    );
}
