//! C31 — command sets carry a correct Command Group Length.
use crate::conv::to_elem;
use crate::engine::{Ctx, Obs};
use crate::props::c01::ts_of;
use dicom_core::Tag;
use dicom_object::InMemDicomObject;
use proptest::prelude::*;
use refimpl::ds::{self, Elem, LenMode, Ts, Val};
use serde::{Deserialize, Serialize};

#[derive(Clone, Debug, Serialize, Deserialize)]
pub struct Case {
    /// command elements in the order they are handed to the constructor
    pub elems: Vec<Elem>,
    /// a caller-supplied (0000,0000) value that must be replaced
    pub stale_group_length: Option<u32>,
}

fn check(c: &Case, obs: &mut Obs) {
    obs.nontrivial = c.elems.len() >= 2;
    let odd = c.elems.iter().any(|e| crate::conv::ir_text(&e.vr, &e.v).map(|t| t.len() % 2 == 1).unwrap_or(false));
    if odd {
        obs.class("has-odd-length-value");
    }
    if c.stale_group_length.is_some() {
        obs.class("stale-group-length-given");
    }
    let mut input: Vec<Elem> = c.elems.clone();
    if let Some(v) = c.stale_group_length {
        input.insert(input.len() / 2, Elem { g: 0, e: 0, vr: "UL".into(), v: Val::U32(vec![v]) });
    }
    let obj = InMemDicomObject::command_from_element_iter(input.iter().map(|e| to_elem(e, None)));
    // reference: the command elements sorted by tag, encoded in Implicit VR LE
    let mut sorted = c.elems.clone();
    sorted.sort_by_key(|e| (e.g, e.e));
    let want = ds::encode_ds(&sorted, Ts::ImplicitLE, LenMode::AllUndefined).len() as u32;
    let got = match obj.get(Tag(0, 0)).and_then(|e| e.to_int::<u32>().ok()) {
        Some(v) => v,
        None => {
            obs.fail("C31:command set has no Command Group Length", String::new());
            return;
        }
    };
    if got != want {
        obs.fail(
            format!("C31:Command Group Length differs from the reference size:{}", if odd { "odd-length-value" } else { "even" }),
            format!("recorded {got}, reference encoding of the remaining elements has {want} bytes; elements {:?}", sorted.iter().map(|e| (e.e, e.vr.clone())).collect::<Vec<_>>()),
        );
    }
    // measured: bytes that follow the group length element when written in Implicit VR LE
    let mut out = vec![];
    let ts = ts_of(0).0;
    if let Err(e) = obj.write_dataset_with_ts(&mut out, &ts) {
        obs.fail("C31:command set cannot be written", e.to_string());
        return;
    }
    if out.len() < 12 || out[..8] != [0, 0, 0, 0, 4, 0, 0, 0] {
        obs.fail("C31:written command set does not start with (0000,0000) UL 4", format!("{:02x?}", &out[..out.len().min(12)]));
        return;
    }
    let on_wire = u32::from_le_bytes([out[8], out[9], out[10], out[11]]);
    let after = (out.len() - 12) as u32;
    if on_wire != after {
        obs.fail(
            format!("C31:written Command Group Length differs from the bytes that follow:{}", if odd { "odd-length-value" } else { "even" }),
            format!("group length {on_wire}, {after} bytes follow"),
        );
    }
    // the written set re-parses
    match InMemDicomObject::read_dataset_with_ts(&out[..], &ts) {
        Ok(back) => {
            let n = back.iter().count();
            if n != sorted.len() + 1 {
                obs.fail("C31:re-read command set has a different number of elements", format!("{n} vs {}", sorted.len() + 1));
            }
        }
        Err(e) => obs.fail("C31:written command set does not re-parse", e.to_string()),
    }
}

pub fn run(ctx: &Ctx) {
    ctx.run_prop(
        "command_group_length",
        "1-12 group-0000 elements with VR in {UI, US, UL, AE, LO, AT}, random lengths / multiplicity (default repertoire), a quarter of the text values already padded with 1-8 trailing spaces or NULs, unique tags, handed to the constructor in random order, optionally with a stale (0000,0000); oracle: recorded Command Group Length == size of the reference Implicit VR LE encoding of the remaining elements == measured bytes after the group length element in the written set; the written set re-parses; non-trivial = at least two elements",
        || {
            let vrs = proptest::sample::select(vec!["UI", "US", "UL", "AE", "LO", "AT"]);
            let el = (1u16..0x1200, vrs).prop_flat_map(|(e, vr)| (Just(e), Just(vr), crate::gen::value_for(vr, 0))).prop_map(|(e, vr, v)| Elem { g: 0, e, vr: vr.to_string(), v });
            (proptest::collection::vec(el, 1..13), proptest::option::weighted(0.3, any::<u32>()), any::<u64>())
                .prop_map(|(mut elems, stale_group_length, shuffle)| {
                    elems.sort_by_key(|e| e.e);
                    elems.dedup_by_key(|e| e.e);
                    // deterministic shuffle from the generated key
                    let mut x = shuffle | 1;
                    for i in (1..elems.len()).rev() {
                        x ^= x << 13;
                        x ^= x >> 7;
                        x ^= x << 17;
                        elems.swap(i, (x % (i as u64 + 1)) as usize);
                    }
                    // values as applications hand them over: often already padded (AE titles filled up with spaces,
                    // UIDs with a NUL), by one or by several pad characters
                    for (i, e) in elems.iter_mut().enumerate() {
                        let r = (x >> (i * 5 % 60)) & 31;
                        if r < 8 {
                            let pad = if e.vr == "UI" && r % 2 == 0 { "\0" } else { " " };
                            let n = 1 + (r as usize % 4) * 2 + (r as usize / 4) % 2;
                            match &mut e.v {
                                refimpl::ds::Val::Strs(v) if !v.is_empty() => {
                                    let k = (r as usize) % v.len();
                                    v[k].push_str(&pad.repeat(n));
                                }
                                refimpl::ds::Val::Str(t) => t.push_str(&pad.repeat(n)),
                                _ => {}
                            }
                        }
                    }
                    Case { elems, stale_group_length }
                })
                .boxed()
        },
        ctx.cases(30_000, 600_000),
        check,
    );
}
