//! C22 — modality and VOI LUT outputs match the PS3.3 formulas.
use crate::engine::{Ctx, Obs, Tier};
use crate::img::{self, Img};
use dicom_core::{DataElement, VR};
use dicom_dictionary_std::tags;
use dicom_pixeldata::{ConvertOptions, Lut, ModalityLutOption, PixelDecoder, Rescale, VoiLutFunction, VoiLutOption, WindowLevel, WindowLevelTransform};
use num_traits::{NumCast, ToPrimitive};
use refimpl::lut::{self as rl, Func};
use serde::{Deserialize, Serialize};

const RESCALES: [(f64, f64); 9] = [(1.0, 0.0), (1.0, -1024.0), (2.0, -1024.0), (0.5, 0.0), (2.5, 10.0), (-1.0, 0.0), (0.0, 5.0), (0.001, 0.0), (1.0, 1024.0)];
/// (center, width), including widths the standard forbids
const WINDOWS: [(f64, f64); 11] = [(50.0, 300.0), (128.0, 256.0), (0.0, 1.0), (0.0, 0.0), (0.5, 0.5), (-100.0, -5.0), (1000.0, 1.0e6), (40.25, 80.5), (2048.0, 4096.0), (-0.5, 2.0), (7.0, 3.0)];
const TYPES: [&str; 6] = ["u8", "u16", "i16", "i32", "f32", "f64"];

#[derive(Clone, Debug, Serialize, Deserialize)]
pub struct Item {
    pub bits_alloc: u16,
    pub bits_stored: u16,
    pub signed: bool,
    pub rescale: usize,
    /// None = default pipeline (modality LUT only); Some((window, function 0..3))
    pub window: Option<(usize, u8)>,
    pub ty: usize,
    /// to_vec path only: 0 = attributes in the object (VoiLutOption::First), 1 = Custom window
    /// (function from the object), 2 = CustomWithFunction, 3 = rescale given as Override
    pub how: u8,
}

fn func(i: u8) -> (Func, VoiLutFunction, &'static str) {
    match i % 3 {
        0 => (Func::Linear, VoiLutFunction::Linear, "LINEAR"),
        1 => (Func::LinearExact, VoiLutFunction::LinearExact, "LINEAR_EXACT"),
        _ => (Func::Sigmoid, VoiLutFunction::Sigmoid, "SIGMOID"),
    }
}

/// range of an output type: (min, max, is integer)
fn ty_range(t: &str) -> (f64, f64, bool) {
    match t {
        "u8" => (0.0, 255.0, true),
        "u16" => (0.0, 65535.0, true),
        "i16" => (-32768.0, 32767.0, true),
        "i32" => (-2147483648.0, 2147483647.0, true),
        _ => (f64::NEG_INFINITY, f64::INFINITY, false),
    }
}

/// documented amplitude of window outputs: 2^n - 1, n = power of two following bits stored
fn doc_ymax(bits_stored: u16) -> f64 {
    ((1u64 << (bits_stored as u32).next_power_of_two()) - 1) as f64
}

/// expected output (before conversion to the output type) for a raw stored pattern
fn expected(it: &Item, raw: u32, ymax: f64) -> f64 {
    let x = rl::interpret(raw, it.bits_stored as u32, it.signed) as f64;
    let (m, b) = RESCALES[it.rescale];
    let y = rl::rescale(x, m, b);
    match it.window {
        None => y,
        Some((w, f)) => {
            let (c, ww) = WINDOWS[w];
            let fu = func(f).0;
            rl::window(fu, y, c, rl::clamp_width(fu, ww), ymax)
        }
    }
}

/// Compare produced outputs (as f64) for all raw patterns with the reference.
/// `outs[i]` is the output for raw pattern `raws[i]`; None = the code refused (conversion error).
fn judge(what: &str, it: &Item, raws: &[u32], outs: Option<&[f64]>, ymaxes: &[f64], obs: &mut Obs) {
    let t = TYPES[it.ty];
    let (lo, hi, is_int) = ty_range(t);
    let desc = || format!("{what}: bits stored {} of {}, {}, rescale {:?}, window {:?}, output {t}", it.bits_stored, it.bits_alloc, if it.signed { "signed" } else { "unsigned" }, RESCALES[it.rescale], it.window.map(|(w, f)| (WINDOWS[w], func(f).2)));
    let kind = format!("{}{}", if it.window.is_some() { "window" } else { "rescale" }, if it.bits_stored < it.bits_alloc { ":stored<allocated" } else { "" });
    // representability of every expected output in the output type
    let mut last_err = None;
    for ymax in ymaxes {
        let unrepresentable = raws.iter().map(|r| expected(it, *r, *ymax)).find(|y| !(y.is_finite()) || (is_int && (*y <= lo - 1.0 || *y >= hi + 1.0)));
        let Some(outs) = outs else {
            if unrepresentable.is_some() {
                return; // refusing is the documented outcome
            }
            last_err = Some((format!("C22:conversion refused although every output is representable:{kind}:{t}"), desc()));
            continue;
        };
        if let Some(y) = unrepresentable {
            // an unrepresentable value must not be silently produced
            last_err = Some((format!("C22:output produced although a value is not representable in the output type:{kind}:{t}"), format!("{}; e.g. {y}", desc())));
            continue;
        }
        let mut bad = None;
        for (i, r) in raws.iter().enumerate() {
            let want = expected(it, *r, *ymax);
            let got = outs[i];
            let ok = if is_int {
                // truncation and rounding are both conversions to the output type
                got >= (want - 1e-9).floor() && got <= (want + 1e-9).ceil()
            } else {
                let tol = if t == "f32" { 1e-6 } else { 1e-9 } * want.abs().max(1.0);
                (got - want).abs() <= tol
            };
            if !ok {
                bad = Some(format!("raw pattern {r:#06x} (interpreted {}) gives {got}, formula gives {want} (ymax {ymax})", rl::interpret(*r, it.bits_stored as u32, it.signed)));
                break;
            }
            if it.window.is_some() && (got < -1e-9 * ymax || got > ymax * (1.0 + 1e-9)) {
                bad = Some(format!("raw pattern {r:#06x} gives {got}, outside [0, {ymax}]"));
                break;
            }
        }
        match bad {
            None => {
                last_err = None;
                break;
            }
            Some(d) => {
                let sign = if it.signed { "signed" } else { "unsigned" };
                last_err = Some((format!("C22:output differs from the PS3.3 formula:{what}:{kind}:{sign}:{}bit", it.bits_alloc), format!("{}; {d}", desc())));
            }
        }
    }
    if let Some((s, d)) = last_err {
        obs.fail(s, d);
        return;
    }
    // monotonicity in the interpreted value for linear functions and non-negative slopes
    if let Some(outs) = outs {
        let linear = it.window.map(|(_, f)| func(f).0 != Func::Sigmoid).unwrap_or(true);
        if linear && RESCALES[it.rescale].0 >= 0.0 {
            let mut pairs: Vec<(i64, f64)> = raws.iter().zip(outs).map(|(r, o)| (rl::interpret(*r, it.bits_stored as u32, it.signed), *o)).collect();
            pairs.sort_by(|a, b| a.0.cmp(&b.0).then(a.1.partial_cmp(&b.1).unwrap()));
            let tol = if is_int { 0.0 } else { 1e-9 * ymaxes[0].max(1.0) };
            for w in pairs.windows(2) {
                if w[1].1 < w[0].1 - tol {
                    obs.fail(format!("C22:output decreases as the stored value increases:{kind}"), format!("{}; value {} gives {}, value {} gives {}", desc(), w[0].0, w[0].1, w[1].0, w[1].1));
                    return;
                }
            }
        }
    }
}

fn classes(it: &Item, obs: &mut Obs) {
    obs.nontrivial = it.bits_stored < 16 || it.signed;
    if it.bits_stored < it.bits_alloc {
        obs.class(if it.signed { "stored<allocated:signed" } else { "stored<allocated:unsigned" });
    }
    if let Some((w, f)) = it.window {
        obs.class(func(f).2);
        if WINDOWS[w].1 < 1.0 {
            obs.class("degenerate-width");
        }
    } else {
        obs.class("default-pipeline");
    }
}

// ------------------------------------------------------------------ Lut API

fn lut_outs<T>(it: &Item, raws: &[u32]) -> Option<Vec<f64>>
where
    T: NumCast + ToPrimitive + Copy + Send + Sync + 'static,
{
    let (m, b) = RESCALES[it.rescale];
    let lut: Lut<T> = match it.window {
        None => Lut::new_rescale(it.bits_stored, it.signed, Rescale::new(m, b)),
        Some((w, f)) => Lut::new_rescale_and_window(it.bits_stored, it.signed, Rescale::new(m, b), WindowLevelTransform::new(func(f).1, WindowLevel { center: WINDOWS[w].0, width: WINDOWS[w].1 })),
    }
    .ok()?;
    Some(raws.iter().map(|r| lut.get(*r as u16).to_f64().unwrap_or(f64::NAN)).collect())
}

fn check_lut(it: &Item, obs: &mut Obs) {
    classes(it, obs);
    // every 16-bit pattern: all values of the stored bits, with every combination of the bits above
    let raws: Vec<u32> = (0..=0xFFFFu32).collect();
    obs.extra_evals = raws.len() as u64 - 1;
    let outs = match TYPES[it.ty] {
        "u8" => lut_outs::<u8>(it, &raws),
        "u16" => lut_outs::<u16>(it, &raws),
        "i16" => lut_outs::<i16>(it, &raws),
        "i32" => lut_outs::<i32>(it, &raws),
        "f32" => lut_outs::<f32>(it, &raws),
        _ => lut_outs::<f64>(it, &raws),
    };
    judge("Lut", it, &raws, outs.as_deref(), &[doc_ymax(it.bits_stored)], obs);
}

// ------------------------------------------------------------------ to_vec on a synthetic image

fn vec_outs<T>(obj: &img::FileObj, opts: &ConvertOptions, default_api: bool) -> Result<Option<Vec<f64>>, String>
where
    T: NumCast + ToPrimitive + Copy + Send + Sync + 'static,
{
    let d = obj.decode_pixel_data().map_err(|e| img::errs(&e))?;
    let r = if default_api { d.to_vec::<T>() } else { d.to_vec_with_options::<T>(opts) };
    match r {
        Ok(v) => Ok(Some(v.iter().map(|x| x.to_f64().unwrap_or(f64::NAN)).collect())),
        Err(e) => {
            let s = img::errs(&e);
            // the documented refusal: a value could not be converted to the output type
            if s.to_lowercase().contains("lut") || s.to_lowercase().contains("convert") || s.to_lowercase().contains("data type") {
                Ok(None)
            } else {
                Err(s)
            }
        }
    }
}

fn check_vec(it: &Item, obs: &mut Obs) {
    classes(it, obs);
    obs.class(format!("{}bit-allocated", it.bits_alloc));
    let n: u32 = if it.bits_alloc == 8 { 256 } else { 65536 };
    let raws: Vec<u32> = (0..n).collect();
    obs.extra_evals = n as u64 - 1;
    let side = if it.bits_alloc == 8 { 16 } else { 256 };
    let data: Vec<u8> = if it.bits_alloc == 8 { raws.iter().map(|r| *r as u8).collect() } else { raws.iter().flat_map(|r| (*r as u16).to_le_bytes()).collect() };
    let im = Img { rows: side, cols: side, samples: 1, bits_alloc: it.bits_alloc, bits_stored: it.bits_stored, signed: it.signed, frames: 1, data, frames_attr: false, mono1: false };
    let mut obj = img::build_native(&im, "1.2.840.10008.1.2.1");
    let (m, b) = RESCALES[it.rescale];
    let by_override = it.how % 4 == 3;
    if !by_override {
        obj.put(DataElement::new(tags::RESCALE_INTERCEPT, VR::DS, format!("{b}")));
        obj.put(DataElement::new(tags::RESCALE_SLOPE, VR::DS, format!("{m}")));
    }
    let mut opts = ConvertOptions::new();
    if by_override {
        opts = opts.with_modality_lut(ModalityLutOption::Override(Rescale::new(m, b)));
    }
    let mut default_api = false;
    match it.window {
        None => {
            default_api = !by_override;
        }
        Some((w, f)) => {
            let wl = WindowLevel { center: WINDOWS[w].0, width: WINDOWS[w].1 };
            match it.how % 4 {
                0 | 3 => {
                    obj.put(DataElement::new(tags::WINDOW_CENTER, VR::DS, format!("{}", wl.center)));
                    obj.put(DataElement::new(tags::WINDOW_WIDTH, VR::DS, format!("{}", wl.width)));
                    obj.put(DataElement::new(tags::VOILUT_FUNCTION, VR::CS, func(f).2));
                    opts = opts.with_voi_lut(VoiLutOption::First);
                }
                1 => {
                    obj.put(DataElement::new(tags::VOILUT_FUNCTION, VR::CS, func(f).2));
                    opts = opts.with_voi_lut(VoiLutOption::Custom(wl));
                }
                _ => {
                    opts = opts.with_voi_lut(VoiLutOption::CustomWithFunction(wl, func(f).1));
                }
            }
        }
    }
    let outs = match TYPES[it.ty] {
        "u8" => vec_outs::<u8>(&obj, &opts, default_api),
        "u16" => vec_outs::<u16>(&obj, &opts, default_api),
        "i16" => vec_outs::<i16>(&obj, &opts, default_api),
        "i32" => vec_outs::<i32>(&obj, &opts, default_api),
        "f32" => vec_outs::<f32>(&obj, &opts, default_api),
        _ => vec_outs::<f64>(&obj, &opts, default_api),
    };
    let outs = match outs {
        Ok(o) => o,
        Err(e) => {
            obs.fail("C22:conversion of a plain monochrome image fails", format!("{e}; bits stored {} of {}", it.bits_stored, it.bits_alloc));
            return;
        }
    };
    if let Some(o) = &outs {
        if o.len() != raws.len() {
            obs.fail("C22:to_vec yields a different number of samples", format!("{} vs {}", o.len(), raws.len()));
            return;
        }
    }
    // the property does not fix the amplitude: accept the documented one (from bits stored) or the full range of the allocation
    let mut ymaxes = vec![doc_ymax(it.bits_stored)];
    let full = ((1u32 << it.bits_alloc) - 1) as f64;
    if full != ymaxes[0] {
        ymaxes.push(full);
    }
    judge("to_vec", it, &raws, outs.as_deref(), &ymaxes, obs);
}

fn items(to_vec: bool, thorough: bool, seed: u64) -> Vec<Item> {
    let mut v = vec![];
    let allocs: &[u16] = if to_vec { &[8, 16] } else { &[16] };
    for &bits_alloc in allocs {
        for bits_stored in 1..=bits_alloc {
            for signed in [false, true] {
                for rescale in 0..RESCALES.len() {
                    for ty in 0..TYPES.len() {
                        let hows: &[u8] = if to_vec { &[0, 3] } else { &[0] };
                        for &how in hows {
                            v.push(Item { bits_alloc, bits_stored, signed, rescale, window: None, ty, how });
                        }
                        for w in 0..WINDOWS.len() {
                            for f in 0..3u8 {
                                let hows: &[u8] = if to_vec { &[0, 1, 2, 3] } else { &[0] };
                                for &how in hows {
                                    v.push(Item { bits_alloc, bits_stored, signed, rescale, window: Some((w, f)), ty, how });
                                }
                            }
                        }
                    }
                }
            }
        }
    }
    // deterministic shuffle (balances the work across threads; the quick tier takes a prefix)
    let mut x = seed.wrapping_mul(0x9E37_79B9_7F4A_7C15) | 1;
    for i in (1..v.len()).rev() {
        x ^= x << 13;
        x ^= x >> 7;
        x ^= x << 17;
        v.swap(i, (x % (i as u64 + 1)) as usize);
    }
    if !thorough {
        // every (allocation, bits stored, signedness) keeps its default-pipeline items for the identity rescale;
        // the rest is a seeded sample
        let keep = if to_vec { 6000 } else { 4000 };
        let (must, rest): (Vec<Item>, Vec<Item>) = v.into_iter().partition(|i| i.window.is_none() && i.rescale <= 1 && i.how == 0);
        let mut out = must;
        out.extend(rest.into_iter().take(keep));
        return out;
    }
    v
}

pub fn run(ctx: &Ctx) {
    let thorough = matches!(ctx.tier, Tier::Thorough);
    ctx.run_enum(
        "lut_api",
        "Lut::new_rescale / new_rescale_and_window + get over ALL 65536 16-bit stored patterns (so every value of the stored bits with every combination of bits above the high bit) for bits stored 1-16 x both signednesses x 9 slope/intercept pairs (incl. negative, zero, fractional) x {default pipeline, 11 centre/width pairs incl. widths 0, 0.5, 1, negative, 1e6 x LINEAR / LINEAR_EXACT / SIGMOID} x output types u8, u16, i16, i32, f32, f64; thorough = full grid, quick = all default-pipeline identity items + a seeded sample of 4000 others; oracle: PS3.3 C.11.1/C.11.2 reference (sign-extend from bits stored, m*x+b, window formula with ymax = 2^n-1 as documented and the documented width clamping); integer outputs must be floor or ceil of the formula value, float outputs within 1e-9 (f32: 1e-6) relative; a constructor error is accepted only when some output is not representable in the type; window outputs within [0, ymax]; outputs non-decreasing in the interpreted value for linear functions with slope >= 0",
        items(false, thorough, ctx.seed),
        thorough,
        check_lut,
    );
    ctx.run_enum(
        "to_vec",
        "decode_pixel_data + to_vec / to_vec_with_options on a synthetic MONOCHROME2 image holding every stored pattern (256 for 8 bits allocated, 65536 for 16), bits stored 1..allocated x signedness x the same parameter grids, parameters given as attributes (Rescale Slope/Intercept, Window Center/Width, VOI LUT Function + VoiLutOption::First), as Custom / CustomWithFunction windows, or as a rescale Override; same oracle; the window amplitude may be the documented 2^n-1 (n from bits stored) or the full range of the allocation, consistently for one call",
        items(true, thorough, ctx.seed),
        thorough,
        check_vec,
    );
}
