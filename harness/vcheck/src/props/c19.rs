//! C19 — lossless transcoding preserves pixel data exactly.
use crate::engine::{Ctx, Obs};
use crate::img::{self, FileObj, Img, ImgCfg};
use dicom_core::value::Value;
use dicom_dictionary_std::tags;
use dicom_encoding::transfer_syntax::TransferSyntaxIndex;
use dicom_pixeldata::Transcode;
use dicom_transfer_syntax_registry::TransferSyntaxRegistry;
use proptest::prelude::*;
use serde::{Deserialize, Serialize};

/// lossless targets: (uid, label, encapsulated)
pub const TARGETS: [(&str, &str, bool); 5] = [
    ("1.2.840.10008.1.2.1.98", "encapsulated-uncompressed", true),
    ("1.2.840.10008.1.2.8.1", "deflated-image-frame", true),
    ("1.2.840.10008.1.2", "implicit-le", false),
    ("1.2.840.10008.1.2.2", "explicit-be", false),
    ("1.2.840.10008.1.2.1.99", "deflated-explicit-le", false),
];

#[derive(Clone, Debug, Serialize, Deserialize)]
pub struct Case {
    pub img: Img,
    /// chain of targets (indices into TARGETS), 1 or 2 hops before coming back
    pub hops: Vec<u8>,
    /// write to bytes and re-open between the hops (as a tool would)
    pub via_file: bool,
}

fn native_bytes(obj: &FileObj) -> Option<Vec<u8>> {
    match obj.get(tags::PIXEL_DATA)?.value() {
        Value::Primitive(p) => Some(p.to_bytes().to_vec()),
        _ => None,
    }
}

fn check(c: &Case, obs: &mut Obs) {
    let im = &c.img;
    let odd_frame = im.frame_bytes() % 2 == 1;
    obs.nontrivial = im.frames >= 2 || odd_frame;
    if odd_frame && im.frames >= 2 {
        obs.class("odd-frame-size-multiframe");
    }
    obs.class(im.label());
    let mut obj = img::build_native(im, "1.2.840.10008.1.2.1");
    let mut path = String::new();
    for h in &c.hops {
        let (uid, label, _) = TARGETS[*h as usize % TARGETS.len()];
        obs.class(format!("to:{label}"));
        path.push_str(label);
        path.push('>');
        let Some(ts) = TransferSyntaxRegistry.get(uid) else {
            obs.skip(format!("{label} not registered"));
            return;
        };
        if let Err(e) = obj.transcode(ts) {
            obs.fail(format!("C19:transcoding a native image fails:{label}"), img::errs(&e));
            return;
        }
        if obj.meta().transfer_syntax() != uid {
            obs.fail(format!("C19:transfer syntax not updated:{label}"), obj.meta().transfer_syntax().to_string());
            return;
        }
        if c.via_file {
            obj = match img::through_file(&obj) {
                Ok(o) => o,
                Err(e) => {
                    obs.fail(format!("C19:transcoded object does not survive write and read:{label}"), e);
                    return;
                }
            };
        }
    }
    let back = TransferSyntaxRegistry.get("1.2.840.10008.1.2.1").expect("HARNESS: Explicit VR LE registered");
    if let Err(e) = obj.transcode(back) {
        obs.fail(format!("C19:transcoding back to Explicit VR Little Endian fails:{path}"), img::errs(&e));
        return;
    }
    let kind = format!("{}{}", if odd_frame { "odd-frame" } else { "even-frame" }, if im.frames >= 2 { ":multiframe" } else { ":single" });
    let Some(got) = native_bytes(&obj) else {
        obs.fail(format!("C19:pixel data is not native after transcoding back:{path}"), String::new());
        return;
    };
    let want = &im.data;
    // a single trailing pad byte is tolerated for an odd total
    let cmp: &[u8] = if got.len() == want.len() + 1 && want.len() % 2 == 1 && got[want.len()] == 0 { &got[..want.len()] } else { &got[..] };
    if cmp != &want[..] {
        let d = if cmp.len() != want.len() {
            format!("{} bytes vs {} original", cmp.len(), want.len())
        } else {
            let i = cmp.iter().zip(want.iter()).position(|(a, b)| a != b).unwrap();
            let fsz = im.frame_bytes();
            let bad: Vec<usize> = (0..im.frames as usize).filter(|k| cmp[k * fsz..(k + 1) * fsz] != want[k * fsz..(k + 1) * fsz]).collect();
            format!("first difference at byte {i} (got {:02x?}, original {:02x?}); frames that differ: {bad:?}", &cmp[i..(i + 8).min(cmp.len())], &want[i..(i + 8).min(want.len())])
        };
        obs.fail(format!("C19:pixel data changed by a lossless round trip:{path}:{kind}"), format!("{d}; {}x{}x{} {} bit, {} frames", im.rows, im.cols, im.samples, im.bits_alloc, im.frames));
        return;
    }
    // attributes consistent with the pixel data
    let int = |t| obj.get(t).and_then(|e| e.to_int::<u32>().ok());
    let frames = int(tags::NUMBER_OF_FRAMES).unwrap_or(1);
    let expect_len = int(tags::ROWS).unwrap_or(0) as usize * int(tags::COLUMNS).unwrap_or(0) as usize * int(tags::SAMPLES_PER_PIXEL).unwrap_or(0) as usize * (int(tags::BITS_ALLOCATED).unwrap_or(0) as usize / 8) * frames as usize;
    if expect_len != want.len() {
        obs.fail(format!("C19:image attributes inconsistent with the pixel data length:{path}"), format!("attributes describe {expect_len} bytes, pixel data has {}", want.len()));
    }
    if frames != im.frames {
        obs.fail(format!("C19:Number of Frames changed:{path}"), format!("{frames} vs {}", im.frames));
    }
    let same = [
        (tags::BITS_ALLOCATED, im.bits_alloc as u32),
        (tags::BITS_STORED, im.bits_stored as u32),
        (tags::HIGH_BIT, im.bits_stored as u32 - 1),
        (tags::PIXEL_REPRESENTATION, im.signed as u32),
        (tags::SAMPLES_PER_PIXEL, im.samples as u32),
        (tags::ROWS, im.rows as u32),
        (tags::COLUMNS, im.cols as u32),
    ];
    for (t, v) in same {
        if int(t) != Some(v) {
            obs.fail(format!("C19:image attribute changed by a lossless round trip:{path}"), format!("{t}: {:?} vs {v}", int(t)));
        }
    }
    let pi = obj.get(tags::PHOTOMETRIC_INTERPRETATION).and_then(|e| e.to_str().ok().map(|s| s.trim_end().to_string()));
    if pi.as_deref() != Some(im.photometric()) {
        obs.fail(format!("C19:Photometric Interpretation changed by a lossless round trip:{path}"), format!("{pi:?} vs {}", im.photometric()));
    }
}

pub fn run(ctx: &Ctx) {
    ctx.run_prop(
        "lossless_roundtrip",
        "G-IMG native images (8/16 bits, 1 or 3 samples, MONOCHROME1/2 or RGB, rows/cols 1-17 and occasionally 64-300, 1-7 frames, odd-sized frames common) transcoded through 1-2 targets among {Encapsulated Uncompressed, Deflated Image Frame, Implicit VR LE, Explicit VR BE, Deflated Explicit VR LE}, optionally written to bytes and re-opened after each hop, then back to Explicit VR LE; oracle: pixel bytes identical to the original (one trailing zero pad byte tolerated for an odd total), Rows x Columns x Samples x bytes x Number of Frames == pixel data length, Bits*/Pixel Representation/Photometric Interpretation unchanged; non-trivial = at least two frames or an odd frame size",
        || {
            (img::img(ImgCfg { one_bit: false, max_frames: 7, large: true }), proptest::collection::vec(0u8..5, 1..=2), any::<bool>())
                .prop_map(|(img, hops, via_file)| Case { img, hops, via_file })
                .boxed()
        },
        ctx.cases(3_000, 50_000),
        check,
    );
}
