//! C10 — text is encoded and decoded faithfully in every supported character set.
use crate::conv::{to_obj, vr_name};
use crate::engine::{Ctx, Obs};
use crate::props::c01::ts_of;
use dicom_core::value::{PrimitiveValue, Value};
use dicom_encoding::text::{SpecificCharacterSet, TextCodec};
use dicom_object::InMemDicomObject;
use proptest::prelude::*;
use refimpl::ds::{Elem, Item, Val};
use serde::{Deserialize, Serialize};
use std::collections::HashMap;
use std::sync::OnceLock;

pub const SETS: [&str; 16] = [
    "ISO_IR 6", "ISO_IR 100", "ISO_IR 101", "ISO_IR 109", "ISO_IR 110", "ISO_IR 144", "ISO_IR 127", "ISO_IR 126", "ISO_IR 138", "ISO_IR 166", "ISO_IR 192", "ISO_IR 13",
    "ISO_IR 87", "ISO_IR 149", "GB18030", "GBK",
];

fn single_byte(name: &str) -> bool {
    matches!(name, "ISO_IR 6" | "ISO_IR 100" | "ISO_IR 101" | "ISO_IR 109" | "ISO_IR 110" | "ISO_IR 144" | "ISO_IR 127" | "ISO_IR 126" | "ISO_IR 138" | "ISO_IR 166")
}

#[derive(Clone, Debug, Serialize, Deserialize, Default)]
pub struct PinnedSet {
    /// (code point, bytes) pairs on which CPython's codec and the tree agreed when the table was pinned
    pub table: Vec<(u32, Vec<u8>)>,
    /// code points CPython encodes but the tree did not reproduce at pinning time (not asserted)
    pub dropped: Vec<u32>,
    /// dropped code points that the tree nevertheless round-trips with other bytes (e.g. ISO 2022 escape
    /// sequence placement): used for round-trip-only checks
    #[serde(default)]
    pub roundtrip: Vec<u32>,
    /// code points outside the set that must be refused
    pub outside: Vec<u32>,
    /// code points CPython refuses but the tree accepted at pinning time (documented leniency; not asserted)
    pub lenient: Vec<u32>,
}

fn hexbytes(h: &str) -> Vec<u8> {
    (0..h.len()).step_by(2).map(|i| u8::from_str_radix(&h[i..i + 2], 16).unwrap()).collect()
}

/// one-off: build data/charsets.json from data/charsets_raw.json and the current tree
pub fn pin(root: &std::path::Path) -> Result<(), String> {
    let raw: serde_json::Value = serde_json::from_str(&std::fs::read_to_string(root.join("data/charsets_raw.json")).map_err(|e| e.to_string())?).map_err(|e| e.to_string())?;
    let mut out: HashMap<String, PinnedSet> = HashMap::new();
    for name in SETS {
        let cs = SpecificCharacterSet::from_code(name).ok_or(format!("{name} not supported"))?;
        let mut p = PinnedSet::default();
        for t in raw[name]["table"].as_array().ok_or("table")? {
            let cp = t[0].as_u64().unwrap() as u32;
            let bytes = hexbytes(t[1].as_str().unwrap());
            let ch = char::from_u32(cp).unwrap().to_string();
            let agree = cs.encode(&ch).map(|b| b == bytes).unwrap_or(false) && cs.decode(&bytes).map(|s| s == ch).unwrap_or(false);
            if agree {
                p.table.push((cp, bytes));
            } else {
                p.dropped.push(cp);
                if cs.encode(&ch).ok().and_then(|b| cs.decode(&b).ok()).map(|s| s == ch).unwrap_or(false) {
                    p.roundtrip.push(cp);
                }
            }
        }
        for t in raw[name]["outside_sample"].as_array().ok_or("outside")? {
            let cp = t.as_u64().unwrap() as u32;
            let Some(ch) = char::from_u32(cp) else { continue };
            if cs.encode(&ch.to_string()).is_err() {
                p.outside.push(cp);
            } else {
                p.lenient.push(cp);
            }
        }
        eprintln!("{name}: {} pinned, {} dropped ({} of them round-trip), {} outside, {} lenient", p.table.len(), p.dropped.len(), p.roundtrip.len(), p.outside.len(), p.lenient.len());
        out.insert(name.to_string(), p);
    }
    std::fs::write(root.join("data/charsets.json"), serde_json::to_string(&out).unwrap()).map_err(|e| e.to_string())
}

fn pinned() -> &'static HashMap<String, PinnedSet> {
    static P: OnceLock<HashMap<String, PinnedSet>> = OnceLock::new();
    P.get_or_init(|| {
        let root = std::env::var("VERIF_ROOT").unwrap_or_else(|_| "/verif".into());
        let txt = std::fs::read_to_string(format!("{root}/data/charsets.json")).unwrap_or_else(|e| {
            eprintln!("cannot read data/charsets.json: {e}");
            std::process::exit(2)
        });
        serde_json::from_str(&txt).unwrap_or_else(|e| {
            eprintln!("bad data/charsets.json: {e}");
            std::process::exit(2)
        })
    })
}

// ------------------------------------------------------------------------------------------
// codec level

#[derive(Clone, Debug, Serialize, Deserialize)]
pub struct CodecCase {
    pub set: String,
    /// indices into the pinned table
    pub picks: Vec<u32>,
    /// an index into the pinned outside list, inserted at `at`
    pub outside: Option<(u32, u32)>,
    pub trailing_spaces: u8,
}

fn idx(i: u32, len: usize) -> usize {
    ((i as u64 * len as u64) >> 32) as usize
}

fn check_codec(c: &CodecCase, obs: &mut Obs) {
    let p = &pinned()[&c.set];
    let cs = match SpecificCharacterSet::from_code(&c.set) {
        Some(cs) => cs,
        None => {
            obs.fail("C10:supported character set not found by its defined term", c.set.clone());
            return;
        }
    };
    obs.class(format!("set:{}", c.set));
    // defined term maps back, also with trailing spaces
    let padded = format!("{}{}", cs.name(), " ".repeat(c.trailing_spaces as usize));
    match SpecificCharacterSet::from_code(&padded) {
        Some(back) if back == cs => {}
        other => obs.fail("C10:defined term does not map back to the same set", format!("{padded:?} -> {other:?}")),
    }
    if cs.name() != c.set {
        obs.fail("C10:name() differs from the defined term", format!("{} vs {}", cs.name(), c.set));
    }
    if p.table.is_empty() {
        return;
    }
    static NOBYTES: Vec<u8> = Vec::new();
    let total = p.table.len() + p.roundtrip.len();
    let chars: Vec<(char, &Vec<u8>)> = c
        .picks
        .iter()
        .map(|i| {
            let k = idx(*i, total);
            if k < p.table.len() {
                (char::from_u32(p.table[k].0).unwrap(), &p.table[k].1)
            } else {
                (char::from_u32(p.roundtrip[k - p.table.len()]).unwrap(), &NOBYTES)
            }
        })
        .collect();
    let s: String = chars.iter().map(|(ch, _)| *ch).collect();
    obs.nontrivial = s.chars().any(|ch| !ch.is_ascii());
    match cs.encode(&s) {
        Ok(bytes) => {
            if single_byte(&c.set) || c.set == "ISO_IR 192" {
                // stateless sets: the encoding is the concatenation of the pinned per-character bytes
                let want: Vec<u8> = chars.iter().flat_map(|(_, b)| b.iter().copied()).collect();
                if bytes != want {
                    obs.fail(format!("C10:encoded bytes differ from the pinned table:{}", c.set), format!("{s:?}: {bytes:02x?} vs {want:02x?}"));
                }
            } else if chars.len() == 1 && !chars[0].1.is_empty() && bytes != *chars[0].1 {
                obs.fail(format!("C10:encoded bytes differ from the pinned table:{}", c.set), format!("{s:?}: {bytes:02x?} vs {:02x?}", chars[0].1));
            }
            match cs.decode(&bytes) {
                Ok(back) => {
                    if back != s {
                        obs.fail(format!("C10:decode(encode(s)) differs:{}", c.set), format!("{s:?} -> {bytes:02x?} -> {back:?}"));
                    }
                }
                Err(e) => obs.fail(format!("C10:own encoding cannot be decoded:{}", c.set), format!("{s:?} -> {bytes:02x?}: {e}")),
            }
        }
        Err(e) => obs.fail(format!("C10:representable string refused:{}", c.set), format!("{s:?}: {e}")),
    }
    // a character outside the repertoire: an error, not a silent substitution
    if let Some((oi, at)) = c.outside {
        if !p.outside.is_empty() {
            let och = char::from_u32(p.outside[idx(oi, p.outside.len())]).unwrap();
            let mut v: Vec<char> = s.chars().collect();
            let pos = idx(at, v.len() + 1);
            v.insert(pos, och);
            let t: String = v.into_iter().collect();
            obs.extra_evals += 1;
            if let Ok(b) = cs.encode(&t) {
                obs.fail(format!("C10:character outside the repertoire is encoded instead of refused:{}", c.set), format!("{t:?} (U+{:04X}) -> {b:02x?}", och as u32));
            }
        }
    }
}

// ------------------------------------------------------------------------------------------
// data set level

#[derive(Clone, Debug, Serialize, Deserialize)]
pub struct DsCase {
    pub set: String,
    /// text elements (tag, VR, values as indices into the pinned table)
    pub texts: Vec<((u16, u16), String, Vec<Vec<u32>>)>,
    /// nested item with more text
    pub nested: Vec<((u16, u16), String, Vec<Vec<u32>>)>,
    pub ts: u8,
}

fn text_of(set: &str, picks: &[u32]) -> String {
    let p = &pinned()[set];
    let total = p.table.len() + p.roundtrip.len();
    picks
        .iter()
        .map(|i| {
            let k = idx(*i, total);
            char::from_u32(if k < p.table.len() { p.table[k].0 } else { p.roundtrip[k - p.table.len()] }).unwrap()
        })
        .collect::<String>()
        .trim()
        .to_string()
}

fn check_ds(c: &DsCase, obs: &mut Obs) {
    let (ts, _enc, tsname) = ts_of(c.ts);
    obs.class(format!("set:{}", c.set));
    obs.class(format!("ts:{tsname}"));
    let mk = |list: &[((u16, u16), String, Vec<Vec<u32>>)]| -> Vec<Elem> {
        let mut v: Vec<Elem> = list
            .iter()
            .map(|(tag, vr, vals)| {
                let strs: Vec<String> = vals.iter().map(|p| text_of(&c.set, p)).collect();
                let single = matches!(vr.as_str(), "LT" | "ST" | "UT");
                Elem { g: tag.0, e: tag.1, vr: vr.clone(), v: if single { Val::Str(strs.first().cloned().unwrap_or_default()) } else { Val::Strs(strs) } }
            })
            .collect();
        v.sort_by_key(|e| (e.g, e.e));
        v.dedup_by_key(|e| (e.g, e.e));
        v
    };
    let mut top = mk(&c.texts);
    let nested = mk(&c.nested);
    // default-repertoire attributes that must stay untouched
    top.push(Elem { g: 0x0008, e: 0x0016, vr: "UI".into(), v: Val::Strs(vec!["1.2.840.10008.5.1.4.1.1.7".into()]) });
    top.push(Elem { g: 0x0008, e: 0x0020, vr: "DA".into(), v: Val::Strs(vec!["20240229".into()]) });
    top.push(Elem { g: 0x0008, e: 0x0060, vr: "CS".into(), v: Val::Strs(vec!["OT".into()]) });
    top.push(Elem { g: 0x0020, e: 0x0013, vr: "IS".into(), v: Val::Strs(vec!["42".into()]) });
    if !nested.is_empty() {
        top.push(Elem { g: 0x0008, e: 0x1140, vr: "SQ".into(), v: Val::Seq { items: vec![Item { elems: nested.clone(), explicit: false }], explicit: false } });
    }
    top.push(Elem { g: 0x0008, e: 0x0005, vr: "CS".into(), v: Val::Strs(vec![c.set.clone()]) });
    top.sort_by_key(|e| (e.g, e.e));
    top.dedup_by_key(|e| (e.g, e.e));
    let all_text: String = top
        .iter()
        .chain(nested.iter())
        .filter_map(|e| match &e.v {
            Val::Strs(s) => Some(s.join("")),
            Val::Str(s) => Some(s.clone()),
            _ => None,
        })
        .collect();
    obs.nontrivial = all_text.chars().any(|ch| !ch.is_ascii());

    let obj = to_obj(&top, None);
    let mut out = vec![];
    if let Err(e) = obj.write_dataset_with_ts(&mut out, &ts) {
        obs.fail(format!("C10:data set with representable text cannot be written:{}", c.set), format!("[{tsname}] {e}: {:?}", crate::props::c01::snafu_chain(&e)));
        return;
    }
    let back = match InMemDicomObject::read_dataset_with_ts(&out[..], &ts) {
        Ok(o) => o,
        Err(e) => {
            obs.fail(format!("C10:written data set cannot be read back:{}", c.set), format!("[{tsname}] {e}: {:?}", crate::props::c01::snafu_chain(&e)));
            return;
        }
    };
    fn cmp(obj: &InMemDicomObject, want: &[Elem], set: &str, tsname: &str, obs: &mut Obs) {
        for e in want {
            let Some(g) = obj.get(dicom_core::Tag(e.g, e.e)) else {
                obs.fail("C10:element missing after the round trip", format!("({:04X},{:04X})", e.g, e.e));
                continue;
            };
            match (&e.v, g.value()) {
                (Val::Strs(w), Value::Primitive(p)) => {
                    let got: Vec<String> = match p {
                        PrimitiveValue::Strs(s) => s.iter().map(|x| x.trim_end_matches([' ', '\0']).to_string()).collect(),
                        PrimitiveValue::Str(s) => vec![s.trim_end_matches([' ', '\0']).to_string()],
                        PrimitiveValue::Empty => vec![],
                        o => vec![format!("{o:?}")],
                    };
                    let w2: Vec<String> = w.iter().map(|x| x.trim_end().to_string()).collect();
                    let w_empty = w2.iter().all(|x| x.is_empty());
                    if got != w2 && !(w_empty && got.iter().all(|x| x.is_empty())) {
                        // is a byte 0x5C inside a multi-byte character involved?
                        let cs = SpecificCharacterSet::from_code(set).unwrap();
                        let has5c = w2.iter().any(|s| cs.encode(s).map(|b| b.contains(&0x5C)).unwrap_or(false));
                        let default_vr = matches!(e.vr.as_str(), "UI" | "DA" | "CS" | "IS" | "AE" | "AS" | "DS" | "DT" | "TM");
                        // one root cause, one signature
                        let pad_in_two_byte_mode = set == "ISO_IR 87" && got.len() == w2.len() && got.iter().zip(&w2).all(|(g, w)| g.starts_with(w.as_str()));
                        let sig = if has5c && !default_vr {
                            "C10:multi-byte character containing byte 5C is split as a value separator".to_string()
                        } else if pad_in_two_byte_mode && !default_vr {
                            "C10:ISO_IR 87 value padded while still in a two-byte escape state".to_string()
                        } else {
                            format!("C10:text differs after the data set round trip:{}:{}", set, if default_vr { "default-repertoire-VR" } else { vr_name(g.vr()) })
                        };
                        obs.fail(sig, format!("[{tsname}] {set} ({:04X},{:04X}) {}: want {w2:?} got {got:?}", e.g, e.e, e.vr));
                    }
                }
                (Val::Str(w), Value::Primitive(p)) => {
                    let got = match p {
                        PrimitiveValue::Str(s) => s.trim_end_matches([' ', '\0']).to_string(),
                        PrimitiveValue::Strs(s) => s.join("\\").trim_end_matches([' ', '\0']).to_string(),
                        PrimitiveValue::Empty => String::new(),
                        o => format!("{o:?}"),
                    };
                    if got != w.trim_end() {
                        let sig = if set == "ISO_IR 87" && got.starts_with(w.trim_end()) {
                            "C10:ISO_IR 87 value padded while still in a two-byte escape state".to_string()
                        } else {
                            format!("C10:text differs after the data set round trip:{}:{}:single", set, e.vr)
                        };
                        obs.fail(sig, format!("[{tsname}] {set} ({:04X},{:04X}): want {w:?} got {got:?}", e.g, e.e));
                    }
                }
                (Val::Seq { items, .. }, Value::Sequence(s)) => {
                    for (it, o) in items.iter().zip(s.items()) {
                        cmp(o, &it.elems, set, tsname, obs);
                    }
                    if items.len() != s.items().len() {
                        obs.fail("C10:item count differs after the round trip", String::new());
                    }
                }
                _ => obs.fail("C10:value kind differs after the round trip", format!("({:04X},{:04X})", e.g, e.e)),
            }
        }
    }
    cmp(&back, &top, &c.set, tsname, obs);
    // the same stream through the token reader with the Interpreted value strategy (the object
    // reader above uses Preserved): top-level text must come out the same
    if !obs.failed() {
        use dicom_parser::dataset::read::{DataSetReader, DataSetReaderOptions, ValueReadStrategy};
        use dicom_parser::dataset::DataToken;
        if let Ok(r) = DataSetReader::new_with_ts_options(&out[..], &ts, DataSetReaderOptions::default().value_read(ValueReadStrategy::Interpreted)) {
            let mut depth = 0i32;
            let mut last: Option<(u16, u16)> = None;
            let mut got: std::collections::HashMap<(u16, u16), Vec<String>> = Default::default();
            let mut failed = None;
            for t in r {
                match t {
                    Ok(DataToken::SequenceStart { .. }) | Ok(DataToken::PixelSequenceStart) => depth += 1,
                    Ok(DataToken::SequenceEnd) => depth -= 1,
                    Ok(DataToken::ElementHeader(h)) if depth == 0 => last = Some((h.tag.0, h.tag.1)),
                    Ok(DataToken::PrimitiveValue(p)) if depth == 0 => {
                        if let Some(tag) = last.take() {
                            let v: Vec<String> = match &p {
                                PrimitiveValue::Strs(s) => s.iter().map(|x| x.trim_end_matches([' ', '\0']).to_string()).collect(),
                                PrimitiveValue::Str(s) => vec![s.trim_end_matches([' ', '\0']).to_string()],
                                _ => continue,
                            };
                            got.insert(tag, v);
                        }
                    }
                    Ok(_) => {}
                    Err(e) => {
                        failed = Some(e.to_string());
                        break;
                    }
                }
            }
            if let Some(e) = failed {
                obs.fail(format!("C10:written data set cannot be read with the Interpreted strategy:{}", c.set), format!("[{tsname}] {e}"));
            } else {
                for e in &top {
                    if matches!(e.vr.as_str(), "UI" | "DA" | "CS" | "IS" | "AE" | "AS" | "DS" | "DT" | "TM" | "SQ") {
                        continue;
                    }
                    let want: Vec<String> = match &e.v {
                        Val::Strs(w) => w.iter().map(|x| x.trim_end().to_string()).collect(),
                        Val::Str(w) => vec![w.trim_end().to_string()],
                        _ => continue,
                    };
                    let g = got.get(&(e.g, e.e)).cloned().unwrap_or_default();
                    let joined = |v: &[String]| v.join("\\");
                    if joined(&g) != joined(&want) && !(want.iter().all(|x| x.is_empty()) && g.iter().all(|x| x.is_empty())) {
                        obs.fail(format!("C10:text differs when read with the Interpreted strategy:{}:{}", c.set, e.vr), format!("[{tsname}] ({:04X},{:04X}): want {want:?} got {g:?}", e.g, e.e));
                        break;
                    }
                }
            }
        }
    }
    // the bytes of the default-repertoire VRs are plain ASCII regardless of the character set
    let parsed = refimpl::ds::parse_strict(&out, &refimpl::ds::ParseOpts { ts: _enc, sq_tags: Some(&refimpl::ds::sq_tags(&top)), require_even: true, require_ascending: false });
    if let Ok(p) = parsed {
        for pe in &p {
            if let refimpl::ds::PVal::Bytes(b) = &pe.value {
                let want: Option<&[u8]> = match pe.tag {
                    (0x0008, 0x0016) => Some(b"1.2.840.10008.5.1.4.1.1.7\0"),
                    (0x0008, 0x0020) => Some(b"20240229"),
                    (0x0008, 0x0060) => Some(b"OT"),
                    (0x0020, 0x0013) => Some(b"42"),
                    _ => None,
                };
                if let Some(w) = want {
                    if b != w {
                        obs.fail(format!("C10:default-repertoire VR affected by the character set:{}", c.set), format!("{:04X?}: {b:02x?}", pe.tag));
                    }
                }
            }
        }
    }
}

pub fn run(ctx: &Ctx) {
    ctx.assume("pinned tables data/charsets.json: generated once from CPython's codecs (tools/gen_charset_tables.py) and cross-checked against the tree at pinning time; code points on which the two disagreed are listed there as dropped / lenient and are not asserted");
    // exhaustive part: every pinned character of every set, alone
    let mut singles = vec![];
    for set in SETS {
        let n = pinned()[set].table.len() + pinned()[set].roundtrip.len();
        for k in 0..n {
            let i = (((k as u64) << 32) / n as u64 + 1) as u32;
            singles.push(CodecCase { set: set.to_string(), picks: vec![i], outside: None, trailing_spaces: 0 });
        }
        for k in 0..pinned()[set].outside.len() {
            let m = pinned()[set].outside.len();
            singles.push(CodecCase { set: set.to_string(), picks: vec![1], outside: Some(((((k as u64) << 32) / m as u64 + 1) as u32, 0)), trailing_spaces: 1 });
        }
    }
    ctx.run_enum(
        "pinned_characters",
        "exhaustive over the pinned tables: every pinned character of all 16 sets alone (encode == pinned bytes, decode back), and every pinned outside code point (must be refused); defined term maps back to the set",
        singles,
        true,
        check_codec,
    );
    ctx.run_prop(
        "codec_strings",
        "random strings of 0-24 characters over each set's pinned repertoire (all 16 sets), optionally with one code point from outside the repertoire inserted at a random position; oracle: stateless sets: encode(s) == concatenation of pinned bytes; all sets: decode(encode(s)) == s; outside character => Err; from_code(name()+spaces) == set; non-trivial = contains a non-ASCII character",
        || {
            (proptest::sample::select(SETS.to_vec()), proptest::collection::vec(any::<u32>(), 0..25), proptest::option::weighted(0.25, (any::<u32>(), any::<u32>())), 0u8..3)
                .prop_map(|(set, picks, outside, trailing_spaces)| CodecCase { set: set.to_string(), picks, outside, trailing_spaces })
                .boxed()
        },
        ctx.cases(60_000, 1_500_000),
        check_codec,
    );
    ctx.run_prop(
        "datasets",
        "data sets holding Specific Character Set = each of the 16 sets, 1-5 text attributes of VR LO/SH/PN/LT/ST/UT/UC (single- and multi-valued) drawn from the set's pinned repertoire, also inside a nested item, plus UI/DA/CS/IS attributes; written in the 3 uncompressed syntaxes and read back: texts equal, bytes of the default-repertoire VRs are plain ASCII; non-trivial = contains a non-ASCII character",
        || {
            let tag_vr = proptest::sample::select(vec![
                ((0x0010u16, 0x0010u16), "PN"),
                ((0x0010, 0x0020), "LO"),
                ((0x0008, 0x0080), "LO"),
                ((0x0008, 0x0050), "SH"),
                ((0x0010, 0x4000), "LT"),
                ((0x0008, 0x0081), "ST"),
                ((0x0008, 0x0119), "UC"),
                ((0x0040, 0xA160), "UT"),
                ((0x0008, 0x1030), "LO"),
            ]);
            let el = (tag_vr, proptest::collection::vec(proptest::collection::vec(any::<u32>(), 0..10), 1..4)).prop_map(|((t, vr), v)| (t, vr.to_string(), v));
            (proptest::sample::select(SETS.to_vec()), proptest::collection::vec(el.clone(), 1..6), proptest::collection::vec(el, 0..3), 0u8..3)
                .prop_map(|(set, texts, nested, ts)| DsCase { set: set.to_string(), texts, nested, ts })
                .boxed()
        },
        ctx.cases(20_000, 400_000),
        check_ds,
    );
}
