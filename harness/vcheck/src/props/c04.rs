//! C04 — encoded output is structurally valid PS3.5 with exact lengths and padding;
//! reported byte counts are truthful.
use crate::conv::{prim_of, to_obj, vr_of};
use crate::engine::{Ctx, Obs};
use crate::gen;
use crate::props::c01::{self, snafu_chain, ts_of};
use dicom_core::header::{DataElementHeader, Length};
use dicom_core::{Tag, VR};
use dicom_encoding::encode::basic::{BigEndianBasicEncoder, LittleEndianBasicEncoder};
use dicom_encoding::encode::explicit_be::ExplicitVRBigEndianEncoder;
use dicom_encoding::encode::explicit_le::ExplicitVRLittleEndianEncoder;
use dicom_encoding::encode::implicit_le::ImplicitVRLittleEndianEncoder;
use dicom_encoding::encode::{BasicEncode, Encode, EncoderFor};
use dicom_encoding::text::SpecificCharacterSet;
use dicom_object::meta::FileMetaTableBuilder;
use dicom_parser::stateful::encode::StatefulEncoder;
use proptest::prelude::*;
use refimpl::ds::{self, Elem, PElem, PVal, ParseOpts, Ts, Val};
use serde::{Deserialize, Serialize};
use std::io::{Read, Write};

/// compare value fields of the parsed stream with the reference value encoding
fn diff_values(parsed: &[PElem], ir: &[Elem], ts: Ts, path: &str, stream: &[u8]) -> Result<(), (String, String)> {
    if parsed.len() != ir.len() {
        return Err((
            "element-count".into(),
            format!("{path}: {} elements on the wire, {} in the data set", parsed.len(), ir.len()),
        ));
    }
    for (p, e) in parsed.iter().zip(ir) {
        let here = format!("{path}/({:04X},{:04X})", e.g, e.e);
        if p.tag != e.tag() {
            return Err(("tag-order".into(), format!("{here}: wire has {:?}", p.tag)));
        }
        if let Some(vr) = &p.vr {
            if *vr != e.vr {
                return Err(("vr-on-wire".into(), format!("{here}: wire VR {vr}, element VR {}", e.vr)));
            }
        }
        match (&p.value, &e.v) {
            (PVal::Seq(items), Val::Seq { items: iitems, .. }) => {
                if items.len() != iitems.len() {
                    return Err(("item-count".into(), format!("{here}: {} items on the wire, want {}", items.len(), iitems.len())));
                }
                for (i, (pi, ii)) in items.iter().zip(iitems).enumerate() {
                    diff_values(&pi.elems, &ii.elems, ts, &format!("{here}[{i}]"), stream)?;
                }
            }
            (PVal::Pix { bot, frags, .. }, Val::Pix { bot: ibot, frags: ifrags }) => {
                let mut want = vec![];
                for o in ibot {
                    want.extend_from_slice(&if ts.big() { o.to_be_bytes() } else { o.to_le_bytes() });
                }
                if *bot != want {
                    return Err(("offset-table-bytes".into(), format!("{here}: offset table bytes differ")));
                }
                if frags.len() != ifrags.len() || frags.iter().zip(ifrags).any(|(a, b)| a != b) {
                    return Err(("fragment-bytes".into(), format!("{here}: fragments differ")));
                }
            }
            (PVal::Bytes(b), v) if !v.is_seq() && !v.is_pix() => {
                if e.vr == "DS" && matches!(v, Val::F64(_)) {
                    // number formatting is the implementation's choice: only the padding rule applies
                    if b.len() % 2 == 1 {
                        return Err(("odd-length".into(), format!("{here}: odd length")));
                    }
                    continue;
                }
                let want = ds::encode_value(&e.vr, v, ts.big());
                if *b != want {
                    let kind = if b.len() == want.len() && b[..b.len().saturating_sub(1)] == want[..want.len().saturating_sub(1)] {
                        format!("pad-byte:{}", e.vr)
                    } else {
                        format!("value-bytes:{}", e.vr)
                    };
                    return Err((
                        kind,
                        format!(
                            "{here}: value field differs from the reference encoding: wire {:02x?} reference {:02x?}",
                            &b[b.len().saturating_sub(12)..],
                            &want[want.len().saturating_sub(12)..]
                        ),
                    ));
                }
            }
            (PVal::Seq(_), Val::U8(want)) if !ts.explicit() && p.declared_len != ds::UNDEFINED => {
                // Implicit VR: the parser's sequence hint is per tag; this occurrence is an unknown-tag
                // defined-length sequence held as UN bytes (see conv::degrade_unknown_explicit_seqs):
                // compare the raw value field
                let a = p.offset + 8;
                let raw = &stream[a..a + p.declared_len as usize];
                if raw != &want[..] {
                    return Err(("value-bytes:UN".into(), format!("{here}: UN-held sequence bytes differ")));
                }
            }
            _ => return Err(("value-kind".into(), format!("{here}: value kind on the wire differs"))),
        }
    }
    Ok(())
}

fn inflate(b: &[u8]) -> Result<Vec<u8>, String> {
    let mut d = flate2::read::DeflateDecoder::new(b);
    let mut out = vec![];
    d.read_to_end(&mut out).map_err(|e| format!("inflate: {e}"))?;
    Ok(out)
}

fn check_stream(c: &c01::Case, obs: &mut Obs) {
    let (_ts, enc, tsname) = ts_of(c.ts);
    let Some((out, ir, _mode, _)) = c01::build_and_write(c, obs, "C04") else { return };
    let mut odd = false;
    let mut nested_defined = false;
    ds::walk(
        &ir,
        &mut |e, d| {
            match &e.v {
                Val::U8(b) => odd |= b.len() % 2 == 1,
                Val::Strs(_) | Val::Str(_) | Val::Dates(_) | Val::Times(_) | Val::DateTimes(_) => {
                    odd |= ds::encode_value(&e.vr, &e.v, false).len() % 2 == 0
                        && crate::conv::ir_text(&e.vr, &e.v).map(|t| t.len() % 2 == 1).unwrap_or(false)
                }
                Val::Seq { explicit, .. } => nested_defined |= *explicit && c.no_change && d + 1 >= 1,
                _ => {}
            }
        },
        0,
    );
    obs.nontrivial = odd || nested_defined;
    if odd {
        obs.class("has-odd-length-value");
    }
    let bytes = if c.ts == 3 {
        match inflate(&out) {
            Ok(b) => b,
            Err(e) => {
                obs.fail("C04:deflated output does not inflate", format!("{e}; {} bytes", out.len()));
                return;
            }
        }
    } else {
        out
    };
    let sq = ds::sq_tags(&ir);
    let opts = ParseOpts { ts: enc, sq_tags: Some(&sq), require_even: true, require_ascending: true };
    match ds::parse_strict(&bytes, &opts) {
        Err(e) => {
            obs.fail(
                format!("C04:output rejected by the reference parser:{}", crate::engine::norm_msg(&e).chars().take(40).collect::<String>()),
                format!("[{tsname}] {e}"),
            );
        }
        Ok(parsed) => {
            if let Err((k, d)) = diff_values(&parsed, &ir, enc, "", &bytes) {
                obs.fail(format!("C04:value field differs:{k}"), format!("[{tsname}] {d}"));
            }
        }
    }
}

// ------------------------------------------------------------------------------------------
// whole files

#[derive(Clone, Debug, Serialize, Deserialize)]
pub struct FileCase {
    pub ds: Vec<Elem>,
    pub ts: u8,
    pub sop_class: String,
    pub sop_instance: String,
    pub impl_version: Option<String>,
    pub src_ae: Option<String>,
}

fn check_file(c: &FileCase, obs: &mut Obs) {
    let (ts, enc, tsname) = ts_of(c.ts);
    obs.nontrivial = c01::nontrivial(&c.ds) || c.sop_instance.len() % 2 == 1;
    obs.class(format!("ts:{tsname}"));
    let obj = to_obj(&c.ds, None);
    let mut b = FileMetaTableBuilder::new()
        .media_storage_sop_class_uid(c.sop_class.clone())
        .media_storage_sop_instance_uid(c.sop_instance.clone())
        .transfer_syntax(ts.uid());
    if let Some(v) = &c.impl_version {
        b = b.implementation_version_name(v.clone());
    }
    if let Some(v) = &c.src_ae {
        b = b.source_application_entity_title(v.clone());
    }
    let file = match obj.with_meta(b) {
        Ok(f) => f,
        Err(e) => {
            obs.fail("C04:with_meta failed", format!("{e}: {:?}", snafu_chain(&e)));
            return;
        }
    };
    let mut out = vec![];
    if let Err(e) = file.write_all(&mut out) {
        obs.fail(format!("C04:write_all failed:{}", c01::err_kind(&e)), format!("[{tsname}] {e}: {:?}", snafu_chain(&e)));
        return;
    }
    let head = match refimpl::file::parse_file_head(&out) {
        Ok(h) => h,
        Err(e) => {
            obs.fail("C04:file head rejected by the reference parser", format!("[{tsname}] {e}"));
            return;
        }
    };
    if head.declared_group_length as usize != head.actual_group_length {
        obs.fail(
            "C04:file meta group length wrong",
            format!("declared {} actual {}", head.declared_group_length, head.actual_group_length),
        );
    }
    if head.transfer_syntax != ts.uid() {
        obs.fail("C04:file transfer syntax differs", format!("{} vs {}", head.transfer_syntax, ts.uid()));
    }
    let body = &out[head.dataset_offset..];
    let body = if c.ts == 3 {
        match inflate(body) {
            Ok(b) => b,
            Err(e) => {
                obs.fail("C04:deflated file body does not inflate", e);
                return;
            }
        }
    } else {
        body.to_vec()
    };
    let sq = ds::sq_tags(&c.ds);
    let opts = ParseOpts { ts: enc, sq_tags: Some(&sq), require_even: true, require_ascending: true };
    match ds::parse_strict(&body, &opts) {
        Err(e) => obs.fail(
            format!("C04:file data set rejected by the reference parser:{}", crate::engine::norm_msg(&e).chars().take(40).collect::<String>()),
            format!("[{tsname}] {e}"),
        ),
        Ok(parsed) => {
            if let Err((k, d)) = diff_values(&parsed, &c.ds, enc, "", &body) {
                obs.fail(format!("C04:file value field differs:{k}"), format!("[{tsname}] {d}"));
            }
        }
    }
}

// ------------------------------------------------------------------------------------------
// primitive encoders and reported byte counts

#[derive(Clone, Debug, Serialize, Deserialize)]
pub struct PrimCase {
    pub elems: Vec<Elem>,
    pub bot: Vec<u32>,
    pub raw: Vec<u8>,
    pub item_len: u32,
    /// 0 implicit LE, 1 explicit LE, 2 explicit BE
    pub ts: u8,
}

struct Counting<'a>(&'a mut Vec<u8>);
impl Write for Counting<'_> {
    fn write(&mut self, b: &[u8]) -> std::io::Result<usize> {
        self.0.extend_from_slice(b);
        Ok(b.len())
    }
    fn flush(&mut self) -> std::io::Result<()> {
        Ok(())
    }
}

fn check_counts_with<E: Encode + Clone>(c: &PrimCase, obs: &mut Obs, enc: E, big: bool, tsname: &str) {
    // 1. Encode::encode_element_header / encode_primitive / encode_offset_table return counts
    for e in &c.elems {
        if e.v.is_seq() || e.v.is_pix() {
            continue;
        }
        let pv = prim_of(&e.v);
        let vr = vr_of(&e.vr);
        let mut sink = vec![];
        let len = ds::encode_value(&e.vr, &e.v, big).len() as u32;
        match enc.encode_element_header(Counting(&mut sink), DataElementHeader::new(Tag(e.g, e.e), vr, Length(len))) {
            Ok(n) => {
                if n != sink.len() {
                    obs.fail("C04:encode_element_header byte count wrong", format!("[{tsname}] {} reported {n}, wrote {}", e.vr, sink.len()));
                }
            }
            Err(_) => {}
        }
        obs.extra_evals += 1;
        if ds::is_text_vr(&e.vr) && !matches!(e.v, Val::Strs(_) | Val::Str(_) | Val::Empty) {
            continue; // typed dates / numbers in text VRs go through the stateful layer only
        }
        let mut sink = vec![];
        match enc.encode_primitive(Counting(&mut sink), &pv) {
            Ok(n) => {
                if n != sink.len() {
                    obs.fail(
                        format!("C04:Encode::encode_primitive byte count wrong:{}", crate::conv::variant_name(&pv)),
                        format!("[{tsname}] {} reported {n}, wrote {}", e.vr, sink.len()),
                    );
                }
            }
            Err(e2) => obs.fail("C04:Encode::encode_primitive failed", format!("[{tsname}] {} {e2}", e.vr)),
        }
        obs.extra_evals += 1;
    }
    let mut sink = vec![];
    match enc.encode_offset_table(Counting(&mut sink), &c.bot) {
        Ok(n) => {
            if n != sink.len() || sink.len() != c.bot.len() * 4 {
                obs.fail("C04:encode_offset_table byte count wrong", format!("[{tsname}] reported {n}, wrote {}, table of {}", sink.len(), c.bot.len()));
            }
        }
        Err(e) => obs.fail("C04:encode_offset_table failed", format!("{e}")),
    }

    // 2. the stateful encoder: bytes_written() after every operation
    let mut sink = vec![];
    {
        let mut se = StatefulEncoder::new(Counting(&mut sink), EncoderFor::new(enc.clone()), SpecificCharacterSet::default());
        macro_rules! step {
            ($what:expr, $r:expr) => {{
                let r = $r;
                obs.extra_evals += 1;
                let _ = r.is_ok();
            }};
        }
        for e in &c.elems {
            if e.v.is_seq() || e.v.is_pix() {
                continue;
            }
            let pv = prim_of(&e.v);
            let hdr = DataElementHeader::new(Tag(e.g, e.e), vr_of(&e.vr), Length(0));
            step!("encode_primitive_element", se.encode_primitive_element(&hdr, &pv));
        }
        step!("encode_item_header", se.encode_item_header(c.item_len));
        step!("write_bytes", se.write_bytes(&c.raw));
        step!("encode_offset_table", se.encode_offset_table(&c.bot));
        step!("encode_item_delimiter", se.encode_item_delimiter());
        step!("encode_sequence_delimiter", se.encode_sequence_delimiter());
        step!(
            "encode_element_header",
            se.encode_element_header(DataElementHeader::new(Tag(0x0008, 0x1140), VR::SQ, Length::UNDEFINED))
        );
        let reported = se.bytes_written();
        drop(se);
        if reported != sink.len() as u64 {
            obs.fail(
                "C04:StatefulEncoder::bytes_written differs from bytes written",
                format!("[{tsname}] reported {reported}, sink holds {}", sink.len()),
            );
        }
    }
    // 3. per-operation: repeat with a fresh encoder per element so a wrong count is attributed
    for e in &c.elems {
        if e.v.is_seq() || e.v.is_pix() {
            continue;
        }
        let pv = prim_of(&e.v);
        let mut sink = vec![];
        let mut se = StatefulEncoder::new(Counting(&mut sink), EncoderFor::new(enc.clone()), SpecificCharacterSet::default());
        let hdr = DataElementHeader::new(Tag(e.g, e.e), vr_of(&e.vr), Length(0));
        let ok = se.encode_primitive_element(&hdr, &pv).is_ok();
        let reported = se.bytes_written();
        drop(se);
        obs.extra_evals += 1;
        if ok && reported != sink.len() as u64 {
            obs.fail(
                format!("C04:bytes_written wrong after encode_primitive_element:{}:{}", e.vr, crate::conv::variant_name(&pv)),
                format!("[{tsname}] reported {reported}, sink holds {}", sink.len()),
            );
        }
        if ok && sink.len() % 2 == 1 {
            obs.fail(format!("C04:encode_primitive_element wrote an odd number of bytes:{}", e.vr), format!("[{tsname}] {} bytes", sink.len()));
        }
    }
}

fn check_counts(c: &PrimCase, obs: &mut Obs) {
    obs.nontrivial = c.elems.iter().any(|e| !matches!(e.v, Val::Empty));
    // BasicEncode::encode_primitive
    for e in &c.elems {
        if e.v.is_seq() || e.v.is_pix() {
            continue;
        }
        if ds::is_text_vr(&e.vr) && !matches!(e.v, Val::Strs(_) | Val::Str(_) | Val::Empty) {
            continue;
        }
        let pv = prim_of(&e.v);
        for big in [false, true] {
            let mut sink = vec![];
            let r = if big {
                BigEndianBasicEncoder.encode_primitive(Counting(&mut sink), &pv)
            } else {
                LittleEndianBasicEncoder.encode_primitive(Counting(&mut sink), &pv)
            };
            obs.extra_evals += 1;
            match r {
                Ok(n) => {
                    if n != sink.len() {
                        obs.fail(
                            format!("C04:BasicEncode::encode_primitive byte count wrong:{}", crate::conv::variant_name(&pv)),
                            format!("big={big} {} reported {n}, wrote {}", e.vr, sink.len()),
                        );
                    }
                    // binary variants: the bytes are the reference value bytes (before padding)
                    if !ds::is_text_vr(&e.vr) {
                        let want = ds::encode_value(&e.vr, &e.v, big);
                        let raw = match &e.v {
                            Val::U8(b) => b.len(),
                            _ => want.len(),
                        };
                        if sink[..] != want[..raw] {
                            obs.fail(
                                format!("C04:BasicEncode::encode_primitive bytes differ:{}", crate::conv::variant_name(&pv)),
                                format!("big={big} {}", e.vr),
                            );
                        }
                    }
                }
                Err(e2) => obs.fail("C04:BasicEncode::encode_primitive failed", format!("{e2}")),
            }
        }
    }
    match c.ts {
        0 => check_counts_with(c, obs, ImplicitVRLittleEndianEncoder::default(), false, "implicit-le"),
        1 => check_counts_with(c, obs, ExplicitVRLittleEndianEncoder::default(), false, "explicit-le"),
        _ => check_counts_with(c, obs, ExplicitVRBigEndianEncoder::default(), true, "explicit-be"),
    }
}

pub fn run(ctx: &Ctx) {
    ctx.assume("the structural parser and the value encoder are the independent Rust reference in harness/refimpl (stated deviation from the property's 'written in Python' wording; same independence)");
    ctx.assume("deflated output is inflated with the flate2 crate before structural parsing");
    ctx.run_prop(
        "dataset_streams",
        "the C01 cases (all syntaxes, strategies, entry points, object origins); oracle: the written (inflated) stream is accepted by the strict PS3.5 reference parser (even lengths, exact defined lengths, matching delimiters, ascending tags) and every primitive value field equals the reference value encoding incl. the pad byte; non-trivial = contains an odd-length value or a kept defined sequence length",
        c01::strategy,
        ctx.cases(40_000, 1_000_000),
        check_stream,
    );
    ctx.run_prop(
        "files",
        "G-DS data sets wrapped with FileMetaTableBuilder (random UIDs/AE/SH of odd and even length) and written with write_all in the 4 syntaxes; oracle: preamble+DICM, group 0002 in Explicit LE with correct group length and transfer syntax, data set accepted by the reference parser with reference value fields; non-trivial = C01 rule or odd-length SOP instance UID",
        || {
            (
                gen::dataset(gen::DsCfg { max_depth: 3, max_top: 6, pixel_seq: true }),
                0u8..4,
                "[1-9][0-9]{0,4}(\\.[1-9][0-9]{0,5}){1,6}",
                "[1-9][0-9]{0,4}(\\.[1-9][0-9]{0,5}){1,6}",
                proptest::option::of("[A-Za-z0-9_.]{1,16}"),
                proptest::option::of("[A-Za-z0-9_]{1,16}"),
            )
                .prop_map(|(mut ds, ts, sop_class, sop_instance, impl_version, src_ae)| {
                    if ts == 2 {
                        ds.retain(|e| !e.v.is_pix());
                    }
                    FileCase { ds, ts, sop_class, sop_instance, impl_version, src_ae }
                })
                .boxed()
        },
        ctx.cases(15_000, 300_000),
        check_file,
    );
    ctx.run_prop(
        "reported_byte_counts",
        "random primitive values of every VR, offset tables, raw byte runs; oracle: every byte count returned by BasicEncode/Encode methods and StatefulEncoder::bytes_written equals the number of bytes that reached a counting writer; binary BasicEncode output equals the reference bytes; non-trivial = at least one non-empty value",
        || {
            (
                gen::elems(0, 1..6),
                proptest::collection::vec(any::<u32>(), 0..5),
                proptest::collection::vec(any::<u8>(), 0..40),
                prop_oneof![Just(0u32), Just(0xFFFF_FFFF), 0u32..1000],
                0u8..3,
            )
                .prop_map(|(elems, bot, raw, item_len, ts)| PrimCase { elems, bot, raw, item_len, ts })
                .boxed()
        },
        ctx.cases(20_000, 400_000),
        check_counts,
    );
}
