//! C33 — the storage SCU sends each file on a matching presentation context.
use crate::engine::{Ctx, Obs};
use crate::gen::{self, DsCfg};
use crate::ulpeer::{self, kind, RawPeer, Recv};
use proptest::prelude::*;
use refimpl::ds::{self, Elem, LenMode, PElem, PVal, ParseOpts, Ts, Val};
use refimpl::pdu::{PcResult, PduIr, Pdv, UserItem};
use serde::{Deserialize, Serialize};
use std::io::Write;
use std::net::TcpListener;
use std::process::{Command, Stdio};
use std::sync::atomic::{AtomicBool, Ordering};
use std::sync::Mutex;
use std::time::{Duration, Instant};

/// storage classes, including UIDs that are string prefixes of one another (CT / Enhanced CT / NM)
const SOP_CLASSES: [&str; 6] = ["1.2.840.10008.5.1.4.1.1.2", "1.2.840.10008.5.1.4.1.1.4", "1.2.840.10008.5.1.4.1.1.7", "1.2.840.10008.5.1.4.1.1.88.11", "1.2.840.10008.5.1.4.1.1.2.1", "1.2.840.10008.5.1.4.1.1.20"];
const NC: usize = SOP_CLASSES.len();
const TS_UIDS: [&str; 5] = ["1.2.840.10008.1.2", "1.2.840.10008.1.2.1", "1.2.840.10008.1.2.2", "1.2.840.10008.1.2.1.99", ENCAPSULATED_UNCOMPRESSED];
const NT: usize = TS_UIDS.len();
/// Encapsulated Uncompressed Explicit VR Little Endian: files in this syntax carry an image whose pixel data is
/// encapsulated (one fragment per frame); sending them on a native context requires decoding the pixel data
const ENCAPSULATED_UNCOMPRESSED: &str = "1.2.840.10008.1.2.1.98";
const ENC: usize = 4;

fn ref_ts(uid: &str) -> Option<(Ts, bool)> {
    match uid {
        "1.2.840.10008.1.2" => Some((Ts::ImplicitLE, false)),
        "1.2.840.10008.1.2.1" => Some((Ts::ExplicitLE, false)),
        "1.2.840.10008.1.2.2" => Some((Ts::ExplicitBE, false)),
        "1.2.840.10008.1.2.1.99" => Some((Ts::ExplicitLE, true)),
        ENCAPSULATED_UNCOMPRESSED => Some((Ts::ExplicitLE, false)),
        _ => None,
    }
}

#[derive(Clone, Debug, Serialize, Deserialize)]
pub struct FileSpec {
    pub sop_class: u8,
    pub ts: u8,
    pub elems: Vec<Elem>,
}

#[derive(Clone, Debug, Serialize, Deserialize)]
pub struct Case {
    pub files: Vec<FileSpec>,
    /// accepted (SOP class index, transfer syntax index) combinations
    pub policy: Vec<(u8, u8)>,
    pub acceptor_max: u32,
    pub never_transcode: bool,
    pub concurrency: Option<u8>,
}

fn only_standard(elems: &[Elem]) -> Vec<Elem> {
    elems
        .iter()
        .filter(|e| !gen::is_private_or_unknown((e.g, e.e)))
        .map(|e| {
            let mut e = e.clone();
            if let Val::Seq { items, .. } = &mut e.v {
                for it in items.iter_mut() {
                    it.elems = only_standard(&it.elems);
                }
            }
            e
        })
        .collect()
}

/// In an Implicit VR file the VR is not on the wire: the reader takes the dictionary's.  Elements
/// whose generated VR is another one of the VRs the dictionary allows (e.g. OB for an "OB or OW"
/// attribute) would legitimately be re-encoded differently, so such files do not carry them.
fn only_dictionary_vr(elems: &[Elem]) -> Vec<Elem> {
    elems
        .iter()
        .filter(|e| gen::dict().implicit_vr((e.g, e.e)) == e.vr)
        .map(|e| {
            let mut e = e.clone();
            if let Val::Seq { items, .. } = &mut e.v {
                for it in items.iter_mut() {
                    it.elems = only_dictionary_vr(&it.elems);
                }
            }
            e
        })
        .collect()
}

fn dataset(f: &FileSpec, k: usize) -> (Vec<Elem>, String) {
    let inst = format!("1.2.826.0.1.3680043.10.1462.{}", k + 1);
    let base = if f.ts as usize % NT == 0 { only_dictionary_vr(&only_standard(&f.elems)) } else { only_standard(&f.elems) };
    let mut v: Vec<Elem> = base.into_iter().filter(|e| e.g >= 8 && !(e.g == 8 && (e.e == 0x05 || e.e == 0x16 || e.e == 0x18))).collect();
    if f.ts as usize % NT == ENC {
        // an 8-bit single-sample image, 1-3 frames of 1-20 pixels (odd frame sizes included), one fragment per frame
        v.retain(|e| e.g != 0x0028 && e.g < 0x7FE0);
        let rows = 1 + (k * 3 + f.elems.len()) % 5;
        let cols = 1 + f.sop_class as usize % 4;
        let frames = 1 + f.elems.len() % 3;
        let us = |e: u16, n: usize| Elem { g: 0x0028, e, vr: "US".into(), v: Val::U16(vec![n as u16]) };
        v.push(us(0x0002, 1));
        v.push(Elem { g: 0x0028, e: 0x0004, vr: "CS".into(), v: Val::Strs(vec!["MONOCHROME2".into()]) });
        v.push(Elem { g: 0x0028, e: 0x0008, vr: "IS".into(), v: Val::Strs(vec![frames.to_string()]) });
        v.push(us(0x0010, rows));
        v.push(us(0x0011, cols));
        v.push(us(0x0100, 8));
        v.push(us(0x0101, 8));
        v.push(us(0x0102, 7));
        v.push(us(0x0103, 0));
        let fsz = rows * cols;
        let mut bot = vec![];
        let mut frags = vec![];
        let mut off = 0u32;
        for fr in 0..frames {
            let mut b: Vec<u8> = (0..fsz).map(|i| (1 + i * 7 + fr * 31 + k * 3) as u8).collect();
            if b.len() % 2 == 1 {
                b.push(0);
            }
            bot.push(off);
            off += 8 + b.len() as u32;
            frags.push(b);
        }
        v.push(Elem { g: 0x7FE0, e: 0x0010, vr: "OB".into(), v: Val::Pix { bot, frags } });
    }
    v.push(Elem { g: 8, e: 0x16, vr: "UI".into(), v: Val::Strs(vec![SOP_CLASSES[f.sop_class as usize % NC].into()]) });
    v.push(Elem { g: 8, e: 0x18, vr: "UI".into(), v: Val::Strs(vec![inst.clone()]) });
    v.sort_by_key(|e| (e.g, e.e));
    v.dedup_by_key(|e| (e.g, e.e));
    (v, inst)
}

/// what the data set of an Encapsulated Uncompressed file looks like once its pixel data was decoded to native
fn decoded(elems: &[Elem]) -> Vec<Elem> {
    let num = |e: u16| elems.iter().find(|x| (x.g, x.e) == (0x0028, e)).and_then(|x| if let Val::U16(v) = &x.v { v.first().copied() } else { None }).unwrap_or(1) as usize;
    let fsz = num(0x0010) * num(0x0011);
    elems
        .iter()
        .map(|e| match &e.v {
            Val::Pix { frags, .. } if (e.g, e.e) == (0x7FE0, 0x0010) => Elem { g: e.g, e: e.e, vr: "OB".into(), v: Val::U8(frags.iter().flat_map(|f| f[..fsz.min(f.len())].to_vec()).collect()) },
            _ => e.clone(),
        })
        .collect()
}

fn deflate(b: &[u8]) -> Vec<u8> {
    let mut e = flate2::write::DeflateEncoder::new(Vec::new(), flate2::Compression::fast());
    let _ = e.write_all(b);
    e.finish().unwrap_or_default()
}

fn inflate(b: &[u8]) -> Option<Vec<u8>> {
    use std::io::Read;
    let mut out = vec![];
    flate2::read::DeflateDecoder::new(b).read_to_end(&mut out).ok()?;
    Some(out)
}

fn trimmed(b: &[u8]) -> &[u8] {
    let mut e = b.len();
    while e > 0 && (b[e - 1] == 0 || b[e - 1] == b' ') {
        e -= 1;
    }
    &b[..e]
}

fn same(a: &[PElem], b: &[PElem], path: &str) -> Result<(), String> {
    if a.len() != b.len() {
        return Err(format!("{path}: {} elements vs {} expected", a.len(), b.len()));
    }
    for (x, y) in a.iter().zip(b) {
        if x.tag != y.tag {
            return Err(format!("{path}: tag ({:04X},{:04X}) vs ({:04X},{:04X})", x.tag.0, x.tag.1, y.tag.0, y.tag.1));
        }
        let p = format!("{path}/({:04X},{:04X})", x.tag.0, x.tag.1);
        match (&x.value, &y.value) {
            (PVal::Bytes(m), PVal::Bytes(n)) => {
                if trimmed(m) != trimmed(n) {
                    return Err(format!("{p}: value of {} bytes vs {} expected", m.len(), n.len()));
                }
            }
            (PVal::Seq(m), PVal::Seq(n)) => {
                if m.len() != n.len() {
                    return Err(format!("{p}: {} items vs {}", m.len(), n.len()));
                }
                for (i, (u, v)) in m.iter().zip(n).enumerate() {
                    same(&u.elems, &v.elems, &format!("{p}[{i}]"))?;
                }
            }
            (PVal::Pix { bot: b1, frags: f1, .. }, PVal::Pix { bot: b2, frags: f2, .. }) => {
                if b1 != b2 || f1 != f2 {
                    return Err(format!("{p}: encapsulated pixel data differs ({} fragments vs {} expected)", f1.len(), f2.len()));
                }
            }
            (PVal::Pix { .. }, _) => return Err(format!("{p}: pixel data is encapsulated, native expected")),
            (_, PVal::Pix { .. }) => return Err(format!("{p}: pixel data is native, encapsulated expected")),
            _ => return Err(format!("{p}: value kinds differ")),
        }
    }
    Ok(())
}

#[derive(Debug, Clone)]
struct Stored {
    conn: usize,
    pc_id: u8,
    /// what the acceptor answered for that context: (abstract syntax, accepted transfer syntax) or None when it was refused / never proposed
    pc: Option<(String, String)>,
    command: Vec<u8>,
    data: Vec<u8>,
}

/// serve one association, recording every store
fn serve(mut p: RawPeer, conn: usize, c: &Case, out: &Mutex<Vec<Stored>>, notes: &Mutex<Vec<String>>) {
    let t = Duration::from_secs(10);
    let pcs = match p.recv(t) {
        Recv::Pdu(PduIr::AssocRq { pcs, .. }) => pcs,
        other => {
            notes.lock().unwrap().push(format!("connection {conn}: no association request: {other:?}").chars().take(200).collect());
            return;
        }
    };
    let mut table: std::collections::HashMap<u8, Option<(String, String)>> = Default::default();
    let mut results = vec![];
    for pc in &pcs {
        let cls = SOP_CLASSES.iter().position(|s| *s == pc.abstract_syntax.trim_end_matches('\0'));
        let chosen = pc.transfer_syntaxes.iter().map(|t| t.trim_end_matches('\0').to_string()).find(|t| {
            let ti = TS_UIDS.iter().position(|s| s == t);
            match (cls, ti) {
                (Some(ci), Some(ti)) => c.policy.iter().any(|(a, b)| *a as usize % NC == ci && *b as usize % NT == ti),
                _ => false,
            }
        });
        match chosen {
            Some(ts) => {
                table.insert(pc.id, Some((pc.abstract_syntax.trim_end_matches('\0').to_string(), ts.clone())));
                results.push(PcResult { id: pc.id, reason: 0, transfer_syntax: ts });
            }
            None => {
                table.insert(pc.id, None);
                results.push(PcResult { id: pc.id, reason: if cls.is_some() { 4 } else { 3 }, transfer_syntax: "1.2.840.10008.1.2".into() });
            }
        }
    }
    let ac = PduIr::AssocAc { protocol_version: 1, called: "VERIF-SCP".into(), calling: "STORE-SCU".into(), app_ctx: ulpeer::APP_CTX.into(), pcs: results, user: vec![UserItem::MaxLength(c.acceptor_max), UserItem::ImplClassUid("1.2.3".into())] };
    if p.send(&ac).is_err() {
        return;
    }
    let mut cmd: Vec<u8> = vec![];
    let mut data: Vec<u8> = vec![];
    let mut cmd_done = false;
    let mut cur_pc = 0u8;
    loop {
        match p.recv(Duration::from_secs(20)) {
            Recv::Pdu(PduIr::PData { pdvs }) => {
                if c.acceptor_max != 0 {
                    let len: usize = pdvs.iter().map(|v| v.data.len() + 6).sum();
                    if len > c.acceptor_max as usize {
                        notes.lock().unwrap().push(format!("VIOLATION-LEN: P-DATA PDU of {len} bytes exceeds the acceptor's maximum {}", c.acceptor_max));
                    }
                }
                for v in pdvs {
                    cur_pc = v.pc_id;
                    if v.command {
                        cmd.extend_from_slice(&v.data);
                        cmd_done = v.last;
                    } else {
                        data.extend_from_slice(&v.data);
                        if v.last {
                            // a complete message: answer with success
                            let opts = ParseOpts { ts: Ts::ImplicitLE, sq_tags: None, require_even: false, require_ascending: false };
                            let parsed = ds::parse_strict(&cmd, &opts).unwrap_or_default();
                            let text = |t: (u16, u16)| parsed.iter().find(|e| e.tag == t).and_then(|e| if let PVal::Bytes(b) = &e.value { Some(String::from_utf8_lossy(trimmed(b)).to_string()) } else { None }).unwrap_or_default();
                            let msg_id = parsed.iter().find(|e| e.tag == (0, 0x0110)).and_then(|e| if let PVal::Bytes(b) = &e.value { Some(u16::from_le_bytes([*b.first()?, *b.get(1)?])) } else { None }).unwrap_or(1);
                            out.lock().unwrap().push(Stored { conn, pc_id: cur_pc, pc: table.get(&cur_pc).cloned().flatten(), command: cmd.clone(), data: std::mem::take(&mut data) });
                            let rsp = ulpeer::cstore_rsp(&text((0, 2)), &text((0, 0x1000)), msg_id, 0);
                            if !cmd_done {
                                notes.lock().unwrap().push("data arrived before the command set was complete".into());
                            }
                            cmd.clear();
                            cmd_done = false;
                            if p.send(&PduIr::PData { pdvs: vec![Pdv { pc_id: cur_pc, command: true, last: true, data: rsp }] }).is_err() {
                                return;
                            }
                        }
                    }
                }
            }
            Recv::Pdu(PduIr::ReleaseRq) => {
                let _ = p.send(&PduIr::ReleaseRp);
                return;
            }
            Recv::Pdu(PduIr::Abort { .. }) | Recv::Eof => return,
            Recv::Pdu(other) => notes.lock().unwrap().push(format!("unexpected {}", kind(&other))),
            other => {
                notes.lock().unwrap().push(format!("connection {conn}: {other:?}").chars().take(200).collect());
                return;
            }
        }
    }
}

fn check(root: &std::path::Path, c: &Case, obs: &mut Obs) {
    let dir = match tempfile::Builder::new().prefix("vcheck-c33-").tempdir() {
        Ok(d) => d,
        Err(e) => {
            obs.skip(e.to_string());
            return;
        }
    };
    // the files, built with the reference encoders
    let mut specs = vec![];
    let mut paths = vec![];
    for (k, f) in c.files.iter().enumerate() {
        let (elems, inst) = dataset(f, k);
        let uid = TS_UIDS[f.ts as usize % NT];
        let (rts, defl) = ref_ts(uid).unwrap();
        let raw = ds::encode_ds(&elems, rts, LenMode::AsFlagged);
        let body = if defl { deflate(&raw) } else { raw };
        let bytes = refimpl::file::build_file(uid, SOP_CLASSES[f.sop_class as usize % NC], &inst, &body, true);
        let path = dir.path().join(format!("f{k}.dcm"));
        if std::fs::write(&path, bytes).is_err() {
            obs.skip("cannot write input file");
            return;
        }
        paths.push(path);
        specs.push((elems, inst, f.sop_class as usize % NC, f.ts as usize % NT));
    }
    let listener = match TcpListener::bind("127.0.0.1:0") {
        Ok(l) => l,
        Err(e) => {
            obs.skip(e.to_string());
            return;
        }
    };
    let _ = listener.set_nonblocking(true);
    let port = listener.local_addr().unwrap().port();
    let stored: Mutex<Vec<Stored>> = Mutex::new(vec![]);
    let notes: Mutex<Vec<String>> = Mutex::new(vec![]);
    let stop = AtomicBool::new(false);
    obs.class(match c.concurrency {
        None => "sync".to_string(),
        Some(n) => format!("concurrency:{}", n % 3 + 1),
    });
    if c.never_transcode {
        obs.class("never-transcode");
    }
    let mut exit: Option<i32> = None;
    let mut log = String::new();
    std::thread::scope(|s| {
        let (stored, notes, stop) = (&stored, &notes, &stop);
        s.spawn(move || {
            let mut conn = 0;
            std::thread::scope(|s2| {
                while !stop.load(Ordering::SeqCst) {
                    match listener.accept() {
                        Ok((sock, _)) => {
                            let _ = sock.set_nonblocking(false);
                            conn += 1;
                            let id = conn;
                            s2.spawn(move || serve(RawPeer::new(sock), id, c, stored, notes));
                        }
                        Err(_) => std::thread::sleep(Duration::from_millis(5)),
                    }
                }
            });
        });
        let mut cmd = Command::new(ulpeer::tool(root, "dicom-storescu"));
        cmd.arg(format!("VERIF-SCP@127.0.0.1:{port}"));
        for p in &paths {
            cmd.arg(p);
        }
        cmd.arg("--max-pdu-length").arg("16378");
        if c.never_transcode {
            cmd.arg("--never-transcode");
        }
        if let Some(n) = c.concurrency {
            cmd.arg("-c").arg((n % 3 + 1).to_string());
        }
        let logf = dir.path().join("storescu.log");
        let (o, e) = (std::fs::File::create(&logf).unwrap(), std::fs::File::create(dir.path().join("storescu.err")).unwrap());
        match cmd.env("RUST_LOG", "info").stdin(Stdio::null()).stdout(Stdio::from(o)).stderr(Stdio::from(e)).spawn() {
            Ok(mut child) => {
                let t0 = Instant::now();
                loop {
                    match child.try_wait() {
                        Ok(Some(st)) => {
                            exit = st.code().or(Some(-99));
                            break;
                        }
                        Ok(None) if t0.elapsed() > Duration::from_secs(40) => {
                            let _ = child.kill();
                            let _ = child.wait();
                            break;
                        }
                        _ => std::thread::sleep(Duration::from_millis(5)),
                    }
                }
            }
            Err(e) => log = format!("cannot start dicom-storescu: {e}"),
        }
        // let the handlers drain
        std::thread::sleep(Duration::from_millis(20));
        stop.store(true, Ordering::SeqCst);
    });
    if !log.is_empty() {
        obs.fail("HARNESS-PANIC@c33:storescu not started", log);
        return;
    }
    let err_tail: String = std::fs::read_to_string(dir.path().join("storescu.err")).unwrap_or_default().lines().rev().take(4).collect::<Vec<_>>().join(" | ");
    let Some(code) = exit else {
        obs.fail("C33:storescu does not terminate", format!("killed after 40 s; {err_tail}"));
        return;
    };
    let stored = stored.into_inner().unwrap();
    let notes = notes.into_inner().unwrap();
    for n in &notes {
        if let Some(m) = n.strip_prefix("VIOLATION-LEN: ") {
            obs.fail("C33:storescu sends a PDU longer than the acceptor's maximum", m);
        }
    }
    let policy_desc = format!("accepted combinations {:?}; files {:?}; exit code {code}", c.policy.iter().map(|(a, b)| (*a as usize % NC, *b as usize % NT)).collect::<Vec<_>>(), specs.iter().map(|s| (s.2, s.3)).collect::<Vec<_>>());
    let opts_cmd = ParseOpts { ts: Ts::ImplicitLE, sq_tags: None, require_even: false, require_ascending: false };
    let mut sent_count = vec![0usize; specs.len()];
    for st in &stored {
        let parsed = ds::parse_strict(&st.command, &opts_cmd).unwrap_or_default();
        let text = |t: (u16, u16)| parsed.iter().find(|e| e.tag == t).and_then(|e| if let PVal::Bytes(b) = &e.value { Some(String::from_utf8_lossy(trimmed(b)).to_string()) } else { None }).unwrap_or_default();
        let inst = text((0, 0x1000));
        let Some(k) = specs.iter().position(|s| s.1 == inst) else {
            obs.fail("C33:store request for an instance that is not among the files", format!("{inst:?}; {policy_desc}"));
            continue;
        };
        sent_count[k] += 1;
        let (elems, _, cls, fts) = &specs[k];
        let Some((abs, ts)) = &st.pc else {
            obs.fail("C33:file sent on a presentation context that was not accepted", format!("context {} for file {k}; {policy_desc}", st.pc_id));
            continue;
        };
        if abs != SOP_CLASSES[*cls] {
            obs.fail(
                "C33:file sent on a presentation context of a different SOP class",
                format!("file {k} has SOP class {} but context {} was negotiated for {abs} ({ts}); {policy_desc}", SOP_CLASSES[*cls], st.pc_id),
            );
            continue;
        }
        if text((0, 2)) != SOP_CLASSES[*cls] {
            obs.fail("C33:Affected SOP Class UID differs from the file's SOP class", format!("{:?} vs {}", text((0, 2)), SOP_CLASSES[*cls]));
        }
        if ts != TS_UIDS[*fts] {
            obs.class("transcoded");
        } else {
            obs.class("sent-in-file-syntax");
        }
        // the bytes decode to the file's data set in the context's transfer syntax
        let Some((rts, defl)) = ref_ts(ts) else { continue };
        let body = if defl { inflate(&st.data).unwrap_or_default() } else { st.data.clone() };
        // an Encapsulated Uncompressed file sent on any other context must carry native (decoded) pixel data
        let dec;
        let elems = if *fts == ENC && ts != ENCAPSULATED_UNCOMPRESSED {
            obs.class("pixel-data-decoded-for-a-native-context");
            dec = decoded(elems);
            &dec
        } else {
            elems
        };
        if *fts == ENC {
            obs.class(format!("encapsulated-file-sent-as:{ts}"));
        }
        let sqs = ds::sq_tags(elems);
        let want = ds::encode_ds(elems, rts, LenMode::AsFlagged);
        let po = ParseOpts { ts: rts, sq_tags: Some(&sqs), require_even: false, require_ascending: true };
        match (ds::parse_strict(&body, &po), ds::parse_strict(&want, &po)) {
            (Ok(a), Ok(b)) => {
                if let Err(e) = same(&a, &b, "") {
                    obs.fail(format!("C33:data set sent differs from the file's data set:{}", if ts != TS_UIDS[*fts] { "transcoded" } else { "same syntax" }), format!("file {k} ({} -> {ts}): {e}", TS_UIDS[*fts]));
                }
            }
            (Err(e), _) => obs.fail("C33:data sent is not a valid data set in the context's transfer syntax", format!("file {k} ({} -> {ts}): {e}", TS_UIDS[*fts])),
            (_, Err(e)) => obs.fail("HARNESS-PANIC@c33:reference encoding does not parse", e),
        }
    }
    for (k, n) in sent_count.iter().enumerate() {
        if *n > 1 {
            obs.fail("C33:file sent more than once", format!("file {k}: {n} times; {policy_desc}"));
        }
        let (_, _, cls, fts) = &specs[k];
        let direct = c.policy.iter().any(|(a, b)| *a as usize % NC == *cls && *b as usize % NT == *fts);
        if direct && *n == 0 {
            obs.fail("C33:file not sent although a context with its SOP class and transfer syntax was accepted", format!("file {k}; {policy_desc}; notes {notes:?}; stderr: {err_tail}"));
        }
    }
    obs.nontrivial = !stored.is_empty() && (c.files.len() > 1);
    if stored.is_empty() {
        obs.class("nothing-sent");
    }
}

fn strategy() -> BoxedStrategy<Case> {
    let file = (0u8..6, prop_oneof![4 => 0u8..4, 1 => Just(4u8)], gen::dataset(DsCfg { max_depth: 2, max_top: 5, pixel_seq: false })).prop_map(|(sop_class, ts, elems)| FileSpec { sop_class, ts, elems });
    (
        proptest::collection::vec(file, 1..=5),
        proptest::collection::vec((0u8..6, prop_oneof![5 => 0u8..4, 1 => Just(4u8)]), 0..=12),
        prop_oneof![Just(16384u32), Just(1018u32), Just(0u32), 1018u32..70_000],
        proptest::bool::weighted(0.3),
        proptest::option::weighted(0.3, 0u8..3),
        // per file: optionally accept its SOP class with some transfer syntax, so that most runs send something
        proptest::collection::vec(proptest::option::weighted(0.6, prop_oneof![5 => 0u8..4, 1 => Just(4u8)]), 5),
    )
        .prop_map(|(files, mut policy, acceptor_max, never_transcode, concurrency, per_file)| {
            for (f, t) in files.iter().zip(per_file) {
                if let Some(t) = t {
                    policy.push((f.sop_class, t));
                }
            }
            Case { files, policy, acceptor_max, never_transcode, concurrency }
        })
        .boxed()
}

pub fn run(ctx: &Ctx) {
    let root = ctx.root.clone();
    ctx.assume("the real dicom-storescu binary (built from /repo's working tree by ./check) is run against a recording acceptor played by the harness (reference PDU codec)");
    ctx.run_prop(
        "storescu",
        "1-5 files built with the reference encoders (6 storage SOP classes, three of them with UIDs that are prefixes of one another, x Implicit VR LE / Explicit VR LE / Explicit VR BE / Deflated Explicit VR LE / (in 20% of the files) Encapsulated Uncompressed Explicit VR LE with an 8-bit image of 1-3 frames, one fragment per frame; standard-dictionary elements, nested sequences) are sent by the real dicom-storescu binary (sync, or -c 1..3; with and without --never-transcode) to a recording acceptor whose accepted (SOP class, transfer syntax) combinations, and maximum PDU length (incl. 0 and the minimum), are generated; oracle per store request recorded: the context id was accepted, its abstract syntax is the file's SOP class (the file is identified by the Affected SOP Instance UID), the Affected SOP Class UID is the file's, the data (inflated when deflated) parsed by the reference parser in the context's transfer syntax equals the reference encoding of the file's data set in that syntax (for an encapsulated file sent on another context: with the pixel data decoded to native bytes), no PDU exceeds the acceptor's maximum; a file is sent at most once, and is sent when a context with exactly its class and syntax was accepted; non-trivial = several files and at least one store",
        strategy,
        ctx.cases(800, 10_000),
        move |c: &Case, obs: &mut Obs| check(&root, c, obs),
    );
}
