//! C05 — untrusted input never makes a reader panic, abort or hang.
//!
//! Cases run in worker sub-processes (`vcheck __c05-worker`), because a stack overflow or an
//! allocation failure aborts the process and a hang needs a watchdog.
use crate::conv::to_obj;
use crate::engine::{catch, Ctx, Obs, Tier};
use crate::gen::{self, DsCfg};
use crate::img::{self, Img, ImgCfg};
use crate::pduconv;
use dicom_core::value::{PixelFragmentSequence, Value};
use dicom_core::{DataElement, PrimitiveValue, Tag, VR};
use dicom_dictionary_std::tags;
use proptest::prelude::*;
use refimpl::ds::{self, Elem, LenMode, PElem, PVal, ParseOpts, Ts};
use refimpl::pdu::{self as rp, PduIr};
use serde::{Deserialize, Serialize};
use std::cell::RefCell;
use std::io::{BufRead, BufReader, Read, Write};
use std::process::{Child, ChildStdin, Command, Stdio};
use std::sync::mpsc::{channel, Receiver, RecvTimeoutError};
use std::time::Duration;

// ------------------------------------------------------------------ worker side

pub fn worker_main() -> ! {
    // cap the address space: a declared length of 4 GiB must fail an allocation, not thrash the machine
    let cap_mb: u64 = std::env::var("VERIF_C05_CAP_MB").ok().and_then(|s| s.parse().ok()).unwrap_or(1024);
    unsafe {
        let lim = libc::rlimit { rlim_cur: cap_mb << 20, rlim_max: cap_mb << 20 };
        libc::setrlimit(libc::RLIMIT_AS, &lim);
    }
    crate::engine::install_panic_hook();
    let stdin = std::io::stdin();
    let mut inp = stdin.lock();
    let stdout = std::io::stdout();
    let mut out = stdout.lock();
    loop {
        let mut head = [0u8; 9];
        if inp.read_exact(&mut head).is_err() {
            std::process::exit(0);
        }
        let len = u32::from_le_bytes([head[0], head[1], head[2], head[3]]) as usize;
        let entry = head[4];
        let params = u32::from_le_bytes([head[5], head[6], head[7], head[8]]);
        let mut data = vec![0u8; len];
        if inp.read_exact(&mut data).is_err() {
            std::process::exit(0);
        }
        let line = match catch("c05", || drivers::drive(entry, params, &data)) {
            Ok(o) => format!("{} {}", if o.ok { "ok" } else { "err" }, o.depth),
            Err((sig, detail)) => format!("panic {}\t{}", sig.replace(['\n', '\t'], " "), detail.replace(['\n', '\t'], " ")),
        };
        let _ = writeln!(out, "{line}");
        let _ = out.flush();
    }
}

// ------------------------------------------------------------------ parent side: worker handle

struct Worker {
    child: Child,
    stdin: ChildStdin,
    rx: Receiver<String>,
    stderr_path: std::path::PathBuf,
}

enum Verdict {
    Ok(u32),
    Err(u32),
    Panic(String, String),
    /// killed by a signal or exited; text = classification + stderr tail
    Died(String, String),
    Timeout,
}

impl Worker {
    fn spawn(cap_mb: u32) -> Result<Worker, String> {
        let exe = std::env::current_exe().map_err(|e| e.to_string())?;
        let dir = std::env::temp_dir();
        static N: std::sync::atomic::AtomicUsize = std::sync::atomic::AtomicUsize::new(0);
        let stderr_path = dir.join(format!("vcheck-c05-{}-{}.err", std::process::id(), N.fetch_add(1, std::sync::atomic::Ordering::Relaxed)));
        let errf = std::fs::File::create(&stderr_path).map_err(|e| e.to_string())?;
        // (no pre_exec hook: it would force fork() of this large multi-threaded process for every
        // respawn; a worker exits by itself when its stdin closes)
        let mut child = Command::new(exe)
            .arg("__c05-worker")
            .arg("x")
            .env("RUST_BACKTRACE", "0")
            .env("RAYON_NUM_THREADS", "1")
            .env("VERIF_C05_CAP_MB", cap_mb.to_string())
            .stdin(Stdio::piped())
            .stdout(Stdio::piped())
            .stderr(Stdio::from(errf))
            .spawn()
            .map_err(|e| e.to_string())?;
        let stdin = child.stdin.take().unwrap();
        let stdout = child.stdout.take().unwrap();
        let (tx, rx) = channel();
        std::thread::spawn(move || {
            let r = BufReader::new(stdout);
            for l in r.lines() {
                match l {
                    Ok(l) => {
                        if tx.send(l).is_err() {
                            break;
                        }
                    }
                    Err(_) => break,
                }
            }
        });
        Ok(Worker { child, stdin, rx, stderr_path })
    }

    fn run(&mut self, entry: u8, params: u32, data: &[u8], timeout: Duration) -> Verdict {
        let mut frame = Vec::with_capacity(9 + data.len());
        frame.extend_from_slice(&(data.len() as u32).to_le_bytes());
        frame.push(entry);
        frame.extend_from_slice(&params.to_le_bytes());
        frame.extend_from_slice(data);
        let _ = self.stdin.write_all(&frame).and_then(|_| self.stdin.flush());
        match self.rx.recv_timeout(timeout) {
            Ok(line) => {
                if let Some(r) = line.strip_prefix("ok ") {
                    Verdict::Ok(r.parse().unwrap_or(0))
                } else if let Some(r) = line.strip_prefix("err ") {
                    Verdict::Err(r.parse().unwrap_or(0))
                } else if let Some(r) = line.strip_prefix("panic ") {
                    let (a, b) = r.split_once('\t').unwrap_or((r, ""));
                    Verdict::Panic(a.to_string(), b.to_string())
                } else {
                    Verdict::Died("unexpected worker output".into(), line)
                }
            }
            Err(RecvTimeoutError::Timeout) => {
                let _ = self.child.kill();
                let _ = self.child.wait();
                Verdict::Timeout
            }
            Err(RecvTimeoutError::Disconnected) => {
                let status = self.child.wait().ok();
                let tail = std::fs::read_to_string(&self.stderr_path).unwrap_or_default();
                let tail: String = tail.lines().rev().take(6).collect::<Vec<_>>().into_iter().rev().collect::<Vec<_>>().join(" | ");
                use std::os::unix::process::ExitStatusExt;
                let how = match status {
                    Some(s) => match s.signal() {
                        Some(sig) => format!("signal {sig}"),
                        None => format!("exit code {:?}", s.code()),
                    },
                    None => "unknown".into(),
                };
                Verdict::Died(how, tail)
            }
        }
    }
}

impl Drop for Worker {
    fn drop(&mut self) {
        let _ = self.child.kill();
        let _ = self.child.wait();
        let _ = std::fs::remove_file(&self.stderr_path);
    }
}

thread_local! {
    static WORKER: RefCell<Option<Worker>> = const { RefCell::new(None) };
}

/// normal cases hold this lock shared; the retry of a timed-out case holds it exclusively, so
/// that it runs on an otherwise idle machine
static QUIET: std::sync::RwLock<()> = std::sync::RwLock::new(());

fn run_in_worker(entry: u8, params: u32, data: &[u8]) -> Verdict {
    // The file meta reader zero-fills declared lengths (slow when large, but it handles an
    // allocation failure gracefully): a low cap keeps it fast.  The other readers reserve lazily.
    let cap_mb = if drivers::ENTRIES[entry as usize % drivers::ENTRIES.len()] == "meta" { 400 } else { 1024 };
    WORKER.with(|w| {
        let mut w = w.borrow_mut();
        if w.is_none() {
            match Worker::spawn(cap_mb) {
                Ok(x) => *w = Some(x),
                Err(e) => return Verdict::Died("cannot start worker".into(), e),
            }
        }
        let v = {
            let _shared = QUIET.read().unwrap_or_else(|e| e.into_inner());
            w.as_mut().unwrap().run(entry, params, data, Duration::from_secs(30))
        };
        match v {
            Verdict::Died(..) => {
                *w = None;
                v
            }
            Verdict::Timeout => {
                // re-run alone in a fresh worker with a longer budget: only a repeat counts
                *w = None;
                let _alone = QUIET.write().unwrap_or_else(|e| e.into_inner());
                match Worker::spawn(cap_mb) {
                    Ok(mut x) => match x.run(entry, params, data, Duration::from_secs(90)) {
                        Verdict::Timeout => Verdict::Timeout,
                        Verdict::Died(a, b) => Verdict::Died(a, b),
                        _ => Verdict::Died("inconclusive-timeout".into(), "first run exceeded 30 s, the repeat finished".into()),
                    },
                    Err(e) => Verdict::Died("cannot start worker".into(), e),
                }
            }
            other => other,
        }
    })
}

// ------------------------------------------------------------------ inputs

#[derive(Clone, Debug, Serialize, Deserialize)]
pub enum Mut {
    Set8 { pos: u16, v: u8 },
    Set16 { pos: u16, v: u16, be: bool },
    Set32 { pos: u16, v: u32, be: bool },
    Trunc { pos: u16 },
    Del { pos: u16, n: u16 },
    Dup { pos: u16, n: u16 },
    Ins { pos: u16, bytes: Vec<u8> },
    /// structure-aware (data set inputs): element index into the reference parser's flattened element list
    ElemLen { idx: u16, v: u32 },
    ElemVr { idx: u16, vr: [u8; 2] },
    ElemCut { idx: u16 },
    ElemDup { idx: u16 },
    ElemDel { idx: u16 },
    /// put an item / sequence delimiter in front of an element
    ElemDelim { idx: u16, seq: bool },
    /// structure-aware (PDU inputs): change one length field (PDU, item or sub-item) by `delta`, or set it to `abs`
    PduLen { idx: u16, delta: i16, abs: Option<u32> },
}

#[derive(Clone, Debug, Serialize, Deserialize)]
pub enum Input {
    Raw(Vec<u8>),
    /// a canonical encoding by the reference encoder, optionally wrapped as a file, then mutated
    Ds { elems: Vec<Elem>, ts: u8, file: bool, preamble: bool, muts: Vec<Mut> },
    /// `depth` nested undefined-length sequences/items around a small payload
    Nest { depth: u32, ts: u8, file: bool, close: bool, explicit_len: bool },
    Pdu { ir: PduIr, muts: Vec<Mut> },
    /// two PDUs back to back, mutated
    Pdus { a: PduIr, b: PduIr, muts: Vec<Mut> },
    JsonOf { elems: Vec<Elem>, muts: Vec<Mut> },
    JsonText(String),
    Text(String),
    TextBytes(Vec<u8>),
    /// an image in one of the decodable encodings with contradicting attributes / corrupted fragments
    Img { img: Img, codec: u8, attrs: Vec<(u8, u32)>, frag_muts: Vec<Mut>, tape: Vec<u8> },
}

#[derive(Clone, Debug, Serialize, Deserialize)]
pub struct Case {
    pub entry: u8,
    pub params: u32,
    pub input: Input,
}

fn at(pos: u16, len: usize) -> usize {
    (pos as usize * (len + 1)) >> 16
}

fn flatten<'a>(elems: &'a [PElem], out: &mut Vec<&'a PElem>) {
    for e in elems {
        out.push(e);
        if let PVal::Seq(items) = &e.value {
            for it in items {
                flatten(&it.elems, out);
            }
        }
    }
}

/// (offset of the length field, width) of an element header
fn len_field(e: &PElem, ts: Ts) -> (usize, usize) {
    if !ts.explicit() {
        (e.offset + 4, 4)
    } else if e.vr.as_deref().map(ds::is_short_vr).unwrap_or(false) {
        (e.offset + 6, 2)
    } else {
        (e.offset + 8, 4)
    }
}

fn apply_muts(mut b: Vec<u8>, muts: &[Mut], ds_ts: Option<Ts>, base: usize) -> Vec<u8> {
    // structure-aware mutations first, on offsets of the unmodified encoding (descending, so they stay valid)
    if let Some(ts) = ds_ts {
        let opts = ParseOpts { ts, sq_tags: None, require_even: false, require_ascending: false };
        if let Ok(parsed) = ds::parse_strict(&b[base..], &opts) {
            let mut flat = vec![];
            flatten(&parsed, &mut flat);
            if !flat.is_empty() {
                let mut sm: Vec<(usize, &Mut)> = muts
                    .iter()
                    .filter_map(|m| {
                        let idx = match m {
                            Mut::ElemLen { idx, .. } | Mut::ElemVr { idx, .. } | Mut::ElemCut { idx } | Mut::ElemDup { idx } | Mut::ElemDel { idx } | Mut::ElemDelim { idx, .. } => *idx,
                            _ => return None,
                        };
                        Some(((idx as usize * flat.len()) >> 16, m))
                    })
                    .collect();
                sm.sort_by(|a, b| flat[b.0].offset.cmp(&flat[a.0].offset));
                let big = ts.big();
                for (i, m) in sm {
                    let e = flat[i];
                    let off = base + e.offset;
                    let end = flat.get(i + 1).map(|n| base + n.offset).filter(|n| *n > off).unwrap_or(b.len()).min(b.len());
                    match m {
                        Mut::ElemLen { v, .. } => {
                            let (lo, w) = len_field(e, ts);
                            let lo = base + lo;
                            if lo + w <= b.len() {
                                if w == 2 {
                                    let x = (*v as u16).to_le_bytes();
                                    b[lo..lo + 2].copy_from_slice(&if big { [x[1], x[0]] } else { x });
                                } else {
                                    let x = v.to_le_bytes();
                                    b[lo..lo + 4].copy_from_slice(&if big { [x[3], x[2], x[1], x[0]] } else { x });
                                }
                            }
                        }
                        Mut::ElemVr { vr, .. } => {
                            if ts.explicit() && off + 6 <= b.len() {
                                b[off + 4..off + 6].copy_from_slice(vr);
                            }
                        }
                        Mut::ElemCut { .. } => b.truncate(off),
                        Mut::ElemDup { .. } => {
                            if off < end {
                                let c = b[off..end].to_vec();
                                b.splice(off..off, c);
                            }
                        }
                        Mut::ElemDel { .. } => {
                            if off < end {
                                b.drain(off..end);
                            }
                        }
                        Mut::ElemDelim { seq, .. } => {
                            let t: [u8; 8] = if big { [0xFF, 0xFE, 0xE0, if *seq { 0xDD } else { 0x0D }, 0, 0, 0, 0] } else { [0xFE, 0xFF, if *seq { 0xDD } else { 0x0D }, 0xE0, 0, 0, 0, 0] };
                            if off <= b.len() {
                                b.splice(off..off, t);
                            }
                        }
                        _ => {}
                    }
                }
            }
        }
    }
    // PDU length fields, located on the unmodified encoding
    let pl: Vec<&Mut> = muts.iter().filter(|m| matches!(m, Mut::PduLen { .. })).collect();
    if !pl.is_empty() {
        let fields = pdu_length_fields(&b);
        if !fields.is_empty() {
            for m in pl {
                if let Mut::PduLen { idx, delta, abs } = m {
                    let (off, w) = fields[(*idx as usize * fields.len()) >> 16];
                    if off + w <= b.len() {
                        let cur = if w == 2 { u16::from_be_bytes([b[off], b[off + 1]]) as i64 } else { u32::from_be_bytes([b[off], b[off + 1], b[off + 2], b[off + 3]]) as i64 };
                        let v = abs.map(|a| a as i64).unwrap_or(cur + *delta as i64).max(0);
                        if w == 2 {
                            b[off..off + 2].copy_from_slice(&(v.min(0xFFFF) as u16).to_be_bytes());
                        } else {
                            b[off..off + 4].copy_from_slice(&(v.min(u32::MAX as i64) as u32).to_be_bytes());
                        }
                    }
                }
            }
        }
    }
    for m in muts {
        let n = b.len();
        match m {
            Mut::Set8 { pos, v } => {
                if n > 0 {
                    let p = at(*pos, n - 1);
                    b[p] = *v;
                }
            }
            Mut::Set16 { pos, v, be } => {
                if n >= 2 {
                    let p = at(*pos, n - 2);
                    b[p..p + 2].copy_from_slice(&if *be { v.to_be_bytes() } else { v.to_le_bytes() });
                }
            }
            Mut::Set32 { pos, v, be } => {
                if n >= 4 {
                    let p = at(*pos, n - 4);
                    b[p..p + 4].copy_from_slice(&if *be { v.to_be_bytes() } else { v.to_le_bytes() });
                }
            }
            Mut::Trunc { pos } => b.truncate(at(*pos, n)),
            Mut::Del { pos, n: k } => {
                let p = at(*pos, n);
                let e = (p + *k as usize).min(n);
                b.drain(p..e);
            }
            Mut::Dup { pos, n: k } => {
                let p = at(*pos, n);
                let e = (p + *k as usize).min(n);
                let c = b[p..e].to_vec();
                b.splice(p..p, c);
            }
            Mut::Ins { pos, bytes } => {
                let p = at(*pos, n);
                b.splice(p..p, bytes.iter().copied());
            }
            _ => {}
        }
    }
    b
}

/// (offset, width) of every length field in a stream of PDUs: PDU lengths, variable items,
/// sub-items of presentation context and user information items, PDV item lengths
fn pdu_length_fields(b: &[u8]) -> Vec<(usize, usize)> {
    fn items(b: &[u8], mut p: usize, end: usize, depth: u8, out: &mut Vec<(usize, usize)>) {
        while p + 4 <= end.min(b.len()) {
            let ty = b[p];
            let l = u16::from_be_bytes([b[p + 2], b[p + 3]]) as usize;
            out.push((p + 2, 2));
            let body = p + 4;
            if depth == 0 && (ty == 0x20 || ty == 0x21 || ty == 0x50) {
                let skip = if ty == 0x50 { 0 } else { 4 };
                items(b, body + skip, body + l, 1, out);
            }
            p = body + l;
        }
    }
    let mut out = vec![];
    let mut p = 0;
    while p + 6 <= b.len() {
        let ty = b[p];
        let l = u32::from_be_bytes([b[p + 2], b[p + 3], b[p + 4], b[p + 5]]) as usize;
        out.push((p + 2, 4));
        let end = (p + 6 + l).min(b.len());
        match ty {
            1 | 2 => items(b, p + 6 + 68, end, 0, &mut out),
            4 => {
                let mut q = p + 6;
                while q + 4 <= end {
                    out.push((q, 4));
                    q += 4 + u32::from_be_bytes([b[q], b[q + 1], b[q + 2], b[q + 3]]) as usize;
                }
            }
            _ => {}
        }
        p += 6 + l;
    }
    out
}

const SOP: &str = "1.2.840.10008.5.1.4.1.1.7";

fn ref_ts(i: u8) -> (Ts, &'static str, bool) {
    match i % 4 {
        0 => (Ts::ImplicitLE, "1.2.840.10008.1.2", false),
        1 => (Ts::ExplicitLE, "1.2.840.10008.1.2.1", false),
        2 => (Ts::ExplicitBE, "1.2.840.10008.1.2.2", false),
        _ => (Ts::ExplicitLE, "1.2.840.10008.1.2.1.99", true),
    }
}

fn deflate(b: &[u8]) -> Vec<u8> {
    let mut e = flate2::write::DeflateEncoder::new(Vec::new(), flate2::Compression::fast());
    let _ = e.write_all(b);
    e.finish().unwrap_or_default()
}

fn nest_bytes(depth: u32, ts: Ts, close: bool, explicit_len: bool) -> Vec<u8> {
    let big = ts.big();
    let t = |g: u16, e: u16| -> [u8; 4] {
        let (a, b) = (g.to_le_bytes(), e.to_le_bytes());
        if big { [a[1], a[0], b[1], b[0]] } else { [a[0], a[1], b[0], b[1]] }
    };
    let undef = [0xFFu8; 4];
    let mut out = vec![];
    // payload at the bottom: one short element
    let leaf: Vec<u8> = ds::encode_ds(&[Elem { g: 0x0008, e: 0x0060, vr: "CS".into(), v: ds::Val::Strs(vec!["CT".into()]) }], ts, LenMode::AsFlagged);
    if explicit_len && depth <= 2000 {
        // defined lengths, built inside out
        let mut inner = leaf;
        for _ in 0..depth {
            let mut item = vec![];
            item.extend_from_slice(&t(0xFFFE, 0xE000));
            let l = (inner.len() as u32).to_le_bytes();
            item.extend_from_slice(&if big { [l[3], l[2], l[1], l[0]] } else { l });
            item.extend_from_slice(&inner);
            let mut sq = vec![];
            sq.extend_from_slice(&t(0x0008, 0x1140));
            if ts.explicit() {
                sq.extend_from_slice(b"SQ\0\0");
            }
            let l = (item.len() as u32).to_le_bytes();
            sq.extend_from_slice(&if big { [l[3], l[2], l[1], l[0]] } else { l });
            sq.extend_from_slice(&item);
            inner = sq;
        }
        return inner;
    }
    for _ in 0..depth {
        out.extend_from_slice(&t(0x0008, 0x1140));
        if ts.explicit() {
            out.extend_from_slice(b"SQ\0\0");
        }
        out.extend_from_slice(&undef);
        out.extend_from_slice(&t(0xFFFE, 0xE000));
        out.extend_from_slice(&undef);
    }
    out.extend_from_slice(&leaf);
    if close {
        for _ in 0..depth {
            out.extend_from_slice(&t(0xFFFE, 0xE00D));
            out.extend_from_slice(&[0; 4]);
            out.extend_from_slice(&t(0xFFFE, 0xE0DD));
            out.extend_from_slice(&[0; 4]);
        }
    }
    out
}

fn image_file(im: &Img, codec: u8, attrs: &[(u8, u32)], frag_muts: &[Mut], tape: &[u8]) -> Option<Vec<u8>> {
    use dicom_encoding::transfer_syntax::TransferSyntaxIndex;
    use dicom_pixeldata::Transcode;
    use dicom_transfer_syntax_registry::TransferSyntaxRegistry;
    let mut obj = match codec % 6 {
        0 => img::build_native(im, "1.2.840.10008.1.2.1"),
        1 => img::build_native(im, "1.2.840.10008.1.2"),
        2 => {
            // RLE by the reference encoder
            let mut t = refimpl::rle::Tape::new(tape);
            let mut st = refimpl::rle::RleStats::default();
            let frags: Vec<Vec<u8>> = (0..im.frames as usize).map(|k| refimpl::rle::encode_frame(im.frame(k), im.rows as usize, im.cols as usize, im.samples as usize, im.bytes_per_sample(), &mut t, &mut st)).collect();
            let mut o = img::base_object(im);
            o.put(DataElement::new(tags::PIXEL_DATA, VR::OB, Value::PixelSequence(PixelFragmentSequence::new(vec![], frags))));
            img::with_meta(o, "1.2.840.10008.1.2.5")
        }
        c => {
            let uid = match c {
                3 => "1.2.840.10008.1.2.4.50",
                4 => "1.2.840.10008.1.2.8.1",
                _ => "1.2.840.10008.1.2.1.98",
            };
            let mut o = img::build_native(im, "1.2.840.10008.1.2.1");
            let ts = TransferSyntaxRegistry.get(uid)?;
            if o.transcode(ts).is_err() {
                // e.g. JPEG with fewer than 8 bits stored: keep the native image
                o = img::build_native(im, "1.2.840.10008.1.2.1");
            }
            o
        }
    };
    // corrupt fragments
    if !frag_muts.is_empty() {
        if let Some(e) = obj.get(tags::PIXEL_DATA).cloned() {
            if let Value::PixelSequence(s) = e.value() {
                let bot = s.offset_table().to_vec();
                let mut frags: Vec<Vec<u8>> = s.fragments().to_vec();
                for (i, m) in frag_muts.iter().enumerate() {
                    if frags.is_empty() {
                        break;
                    }
                    let k = i % frags.len();
                    let f = std::mem::take(&mut frags[k]);
                    frags[k] = apply_muts(f, std::slice::from_ref(m), None, 0);
                }
                obj.put(DataElement::new(tags::PIXEL_DATA, VR::OB, Value::PixelSequence(PixelFragmentSequence::new(bot, frags))));
            }
        }
    }
    // contradicting attributes
    for (k, v) in attrs {
        let (tag, vr, val): (Tag, VR, PrimitiveValue) = match k % 9 {
            0 => (tags::ROWS, VR::US, PrimitiveValue::from(*v as u16)),
            1 => (tags::COLUMNS, VR::US, PrimitiveValue::from(*v as u16)),
            2 => (tags::BITS_ALLOCATED, VR::US, PrimitiveValue::from(*v as u16)),
            3 => (tags::BITS_STORED, VR::US, PrimitiveValue::from(*v as u16)),
            4 => (tags::SAMPLES_PER_PIXEL, VR::US, PrimitiveValue::from(*v as u16)),
            5 => (tags::NUMBER_OF_FRAMES, VR::IS, PrimitiveValue::from(v.to_string())),
            6 => (tags::PIXEL_REPRESENTATION, VR::US, PrimitiveValue::from(*v as u16)),
            7 => (tags::HIGH_BIT, VR::US, PrimitiveValue::from(*v as u16)),
            _ => (tags::PLANAR_CONFIGURATION, VR::US, PrimitiveValue::from(*v as u16)),
        };
        obj.put(DataElement::new(tag, vr, val));
    }
    let mut bytes = vec![];
    obj.write_all(&mut bytes).ok()?;
    Some(bytes)
}

/// entry, params, bytes
pub fn materialize(c: &Case) -> Option<Vec<u8>> {
    Some(match &c.input {
        Input::Raw(b) | Input::TextBytes(b) => b.clone(),
        Input::Text(s) | Input::JsonText(s) => s.clone().into_bytes(),
        Input::Ds { elems, ts, file, preamble, muts } => {
            let (rts, uid, defl) = ref_ts(*ts);
            let raw = ds::encode_ds(elems, rts, LenMode::AsFlagged);
            if *file {
                if defl {
                    let mutated = apply_muts(raw, muts, Some(rts), 0);
                    let f = refimpl::file::build_file(uid, SOP, "1.2.3", &deflate(&mutated), *preamble);
                    // byte-level mutations also hit the outer file now and then
                    apply_muts(f, &muts.iter().filter(|m| matches!(m, Mut::Trunc { .. } | Mut::Set8 { .. })).take(1).cloned().collect::<Vec<_>>(), None, 0)
                } else {
                    let head = refimpl::file::build_file(uid, SOP, "1.2.3", &[], *preamble).len();
                    let f = refimpl::file::build_file(uid, SOP, "1.2.3", &raw, *preamble);
                    apply_muts(f, muts, Some(rts), head)
                }
            } else {
                let m = apply_muts(raw, muts, Some(rts), 0);
                if defl { deflate(&m) } else { m }
            }
        }
        Input::Nest { depth, ts, file, close, explicit_len } => {
            let (rts, uid, defl) = ref_ts(*ts);
            let b = nest_bytes(*depth, rts, *close, *explicit_len);
            let b = if defl { deflate(&b) } else { b };
            if *file { refimpl::file::build_file(uid, SOP, "1.2.3", &b, true) } else { b }
        }
        Input::Pdu { ir, muts } => apply_muts(rp::encode(ir).ok()?, muts, None, 0),
        Input::Pdus { a, b, muts } => {
            let mut x = rp::encode(a).ok()?;
            x.extend(rp::encode(b).ok()?);
            apply_muts(x, muts, None, 0)
        }
        Input::JsonOf { elems, muts } => {
            let o = to_obj(elems, None);
            let t = dicom_json::to_string(&o).ok()?;
            apply_muts(t.into_bytes(), muts, None, 0)
        }
        Input::Img { img, codec, attrs, frag_muts, tape } => image_file(img, *codec, attrs, frag_muts, tape)?,
    })
}

// ------------------------------------------------------------------ generators

fn interesting32() -> BoxedStrategy<u32> {
    // Lengths of hundreds of MB and more make a reader reserve that much; under the worker's
    // address-space cap that ends in an allocation-failure abort (counted as inconclusive), so
    // they are kept but rare.
    prop_oneof![
        2 => Just(0u32),
        2 => Just(1u32),
        1 => Just(2u32),
        2 => Just(3u32),
        2 => Just(0xFFFFu32),
        2 => Just(0x1_0000u32),
        1 => Just(0xFF_FFFFu32),
        1 => Just(0x7FFF_FFFFu32),
        1 => Just(0xFFFF_FFFEu32),
        2 => Just(0xFFFF_FFFFu32),
        1 => Just(0x8000_0000u32),
        1 => any::<u32>(),
        6 => 0u32..4096,
        2 => 4096u32..2_000_000,
    ]
    .boxed()
}

fn mutation(structural: bool) -> BoxedStrategy<Mut> {
    let vr = proptest::sample::select(vec![*b"SQ", *b"UN", *b"OB", *b"OW", *b"UT", *b"US", *b"DS", *b"DA", *b"AT", *b"PN", *b"ZZ", *b"\0\0", *b"FD", *b"UV", *b"UC"]);
    let byte = prop_oneof![
        2 => (any::<u16>(), any::<u8>()).prop_map(|(pos, v)| Mut::Set8 { pos, v }),
        2 => (any::<u16>(), prop_oneof![Just(0u16), Just(0xFFFF), Just(0xFFFE), Just(1), any::<u16>()], any::<bool>()).prop_map(|(pos, v, be)| Mut::Set16 { pos, v, be }),
        3 => (any::<u16>(), interesting32(), any::<bool>()).prop_map(|(pos, v, be)| Mut::Set32 { pos, v, be }),
        3 => any::<u16>().prop_map(|pos| Mut::Trunc { pos }),
        1 => (any::<u16>(), 1u16..40).prop_map(|(pos, n)| Mut::Del { pos, n }),
        1 => (any::<u16>(), 1u16..200).prop_map(|(pos, n)| Mut::Dup { pos, n }),
        1 => (any::<u16>(), proptest::collection::vec(any::<u8>(), 1..12)).prop_map(|(pos, bytes)| Mut::Ins { pos, bytes }),
    ];
    if !structural {
        return byte.boxed();
    }
    prop_oneof![
        4 => byte,
        5 => (any::<u16>(), interesting32()).prop_map(|(idx, v)| Mut::ElemLen { idx, v }),
        3 => (any::<u16>(), vr).prop_map(|(idx, vr)| Mut::ElemVr { idx, vr }),
        2 => any::<u16>().prop_map(|idx| Mut::ElemCut { idx }),
        1 => any::<u16>().prop_map(|idx| Mut::ElemDup { idx }),
        1 => any::<u16>().prop_map(|idx| Mut::ElemDel { idx }),
        2 => (any::<u16>(), any::<bool>()).prop_map(|(idx, seq)| Mut::ElemDelim { idx, seq }),
    ]
    .boxed()
}

fn muts(structural: bool) -> BoxedStrategy<Vec<Mut>> {
    prop_oneof![1 => Just(vec![]), 6 => proptest::collection::vec(mutation(structural), 1..=2), 2 => proptest::collection::vec(mutation(structural), 3..=6)].boxed()
}

fn ds_input(file: Option<bool>) -> BoxedStrategy<Input> {
    (gen::dataset(DsCfg { max_depth: 3, max_top: 6, pixel_seq: true }), 0u8..4, any::<bool>(), any::<bool>(), muts(true))
        .prop_map(move |(elems, ts, f, preamble, muts)| Input::Ds { elems, ts, file: file.unwrap_or(f), preamble: preamble || file != Some(true), muts })
        .boxed()
}

fn nest_input(file: Option<bool>, thorough: bool) -> BoxedStrategy<Input> {
    let depth = if thorough { prop_oneof![3 => 1u32..200, 2 => 200u32..5000, 1 => 5000u32..200_000].boxed() } else { prop_oneof![3 => 1u32..200, 2 => 200u32..5000, 1 => 5000u32..60_000].boxed() };
    (depth, 0u8..4, any::<bool>(), any::<bool>(), any::<bool>()).prop_map(move |(depth, ts, f, close, explicit_len)| Input::Nest { depth, ts, file: file.unwrap_or(f), close, explicit_len }).boxed()
}

fn raw_input() -> BoxedStrategy<Input> {
    prop_oneof![
        proptest::collection::vec(any::<u8>(), 0..64).prop_map(Input::Raw),
        proptest::collection::vec(any::<u8>(), 64..600).prop_map(Input::Raw),
        // a plausible start followed by noise
        (proptest::collection::vec(any::<u8>(), 0..200), any::<bool>()).prop_map(|(mut b, pre)| {
            let mut v = if pre { vec![0u8; 128] } else { vec![] };
            v.extend_from_slice(b"DICM\x02\x00\x00\x00UL\x04\x00");
            v.append(&mut b);
            Input::Raw(v)
        }),
    ]
    .boxed()
}

fn text_input() -> BoxedStrategy<Input> {
    prop_oneof![
        3 => "\\PC{0,24}".prop_map(Input::Text),
        2 => "[0-9+\\-.: ]{0,30}".prop_map(Input::Text),
        2 => "[(),0-9A-Fa-f\\[\\]. ]{0,24}".prop_map(Input::Text),
        1 => "[A-Za-z]{1,20}(\\[[0-9]{0,12}\\])?(\\.[A-Za-z(),0-9]{0,12}){0,3}".prop_map(Input::Text),
        // dates and times around the partial-precision boundaries, with multi-byte characters at every alignment
        2 => (prop_oneof![gen::date_text(), gen::time_text(), gen::datetime_text()], any::<u16>(), prop_oneof![Just("é".to_string()), Just("日".to_string()), Just("😀".to_string()), Just("-".to_string()), Just("".to_string())]).prop_map(|(mut s, pos, ins)| {
            let mut p = at(pos, s.len());
            while !s.is_char_boundary(p) {
                p -= 1;
            }
            s.insert_str(p, &ins);
            Input::Text(s)
        }),
        1 => (gen::date_text(), gen::date_text()).prop_map(|(a, b)| Input::Text(format!("{a}-{b}"))),
        1 => (gen::datetime_text(), gen::datetime_text()).prop_map(|(a, b)| Input::Text(format!("{a}-{b}"))),
        2 => proptest::collection::vec(any::<u8>(), 0..40).prop_map(Input::TextBytes),
        // ISO 2022 escape sequences inside text
        1 => proptest::collection::vec(prop_oneof![Just(0x1Bu8), Just(b'$'), Just(b'('), Just(b')'), Just(b'B'), Just(b'J'), Just(b'A'), Just(b'D'), Just(b'C'), Just(b'I'), any::<u8>()], 0..24).prop_map(Input::TextBytes),
    ]
    .boxed()
}

fn json_input() -> BoxedStrategy<Input> {
    prop_oneof![
        3 => (gen::dataset(DsCfg { max_depth: 2, max_top: 5, pixel_seq: false }), muts(false)).prop_map(|(elems, muts)| Input::JsonOf { elems, muts }),
        3 => crate::props::c23::json_dataset(2).prop_map(Input::JsonText),
        1 => (1u32..3000).prop_map(|d| Input::JsonText(format!("{}{}", "{\"00081140\":{\"vr\":\"SQ\",\"Value\":[".repeat(d as usize), "]}}".repeat(d as usize)))),
        1 => (1u32..100_000).prop_map(|d| Input::JsonText("[".repeat(d as usize))),
        1 => "\\PC{0,40}".prop_map(Input::JsonText),
    ]
    .boxed()
}

fn pdu_muts() -> BoxedStrategy<Vec<Mut>> {
    let plen = (any::<u16>(), -8i16..=8, proptest::option::weighted(0.4, prop_oneof![4 => 0u32..12, 1 => Just(0xFFFFu32), 1 => Just(0xFFFF_FFFFu32), 1 => 0u32..70_000])).prop_map(|(idx, delta, abs)| Mut::PduLen { idx, delta, abs });
    prop_oneof![1 => Just(vec![]), 5 => proptest::collection::vec(prop_oneof![2 => plen.clone(), 1 => mutation(false)], 1..=2), 1 => proptest::collection::vec(prop_oneof![plen, mutation(false)], 3..=5)].boxed()
}

fn pdu_input() -> BoxedStrategy<Input> {
    prop_oneof![
        4 => (pduconv::pdu(false), pdu_muts()).prop_map(|(ir, muts)| Input::Pdu { ir, muts }),
        2 => (pduconv::pdu(false), pduconv::pdu(false), pdu_muts()).prop_map(|(a, b, muts)| Input::Pdus { a, b, muts }),
        1 => proptest::collection::vec(any::<u8>(), 0..40).prop_map(Input::Raw),
        1 => (1u8..8, any::<u32>(), proptest::collection::vec(any::<u8>(), 0..30)).prop_map(|(t, l, mut rest)| {
            let mut v = vec![t, 0];
            v.extend_from_slice(&l.to_be_bytes());
            v.append(&mut rest);
            Input::Raw(v)
        }),
    ]
    .boxed()
}

fn img_input() -> BoxedStrategy<Input> {
    let attr = (0u8..9, prop_oneof![Just(0u32), Just(1), Just(3), Just(7), Just(8), Just(9), Just(12), Just(16), Just(17), Just(32), Just(64), Just(255), Just(4096), Just(65535), 0u32..40]);
    (
        img::img(ImgCfg { one_bit: true, max_frames: 4, large: false }),
        0u8..6,
        prop_oneof![3 => Just(vec![]), 4 => proptest::collection::vec(attr.clone(), 1..=2), 1 => proptest::collection::vec(attr, 3..=5)],
        prop_oneof![2 => Just(vec![]), 3 => proptest::collection::vec(mutation(false), 1..=3)],
        proptest::collection::vec(any::<u8>(), 0..12),
    )
        .prop_map(|(img, codec, attrs, frag_muts, tape)| {
            // RLE / JPEG / deflate seeds need 8 or 16 bits allocated
            let codec = if img.bits_alloc == 1 { codec % 2 } else { codec };
            Input::Img { img, codec, attrs, frag_muts, tape }
        })
        .boxed()
}

/// the inputs offered to each entry point
fn family(entry: u8, thorough: bool) -> BoxedStrategy<Case> {
    let input: BoxedStrategy<Input> = match drivers::ENTRIES[entry as usize] {
        "file" => prop_oneof![8 => ds_input(Some(true)), 1 => nest_input(Some(true), thorough), 1 => raw_input(), 3 => img_input()].boxed(),
        "meta" => prop_oneof![
            4 => (gen::dataset(DsCfg { max_depth: 0, max_top: 1, pixel_seq: false }), muts(false)).prop_map(|(elems, m)| {
                // the meta group alone (after the preamble), mutated
                let f = refimpl::file::build_file("1.2.840.10008.1.2.1", SOP, "1.2.3.4.5", &ds::encode_ds(&elems, Ts::ExplicitLE, LenMode::AsFlagged), false);
                Input::Raw(apply_muts(f, &m, None, 0))
            }),
            1 => raw_input(),
        ]
        .boxed(),
        "dsread" | "lazy" | "dataset" => prop_oneof![8 => ds_input(Some(false)), 1 => nest_input(Some(false), thorough), 1 => raw_input()].boxed(),
        "collector" => prop_oneof![8 => ds_input(Some(true)), 1 => nest_input(Some(true), thorough), 1 => raw_input(), 2 => img_input()].boxed(),
        "json" => json_input(),
        "pdu" => pdu_input(),
        "text" => text_input(),
        _ => img_input(),
    };
    (input, any::<u32>()).prop_map(move |(input, params)| Case { entry, params, input }).boxed()
}

// ------------------------------------------------------------------ the check

fn check(c: &Case, obs: &mut Obs) {
    let name = drivers::ENTRIES[c.entry as usize % drivers::ENTRIES.len()];
    let Some(bytes) = materialize(c) else {
        obs.skip("input could not be produced");
        return;
    };
    obs.class(match &c.input {
        Input::Raw(_) => "raw-bytes",
        Input::Ds { muts, .. } => {
            if muts.is_empty() {
                "valid-encoding"
            } else if muts.iter().any(|m| matches!(m, Mut::ElemLen { .. } | Mut::ElemVr { .. } | Mut::ElemCut { .. } | Mut::ElemDup { .. } | Mut::ElemDel { .. } | Mut::ElemDelim { .. })) {
                "structure-aware-mutation"
            } else {
                "byte-mutation"
            }
        }
        Input::Pdu { muts, .. } | Input::Pdus { muts, .. } if muts.iter().any(|m| matches!(m, Mut::PduLen { .. })) => "pdu-length-field-mutation",
        Input::Nest { depth, .. } => {
            if *depth >= 5000 {
                "nesting>=5000"
            } else if *depth >= 200 {
                "nesting-200..5000"
            } else {
                "nesting<200"
            }
        }
        Input::Pdu { .. } | Input::Pdus { .. } => "mutated-pdu",
        Input::JsonOf { .. } => "mutated-json",
        Input::JsonText(_) => "grammar-json",
        Input::Text(_) | Input::TextBytes(_) => "text",
        Input::Img { attrs, frag_muts, .. } => match (attrs.is_empty(), frag_muts.is_empty()) {
            (true, true) => "image-valid",
            (false, true) => "image-contradicting-attributes",
            (true, false) => "image-corrupt-fragments",
            _ => "image-attributes+fragments",
        },
    });
    let verdict = run_in_worker(c.entry, c.params, &bytes);
    if std::env::var("VERIF_VERBOSE").is_ok() {
        if let Verdict::Died(a, b) = &verdict {
            eprintln!("worker died on {name}: {a}: {b} ({} bytes)", bytes.len());
        }
        if let Verdict::Timeout = &verdict {
            eprintln!("worker timeout on {name} ({} bytes)", bytes.len());
        }
    }
    match verdict {
        Verdict::Ok(d) => {
            obs.class("returned-ok");
            // (pixels: the file was read and at least one decoding call succeeded)
            obs.nontrivial = if name == "pixels" { d > 1 } else { d > 0 };
            obs.class(format!("depth:{}", depth_bucket(d)));
        }
        Verdict::Err(d) => {
            obs.class("returned-err");
            obs.nontrivial = if name == "pixels" { d > 1 } else { d > 0 };
            obs.class(format!("depth:{}", depth_bucket(d)));
        }
        Verdict::Panic(sig, detail) => {
            obs.nontrivial = true;
            if sig.starts_with("HARNESS-PANIC") {
                obs.fail(sig, detail);
            } else {
                obs.fail(format!("C05:{name}:{sig}"), format!("{detail} ({} input bytes)", bytes.len()));
            }
        }
        Verdict::Timeout => {
            obs.nontrivial = true;
            obs.fail(format!("C05:{name}:hang"), format!("no answer within 30 s and again within 90 s ({} input bytes)", bytes.len()));
        }
        Verdict::Died(how, tail) => {
            obs.nontrivial = true;
            let low = tail.to_lowercase();
            if how == "inconclusive-timeout" {
                obs.class("inconclusive:slow-case");
            } else if low.contains("memory allocation of") || low.contains("capacity overflow") && low.contains("alloc") {
                // allocator refusal under the worker's address-space cap: depends on the machine
                obs.class("inconclusive:allocation-failure-abort");
            } else if low.contains("overflowed its stack") || low.contains("stack overflow") {
                let nest = match &c.input {
                    Input::Nest { .. } => "deep nesting",
                    Input::JsonText(_) | Input::JsonOf { .. } => "deep JSON nesting",
                    _ => "other input",
                };
                obs.fail(format!("C05:{name}:abort:stack overflow:{nest}"), format!("{how}; {tail} ({} input bytes)", bytes.len()));
            } else if how.starts_with("cannot start") || how.starts_with("unexpected worker") {
                obs.fail(format!("HARNESS-PANIC@worker:{how}"), tail);
            } else {
                obs.fail(format!("C05:{name}:abort:{how}"), format!("{tail} ({} input bytes)", bytes.len()));
            }
        }
    }
}

fn depth_bucket(d: u32) -> &'static str {
    match d {
        0 => "0",
        1..=3 => "1-3",
        4..=20 => "4-20",
        _ => ">20",
    }
}

/// Write `n` generated inputs per entry-point family as libFuzzer corpus files
/// (`[entry][params le32][input bytes]`), small ones only.
pub fn write_corpus(dir: &std::path::Path, n: u32, seed: u64) -> Result<usize, String> {
    use proptest::strategy::ValueTree;
    use proptest::test_runner::{Config, RngSeed, TestRunner};
    std::fs::create_dir_all(dir).map_err(|e| e.to_string())?;
    let mut written = 0;
    for i in 0..drivers::ENTRIES.len() {
        let mut runner = TestRunner::new(Config { rng_seed: RngSeed::Fixed(seed.wrapping_add(i as u64)), failure_persistence: None, ..Config::default() });
        let strat = family(i as u8, false);
        for k in 0..n {
            let Ok(tree) = strat.new_tree(&mut runner) else { continue };
            let c = tree.current();
            if matches!(c.input, Input::Nest { depth, .. } if depth > 100) {
                continue;
            }
            let Some(bytes) = materialize(&c) else { continue };
            if bytes.len() > 8192 {
                continue;
            }
            let mut f = vec![c.entry];
            f.extend_from_slice(&c.params.to_le_bytes());
            f.extend_from_slice(&bytes);
            std::fs::write(dir.join(format!("{}-{k:04}", drivers::ENTRIES[i])), f).map_err(|e| e.to_string())?;
            written += 1;
        }
    }
    Ok(written)
}

/// Turn a libFuzzer input file into a replayable case (the JSON the engine's --replay understands).
pub fn case_from_fuzz_input(data: &[u8]) -> Option<Case> {
    if data.len() < 5 {
        return None;
    }
    Some(Case { entry: data[0] % drivers::ENTRIES.len() as u8, params: u32::from_le_bytes([data[1], data[2], data[3], data[4]]), input: Input::Raw(data[5..].to_vec()) })
}

pub fn run(ctx: &Ctx) {
    let thorough = matches!(ctx.tier, Tier::Thorough);
    ctx.assume("cases run in worker sub-processes of the same release binary (RLIMIT_AS 1 GiB, 400 MiB for the file meta reader, main thread, default 8 MiB stack); an allocation-failure abort is counted as inconclusive, not as a violation");
    for (i, name) in drivers::ENTRIES.iter().enumerate() {
        let (q, t) = match *name {
            "text" | "pdu" | "meta" => (6_000, 200_000),
            "pixels" => (4_000, 100_000),
            _ => (3_000, 40_000),
        };
        ctx.run_prop(
            name,
            &format!("entry point family `{name}` (see DESIGN.md C05 for the calls made) on: valid reference encodings, structure-aware mutations of them (length fields set to 0/1/odd/0xFFFF/0xFFFFFFFE/undefined, VR rewritten, element cut/duplicated/deleted, stray delimiters), byte-level mutations (set/truncate/delete/duplicate/insert), nesting depth up to 60 000 (thorough 200 000), random bytes and strings, images with contradicting attributes or corrupted fragments; oracle: the call returns Ok or Err within 30 s (90 s on retry); panic, abort (signal) or repeated time-out is a violation; non-trivial = the reader produced at least one element/token/PDU or the input passed the format's first header"),
            move || family(i as u8, thorough),
            ctx.cases(q, t),
            check,
        );
    }
    // the coverage-guided campaign run by ./check before this process (thorough tier only)
    if let Ok(path) = std::env::var("VERIF_FUZZ_REPORT") {
        match std::fs::read_to_string(&path).ok().and_then(|t| serde_json::from_str::<serde_json::Value>(&t).ok()) {
            Some(rep) => {
                let execs = rep["executions"].as_u64().unwrap_or(0);
                let mut items: Vec<(Option<Case>, u64)> = vec![(None, execs)];
                for p in rep["cases"].as_array().cloned().unwrap_or_default() {
                    if let Some(c) = p.as_str().and_then(|p| std::fs::read_to_string(p).ok()).and_then(|t| serde_json::from_str::<serde_json::Value>(&t).ok()).and_then(|j| serde_json::from_value::<Case>(j["ir"].clone()).ok()) {
                        items.push((Some(c), 0));
                    }
                }
                ctx.run_enum(
                    "libfuzzer_readers",
                    &format!("coverage-guided libFuzzer campaign (cargo-fuzz, nightly, ASan) over the same drivers: corpus seeded with 60 generated inputs per entry-point family, fork mode with {} jobs, {} executions, max_len 8192, allocation-limit and time-out exits ignored (machine dependent); every crash artifact is re-run through the worker pipeline of this check and judged like a generated case (same signatures, same known findings); evaluations = libFuzzer executions", rep["jobs"], execs),
                    items,
                    false,
                    |it: &(Option<Case>, u64), obs: &mut Obs| match &it.0 {
                        None => {
                            obs.extra_evals = it.1.saturating_sub(1);
                            obs.class("campaign-summary");
                        }
                        Some(c) => {
                            obs.class("crash-artifact");
                            check(c, obs);
                        }
                    },
                );
            }
            None => ctx.assume(&format!("libFuzzer campaign report {path} missing or unreadable: the thorough tier ran without it")),
        }
    } else if thorough {
        ctx.assume("no libFuzzer campaign in this run (VERIF_FUZZ_REPORT not set: nightly cargo-fuzz unavailable or its build failed)");
    }
}
