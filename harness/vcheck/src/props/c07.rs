//! C07 — odd-length values are handled per strategy, the reader stays aligned, position is truthful.
use crate::conv::{prim_le_bytes, prim_matches, vr_name};
use crate::engine::{Ctx, Obs};
use crate::gen::{self, dict};
use crate::props::c01::ts_of;
use crate::props::c02::canonical;
use dicom_core::header::{DataElementHeader, HasLength, Header, SequenceItemHeader};
use dicom_core::value::PrimitiveValue;
use dicom_parser::dataset::read::{DataSetReader, DataSetReaderOptions, OddLengthStrategy, ValueReadStrategy};
use dicom_parser::dataset::DataToken;
use dicom_parser::stateful::decode::{StatefulDecode, StatefulDecoder};
use proptest::prelude::*;
use refimpl::ds::{self, Elem, LenMode, Ts, ALL_VRS};
use serde::{Deserialize, Serialize};
use std::cell::Cell;
use std::io::Read;
use std::rc::Rc;

#[derive(Clone, Debug, Serialize, Deserialize)]
pub enum Piece {
    Reg(Elem),
    /// element with an irregular declared length; `content` has exactly `declared` bytes
    Irr { g: u16, e: u16, vr: String, declared: u32, content: Vec<u8> },
    Seq { g: u16, e: u16, explicit: bool, items: Vec<PItem> },
    /// encapsulated pixel data: offset table entries and fragments (odd fragment lengths allowed)
    Pix { bot: Vec<u32>, frags: Vec<Vec<u8>> },
}

#[derive(Clone, Debug, Serialize, Deserialize)]
pub struct PItem {
    pub explicit: bool,
    pub pieces: Vec<Piece>,
}

#[derive(Clone, Debug, Serialize, Deserialize)]
pub struct Case {
    pub pieces: Vec<Piece>,
    /// 0 implicit LE, 1 explicit LE, 2 explicit BE
    pub ts: u8,
    /// 0 accept, 1 next-even, 2 fail
    pub odd: u8,
    /// 0 interpreted, 1 preserved, 2 raw
    pub value_read: u8,
}

/// encode: declared lengths are logical; with `next_even` an odd Irr value physically occupies one more byte
fn encode(pieces: &[Piece], ts: Ts, next_even: bool, out: &mut Vec<u8>) -> u32 {
    // returns the *declared* (logical) size of what was appended
    let mut logical = 0u32;
    for p in pieces {
        match p {
            Piece::Reg(e) => {
                let before = out.len();
                ds::encode_elem(out, e, ts, LenMode::AllUndefined);
                logical += (out.len() - before) as u32;
            }
            Piece::Irr { g, e, vr, declared, content } => {
                let h = ds::header_layout(ts, vr, (*g, *e), *declared).expect("irregular length fits");
                logical += h.len() as u32 + declared;
                out.extend(h);
                out.extend_from_slice(content);
                if next_even && declared % 2 == 1 {
                    out.push(0x20);
                }
            }
            Piece::Pix { bot, frags } => {
                let h = ds::header_layout(ts, "OB", ds::PIXEL_DATA, ds::UNDEFINED).unwrap();
                logical += h.len() as u32;
                out.extend(h);
                out.extend(ds::item_header(ts, ds::ITEM, (bot.len() * 4) as u32));
                for o in bot {
                    out.extend_from_slice(&if ts.big() { o.to_be_bytes() } else { o.to_le_bytes() });
                }
                logical += 8 + bot.len() as u32 * 4;
                for f in frags {
                    out.extend(ds::item_header(ts, ds::ITEM, f.len() as u32));
                    out.extend_from_slice(f);
                    if next_even && f.len() % 2 == 1 {
                        out.push(0);
                    }
                    logical += 8 + f.len() as u32;
                }
                out.extend(ds::item_header(ts, ds::SEQ_DELIM, 0));
                logical += 8;
            }
            Piece::Seq { g, e, explicit, items } => {
                let mut body = vec![];
                let mut body_logical = 0u32;
                for it in items {
                    let mut inner = vec![];
                    let l = encode(&it.pieces, ts, next_even, &mut inner);
                    if it.explicit {
                        body.extend(ds::item_header(ts, ds::ITEM, l));
                        body.extend(inner);
                        body_logical += 8 + l;
                    } else {
                        body.extend(ds::item_header(ts, ds::ITEM, ds::UNDEFINED));
                        body.extend(inner);
                        body.extend(ds::item_header(ts, ds::ITEM_DELIM, 0));
                        body_logical += 16 + l;
                    }
                }
                if *explicit {
                    let h = ds::header_layout(ts, "SQ", (*g, *e), body_logical).unwrap();
                    logical += h.len() as u32 + body_logical;
                    out.extend(h);
                    out.extend(body);
                } else {
                    let h = ds::header_layout(ts, "SQ", (*g, *e), ds::UNDEFINED).unwrap();
                    logical += h.len() as u32 + body_logical + 8;
                    out.extend(h);
                    out.extend(body);
                    out.extend(ds::item_header(ts, ds::SEQ_DELIM, 0));
                }
            }
        }
    }
    logical
}

/// expected token skeleton
#[derive(Debug)]
enum Exp<'a> {
    Header { tag: (u16, u16), vr: String, len: u32 },
    RegValue(&'a Elem),
    IrrValue { vr: String, content: &'a [u8], len: u32 },
    SeqStart { tag: (u16, u16), len: u32 },
    ItemStart { len: u32 },
    ItemEnd,
    SeqEnd,
    PixStart,
    Bot(&'a [u32]),
    Frag { content: &'a [u8], len: u32 },
}

fn expect<'a>(pieces: &'a [Piece], ts: Ts, next_even: bool, out: &mut Vec<Exp<'a>>) -> u32 {
    let mut logical = 0u32;
    for p in pieces {
        match p {
            Piece::Reg(e) => {
                let bytes = ds::encode_value(&e.vr, &e.v, ts.big());
                let h = ds::header_layout(ts, &e.vr, e.tag(), bytes.len() as u32).unwrap();
                logical += (h.len() + bytes.len()) as u32;
                let vr = if ts.explicit() { e.vr.clone() } else { dict().implicit_vr(e.tag()).to_string() };
                out.push(Exp::Header { tag: e.tag(), vr, len: bytes.len() as u32 });
                out.push(Exp::RegValue(e));
            }
            Piece::Irr { g, e, vr, declared, content } => {
                let h = ds::header_layout(ts, vr, (*g, *e), *declared).unwrap();
                logical += h.len() as u32 + declared;
                let rvr = if ts.explicit() { vr.clone() } else { dict().implicit_vr((*g, *e)).to_string() };
                let len = if next_even && declared % 2 == 1 { declared + 1 } else { *declared };
                out.push(Exp::Header { tag: (*g, *e), vr: rvr.clone(), len });
                out.push(Exp::IrrValue { vr: rvr, content, len });
            }
            Piece::Pix { bot, frags } => {
                out.push(Exp::PixStart);
                out.push(Exp::ItemStart { len: bot.len() as u32 * 4 });
                if !bot.is_empty() {
                    out.push(Exp::Bot(bot));
                }
                out.push(Exp::ItemEnd);
                for f in frags {
                    let len = if next_even && f.len() % 2 == 1 { f.len() as u32 + 1 } else { f.len() as u32 };
                    out.push(Exp::ItemStart { len });
                    if len > 0 {
                        out.push(Exp::Frag { content: f, len });
                    }
                    out.push(Exp::ItemEnd);
                }
                out.push(Exp::SeqEnd);
                logical += if ts.explicit() { 12 } else { 8 } + 8 + bot.len() as u32 * 4 + frags.iter().map(|f| 8 + f.len() as u32).sum::<u32>() + 8;
            }
            Piece::Seq { g, e, explicit, items } => {
                let idx = out.len();
                out.push(Exp::SeqStart { tag: (*g, *e), len: 0 });
                let mut body_logical = 0u32;
                for it in items {
                    let iidx = out.len();
                    out.push(Exp::ItemStart { len: 0 });
                    let l = expect(&it.pieces, ts, next_even, out);
                    let adj = |x: u32| if next_even && x % 2 == 1 { x + 1 } else { x };
                    out[iidx] = Exp::ItemStart { len: if it.explicit { adj(l) } else { ds::UNDEFINED } };
                    out.push(Exp::ItemEnd);
                    body_logical += if it.explicit { 8 + l } else { 16 + l };
                }
                out.push(Exp::SeqEnd);
                let adj = |x: u32| if next_even && x % 2 == 1 { x + 1 } else { x };
                out[idx] = Exp::SeqStart { tag: (*g, *e), len: if *explicit { adj(body_logical) } else { ds::UNDEFINED } };
                let hl = if ts.explicit() { 12 } else { 8 };
                logical += hl + body_logical + if *explicit { 0 } else { 8 };
            }
        }
    }
    logical
}

struct CountSrc {
    data: Rc<Vec<u8>>,
    pos: usize,
    consumed: Rc<Cell<u64>>,
}
impl Read for CountSrc {
    fn read(&mut self, buf: &mut [u8]) -> std::io::Result<usize> {
        let n = buf.len().min(self.data.len() - self.pos);
        buf[..n].copy_from_slice(&self.data[self.pos..self.pos + n]);
        self.pos += n;
        self.consumed.set(self.consumed.get() + n as u64);
        Ok(n)
    }
}

/// delegating decoder: observes `position()` after every call the data set reader makes
struct Probe<D> {
    inner: D,
    pos: Rc<Cell<u64>>,
}
impl<D: StatefulDecode> Probe<D> {
    fn upd(&self) {
        self.pos.set(self.inner.position());
    }
}
impl<D: StatefulDecode> StatefulDecode for Probe<D> {
    type Reader = D::Reader;
    fn decode_header(&mut self) -> dicom_parser::stateful::decode::Result<DataElementHeader> {
        let r = self.inner.decode_header();
        self.upd();
        r
    }
    fn decode_item_header(&mut self) -> dicom_parser::stateful::decode::Result<SequenceItemHeader> {
        let r = self.inner.decode_item_header();
        self.upd();
        r
    }
    fn read_value(&mut self, h: &DataElementHeader) -> dicom_parser::stateful::decode::Result<PrimitiveValue> {
        let r = self.inner.read_value(h);
        self.upd();
        r
    }
    fn read_value_preserved(&mut self, h: &DataElementHeader) -> dicom_parser::stateful::decode::Result<PrimitiveValue> {
        let r = self.inner.read_value_preserved(h);
        self.upd();
        r
    }
    fn read_value_bytes(&mut self, h: &DataElementHeader) -> dicom_parser::stateful::decode::Result<PrimitiveValue> {
        let r = self.inner.read_value_bytes(h);
        self.upd();
        r
    }
    fn read_to_vec(&mut self, length: u32, vec: &mut Vec<u8>) -> dicom_parser::stateful::decode::Result<()> {
        let r = self.inner.read_to_vec(length, vec);
        self.upd();
        r
    }
    fn read_u32_to_vec(&mut self, length: u32, vec: &mut Vec<u32>) -> dicom_parser::stateful::decode::Result<()> {
        let r = self.inner.read_u32_to_vec(length, vec);
        self.upd();
        r
    }
    fn read_to<W>(&mut self, length: u32, out: W) -> dicom_parser::stateful::decode::Result<()>
    where
        Self: Sized,
        W: std::io::Write,
    {
        let r = self.inner.read_to(length, out);
        self.upd();
        r
    }
    fn skip_bytes(&mut self, length: u32) -> dicom_parser::stateful::decode::Result<()> {
        let r = self.inner.skip_bytes(length);
        self.upd();
        r
    }
    fn seek(&mut self, position: u64) -> dicom_parser::stateful::decode::Result<()>
    where
        Self::Reader: std::io::Seek,
    {
        let r = self.inner.seek(position);
        self.upd();
        r
    }
    fn position(&self) -> u64 {
        self.inner.position()
    }
}

fn has_irr_followed(pieces: &[Piece]) -> bool {
    // an irregular element followed by at least one more element (anywhere later in the stream)
    fn flat(p: &[Piece], out: &mut Vec<bool>) {
        for x in p {
            match x {
                Piece::Reg(_) => out.push(false),
                Piece::Irr { .. } => out.push(true),
                Piece::Pix { frags, .. } => out.push(frags.iter().any(|f| f.len() % 2 == 1)),
                Piece::Seq { items, .. } => {
                    out.push(false);
                    for it in items {
                        flat(&it.pieces, out)
                    }
                }
            }
        }
    }
    let mut v = vec![];
    flat(pieces, &mut v);
    v.iter().position(|x| *x).map(|i| i + 1 < v.len()).unwrap_or(false)
}

fn check(c: &Case, obs: &mut Obs) {
    let (ts, enc, tsname) = ts_of(c.ts);
    let odd = [OddLengthStrategy::Accept, OddLengthStrategy::NextEven, OddLengthStrategy::Fail][c.odd as usize];
    let oddn = ["accept", "next-even", "fail"][c.odd as usize];
    let vread = [ValueReadStrategy::Interpreted, ValueReadStrategy::Preserved, ValueReadStrategy::Raw][c.value_read as usize];
    let vrn = ["interpreted", "preserved", "raw"][c.value_read as usize];
    let next_even = c.odd == 1;
    obs.nontrivial = has_irr_followed(&c.pieces);
    obs.class(format!("ts:{tsname}"));
    obs.class(format!("odd:{oddn}"));
    obs.class(format!("read:{vrn}"));

    let mut bytes = vec![];
    encode(&c.pieces, enc, next_even, &mut bytes);
    let mut exp = vec![];
    expect(&c.pieces, enc, next_even, &mut exp);

    let bytes_copy = bytes.clone();
    let consumed = Rc::new(Cell::new(0u64));
    let pos = Rc::new(Cell::new(0u64));
    let total = bytes.len() as u64;
    let src = CountSrc { data: Rc::new(bytes), pos: 0, consumed: consumed.clone() };
    let dec = match StatefulDecoder::new_with_ts(src, &ts, 0) {
        Ok(d) => d,
        Err(e) => {
            obs.fail("C07:cannot create decoder", e.to_string());
            return;
        }
    };
    let probe = Probe { inner: dec, pos: pos.clone() };
    let mut opts = DataSetReaderOptions::default().value_read(vread);
    opts.odd_length = odd;
    let reader = DataSetReader::new(probe, opts);

    let ctx = format!("[{tsname}/{oddn}/{vrn}]");
    let mut i = 0usize;
    for tok in reader {
        let tok = match tok {
            Ok(t) => t,
            Err(e) => {
                // an error is expected exactly under Fail at the first odd defined length
                let expected_err = c.odd == 2
                    && match exp.get(i) {
                        Some(Exp::Header { len, .. }) | Some(Exp::SeqStart { len, .. }) | Some(Exp::ItemStart { len }) => {
                            *len != ds::UNDEFINED && len % 2 == 1
                        }
                        _ => false,
                    };
                if expected_err {
                    obs.class("fail-strategy-error-at-odd-length");
                    return;
                }
                // Interpreted: text that is not valid for its VR may legitimately be refused
                obs.fail(
                    format!("C07:reader error:{oddn}:{vrn}:{}", crate::props::c01::err_kind(&e)),
                    format!("{ctx} at token #{i} (expected {:.100?}): {e}: {:?}", exp.get(i), crate::props::c01::snafu_chain(&e)),
                );
                return;
            }
        };
        // position law after every token
        if pos.get() != consumed.get() {
            let at = exp.get(i).map(|e| format!("{e:?}")).unwrap_or_default();
            let vr = match exp.get(i) {
                Some(Exp::IrrValue { vr, .. }) => format!("irregular-value:{vr}"),
                Some(Exp::RegValue(e)) => format!("regular-value:{}", e.vr),
                Some(Exp::Header { .. }) => "header".to_string(),
                _ => "structure".to_string(),
            };
            obs.fail(
                format!("C07:position differs from bytes consumed:{vrn}:{vr}"),
                format!("{ctx} after token #{i} ({at:.120}): position()={} consumed={}", pos.get(), consumed.get()),
            );
            return;
        }
        let Some(want) = exp.get(i) else {
            obs.fail("C07:extra token after the end of the stream", format!("{ctx} {tok:?}"));
            return;
        };
        if c.odd == 2 {
            if let Exp::Header { len, .. } | Exp::SeqStart { len, .. } | Exp::ItemStart { len } = want {
                if *len != ds::UNDEFINED && len % 2 == 1 {
                    obs.fail("C07:fail strategy accepted an odd length", format!("{ctx} token #{i}: {tok:.100?}"));
                    return;
                }
            }
        }
        let ok = match (want, &tok) {
            (Exp::Header { tag, vr, len }, DataToken::ElementHeader(h)) => {
                (h.tag().0, h.tag().1) == *tag && h.length().0 == *len && vr_name(h.vr()) == vr
            }
            (Exp::SeqStart { tag, len }, DataToken::SequenceStart { tag: t, len: l }) => (t.0, t.1) == *tag && l.0 == *len,
            (Exp::ItemStart { len }, DataToken::ItemStart { len: l }) => l.0 == *len,
            (Exp::ItemEnd, DataToken::ItemEnd) => true,
            (Exp::SeqEnd, DataToken::SequenceEnd) => true,
            (Exp::PixStart, DataToken::PixelSequenceStart) => true,
            (Exp::Bot(b), DataToken::OffsetTable(t)) => t[..] == b[..],
            (Exp::Frag { content, len }, DataToken::ItemValue(v)) => v.len() == *len as usize && v[..content.len()] == content[..],
            (Exp::RegValue(e), DataToken::PrimitiveValue(v)) => match c.value_read {
                1 => {
                    let got_vr = if enc.explicit() { crate::conv::vr_of(&e.vr) } else { crate::conv::vr_of(dict().implicit_vr(e.tag())) };
                    match prim_matches(e, got_vr, v, enc) {
                        Ok(()) => true,
                        Err(m) => {
                            obs.fail(
                                format!("C07:element after/before an irregular one misread:{}", crate::conv::split_mm(&m).0),
                                format!("{ctx} token #{i}: {m}"),
                            );
                            return;
                        }
                    }
                }
                2 => {
                    let want_bytes = ds::encode_value(&e.vr, &e.v, enc.big());
                    matches!(v, PrimitiveValue::U8(b) if b[..] == want_bytes[..]) || (want_bytes.is_empty() && matches!(v, PrimitiveValue::Empty))
                }
                _ => true,
            },
            (Exp::IrrValue { content, len, .. }, DataToken::PrimitiveValue(v)) => match c.value_read {
                2 => {
                    // raw bytes: exactly the declared (or next-even) number of bytes
                    let got = prim_le_bytes(v);
                    let n = *len as usize;
                    let mut want = content.to_vec();
                    if n > want.len() {
                        want.push(0x20);
                    }
                    got == want
                }
                _ => true,
            },
            _ => false,
        };
        if !ok {
            let kind = match want {
                Exp::Header { .. } => "header",
                Exp::RegValue(_) => "regular-value",
                Exp::IrrValue { .. } => "irregular-value",
                Exp::Frag { .. } => "fragment",
                _ => "structure",
            };
            obs.fail(
                format!("C07:token differs from the stream:{kind}:{vrn}"),
                format!("{ctx} token #{i}: expected {want:.160?}, got {tok:.160?}"),
            );
            return;
        }
        i += 1;
    }
    if pos.get() != consumed.get() {
        obs.fail("C07:position differs from bytes consumed:at-end", format!("{ctx} position()={} consumed={}", pos.get(), consumed.get()));
    }
    if i != exp.len() {
        // under Fail the reader must have reported an error, not simply stopped
        obs.fail(
            format!("C07:reader stopped early:{oddn}"),
            format!("{ctx} {i} of {} tokens, consumed {} of {total} bytes; next expected {:.120?}", exp.len(), consumed.get(), exp.get(i)),
        );
    } else if consumed.get() != total {
        obs.fail("C07:bytes left unread at the end", format!("{ctx} consumed {} of {total}", consumed.get()));
    }
    if obs.failed() {
        return;
    }
    // The lazy reader under the same odd-length strategy: its tokens (values fetched raw) must be
    // those of the eager reader, which has just been checked against the stream.
    let eager: Vec<Result<DataToken, String>> = {
        let mut o = DataSetReaderOptions::default().value_read(ValueReadStrategy::Raw);
        o.odd_length = odd;
        match DataSetReader::new_with_ts_options(&bytes_copy[..], &ts, o) {
            Ok(r) => r.map(|t| t.map_err(|e| e.to_string())).collect(),
            Err(e) => vec![Err(e.to_string())],
        }
    };
    let lazy: Vec<Result<DataToken, String>> = {
        let mut o = dicom_parser::dataset::lazy_read::LazyDataSetReaderOptions::default();
        o.odd_length = odd;
        match dicom_parser::dataset::lazy_read::LazyDataSetReader::new_with_ts_options(std::io::Cursor::new(&bytes_copy[..]), &ts, o) {
            Ok(mut r) => {
                let mut v = vec![];
                while let Some(t) = r.advance() {
                    match t {
                        Ok(t) => match t.into_owned_with_strategy(ValueReadStrategy::Raw) {
                            Ok(t) => v.push(Ok(t)),
                            Err(e) => {
                                v.push(Err(e.to_string()));
                                break;
                            }
                        },
                        Err(e) => {
                            v.push(Err(e.to_string()));
                            break;
                        }
                    }
                }
                v
            }
            Err(e) => vec![Err(e.to_string())],
        }
    };
    let n = eager.len().min(lazy.len());
    for k in 0..n {
        let same = match (&eager[k], &lazy[k]) {
            (Ok(a), Ok(b)) => crate::props::c06::tok_eq_pub(a, b),
            (Err(_), Err(_)) => true,
            _ => false,
        };
        if !same {
            obs.fail(
                format!("C07:lazy reader differs from the eager reader under the same odd-length strategy:{oddn}"),
                format!("{ctx} token #{k}: eager {:.120?}, lazy {:.120?}", eager[k], lazy[k]),
            );
            return;
        }
        if eager[k].is_err() {
            return;
        }
    }
    if eager.len() != lazy.len() {
        obs.fail(format!("C07:lazy reader yields a different number of tokens:{oddn}"), format!("{ctx} eager {} lazy {}", eager.len(), lazy.len()));
    }
}

fn sample_size(vr: &str) -> u32 {
    match vr {
        "US" | "SS" | "OW" => 2,
        "UL" | "SL" | "FL" | "OL" | "OF" | "AT" => 4,
        "FD" | "OD" | "UV" | "SV" | "OV" => 8,
        _ => 1,
    }
}

/// odd-length (or non-multiple) content that is still valid for the VR
fn irregular() -> BoxedStrategy<Piece> {
    let vrs: Vec<&'static str> = ALL_VRS.iter().copied().filter(|v| *v != "SQ").collect();
    (0..vrs.len())
        .prop_flat_map(move |i| {
            let vr = vrs[i];
            let content: BoxedStrategy<Vec<u8>> = match vr {
                // a single date plus one trailing space: 9 bytes (a multi-valued DA is refused by the
                // Interpreted reader's character validation, which is not this property's business)
                "DA" => gen::date_text().prop_map(|a| format!("{a} ").into_bytes()).boxed(),
                "TM" => (0u32..24, 0u32..60, 0u32..60, 0u32..1000).prop_map(|(h, m, s, f)| format!("{h:02}{m:02}{s:02}.{:02}", f % 100).into_bytes()).boxed(),
                "DT" => (gen::date_text(), 0u32..24, 0u32..60, 0u32..60, 0u32..100).prop_map(|(d, h, m, s, f)| format!("{d}{h:02}{m:02}{s:02}.{f:02}").into_bytes()).boxed(),
                "AS" => (0u32..1000, 0u32..1000).prop_map(|(a, b)| format!("{a:03}Y\\{b:03}M").into_bytes()).boxed(),
                "IS" => "[1-9][0-9]{0,2}([0-9]{2}){0,2}".prop_map(|s| s.into_bytes()).boxed(),
                "DS" => "[1-9]\\.[0-9]([0-9]{2}){0,2}".prop_map(|s| s.into_bytes()).boxed(),
                "UI" => "[1-9](\\.[1-9]){0,5}".prop_map(|s| s.into_bytes()).boxed(),
                "CS" | "AE" | "SH" | "LO" | "PN" | "UC" | "LT" | "ST" | "UT" | "UR" => "[A-Z]([A-Z0-9]{2}){0,4}".prop_map(|s| s.into_bytes()).boxed(),
                _ => {
                    let sz = sample_size(vr);
                    // odd lengths, or (for multi-byte samples) any length that is not a multiple of the size
                    (1u32..40)
                        .prop_filter_map("multiple of the sample size", move |n| if n % sz != 0 || n % 2 == 1 { Some(n) } else { None })
                        .prop_flat_map(|n| proptest::collection::vec(any::<u8>(), n as usize))
                        .boxed()
                }
            };
            // blank values (spaces only, odd or even length) for the VRs the Interpreted strategy parses
            let content = if matches!(vr, "DA" | "TM" | "DT" | "IS" | "DS") {
                prop_oneof![4 => content, 1 => (1usize..7).prop_map(|n| vec![b' '; n])].boxed()
            } else {
                content
            };
            (Just(vr), content, gen::elem(0))
        })
        .prop_map(|(vr, content, anyelem)| {
            // borrow a tag of the right kind: standard tag with that dictionary VR when possible
            let pool = gen::std_pool().get(vr);
            let (g, e) = match pool {
                Some(p) if !p.is_empty() => {
                    let k = (anyelem.g as usize * 31 + anyelem.e as usize) % p.len();
                    (p[k].0, p[k].1)
                }
                _ => (0x0009, 0x1000 | ((ALL_VRS.iter().position(|v| *v == vr).unwrap() as u16) << 2)),
            };
            Piece::Irr { g, e, vr: vr.to_string(), declared: content.len() as u32, content }
        })
        .boxed()
}

fn reg(n: std::ops::Range<usize>) -> BoxedStrategy<Vec<Piece>> {
    gen::elems(0, n).prop_map(|v| canonical(&v).into_iter().map(Piece::Reg).collect()).boxed()
}

fn group(depth: usize) -> BoxedStrategy<Vec<Piece>> {
    // prefix, 1-3 irregular elements (possibly inside items), sentinels
    let irr = proptest::collection::vec(irregular(), 1..4);
    if depth == 0 {
        (reg(0..3), irr, reg(0..3))
            .prop_map(|(mut a, b, c)| {
                a.extend(b);
                a.extend(c);
                a
            })
            .boxed()
    } else {
        (reg(0..3), irr, reg(0..3), proptest::collection::vec((group(depth - 1), any::<bool>()), 1..3), any::<bool>(), 0usize..3)
            .prop_map(|(mut a, b, c, items, explicit, place)| {
                let seq = Piece::Seq {
                    g: 0x0008,
                    e: 0x1140,
                    explicit,
                    items: items.into_iter().map(|(pieces, explicit)| PItem { explicit, pieces }).collect(),
                };
                match place {
                    0 => {
                        a.push(seq);
                        a.extend(b);
                    }
                    1 => {
                        a.extend(b);
                        a.push(seq);
                    }
                    _ => a.push(seq),
                }
                a.extend(c);
                a
            })
            .boxed()
    }
}

/// number of odd-length elements inside (each occupies one more physical byte under NextEven)
fn odd_inside(pieces: &[Piece]) -> usize {
    pieces
        .iter()
        .map(|p| match p {
            Piece::Reg(_) => 0,
            Piece::Irr { declared, .. } => (declared % 2) as usize,
            Piece::Pix { .. } => 0, // never nested
            Piece::Seq { items, .. } => items.iter().map(|i| odd_inside(&i.pieces)).sum(),
        })
        .sum()
}

/// Under NextEven a defined container length stays consistent only when at most one odd element lies
/// inside (declared length odd => the reader adds exactly one byte): undefine the others.
fn undefine(pieces: &mut [Piece]) {
    for p in pieces {
        if let Piece::Seq { explicit, items, .. } = p {
            let total: usize = items.iter().map(|i| odd_inside(&i.pieces)).sum();
            if total > 1 {
                *explicit = false;
            }
            for it in items.iter_mut() {
                if odd_inside(&it.pieces) > 1 {
                    it.explicit = false;
                }
                undefine(&mut it.pieces);
            }
        }
    }
}

pub fn run(ctx: &Ctx) {
    ctx.assume("under NextEven only undefined-length containers are generated around irregular elements: an enclosing defined length cannot be made consistent with two physically padded children");
    ctx.run_prop(
        "odd_lengths",
        "streams written by the reference encoder: regular elements, then 1-3 irregular elements of any VR (odd declared length, or a length that is not a multiple of the sample size; content valid for the VR) at top level and inside items (defined and undefined lengths), then sentinel elements; x {Accept, NextEven, Fail} x 3 syntaxes x {Interpreted, Preserved, Raw}; oracle: after every token position()==bytes consumed from a counting source, tokens equal the stream's skeleton (tags, VRs, lengths; values of regular elements; raw bytes of irregular ones), Fail errs at the first odd length; non-trivial = an irregular element followed by another element",
        || {
            let pix = (
                prop_oneof![2 => Just(vec![]), 1 => proptest::collection::vec(any::<u32>(), 1..3)],
                proptest::collection::vec((0usize..24).prop_flat_map(|n| proptest::collection::vec(any::<u8>(), n)), 1..4),
            );
            (
                prop_oneof![3 => group(0), 2 => group(1), 1 => group(2)],
                proptest::option::weighted(0.25, pix),
                reg(0..3),
                0u8..3,
                0u8..3,
                0u8..3,
            )
                .prop_map(|(mut pieces, pix, tail, ts, odd, value_read)| {
                    if let Some((bot, frags)) = pix {
                        if ts != 2 {
                            // encapsulated pixel data: little-endian syntaxes only
                            pieces.push(Piece::Pix { bot, frags });
                            pieces.extend(tail);
                        }
                    }
                    if odd == 1 {
                        undefine(&mut pieces);
                    }
                    Case { pieces, ts, odd, value_read }
                })
                .boxed()
        },
        ctx.cases(40_000, 1_000_000),
        check,
    );
}
