//! C13 — attribute operations follow their documented semantics (stateful, against a reference model).
//!
//! The model is a map-of-sequences written from the `AttributeAction` / `ApplyOp` documentation.
//! Leaf value arithmetic (extend / truncate of a primitive value) is delegated to
//! `PrimitiveValue`'s own methods, whose semantics are decided separately by C11; what this
//! model decides independently is the *structure*: path resolution, creation of missing
//! sequences and items, VR inference, which operations fail, and that a failed operation
//! changes nothing.
use crate::conv::{prim_le_bytes, prim_of, variant_name, vr_name};
use crate::engine::{Ctx, Obs};
use crate::gen::dict;
use crate::opsir::{ActIr, OpIr};
use crate::props::c01::ts_of;
use dicom_core::header::Header;
use dicom_core::ops::ApplyOp;
use dicom_core::value::{PrimitiveValue, Value};
use dicom_object::mem::InMemElement;
use dicom_object::InMemDicomObject;
use proptest::prelude::*;
use refimpl::dict::Lookup;
use refimpl::ds::{Elem, Item, Val};
use serde::{Deserialize, Serialize};

// ------------------------------------------------------------------------------------------
// model

#[derive(Clone, Debug)]
enum MVal {
    Prim(PrimitiveValue),
    Seq(Vec<Vec<MElem>>),
    Pix(Vec<u32>, Vec<Vec<u8>>),
}

#[derive(Clone, Debug)]
struct MElem {
    tag: (u16, u16),
    vr: String,
    v: MVal,
}

fn m_of_ir(elems: &[Elem]) -> Vec<MElem> {
    elems
        .iter()
        .map(|e| MElem {
            tag: e.tag(),
            vr: e.vr.clone(),
            v: match &e.v {
                Val::Seq { items, .. } => MVal::Seq(items.iter().map(|i| m_of_ir(&i.elems)).collect()),
                Val::Pix { bot, frags } => MVal::Pix(bot.clone(), frags.clone()),
                v => MVal::Prim(prim_of(v)),
            },
        })
        .collect()
}

/// the exact dictionary VR of a tag (None for unknown tags and for the context-dependent ones)
fn exact_vr(tag: (u16, u16)) -> Option<String> {
    match dict().lookup(tag) {
        Lookup::Entry(i) => {
            let v = &dict().entries[i].vr;
            if ["Xs", "Ox", "Px", "Lt"].contains(&v.as_str()) {
                None
            } else {
                Some(v.clone())
            }
        }
        Lookup::PrivateCreator => Some("LO".into()),
        Lookup::GroupLength => Some("UL".into()),
        Lookup::None => None,
    }
}

fn find(ds: &mut Vec<MElem>, tag: (u16, u16)) -> Option<usize> {
    ds.iter().position(|e| e.tag == tag)
}

fn put(ds: &mut Vec<MElem>, e: MElem) {
    match find(ds, e.tag) {
        Some(i) => ds[i] = e,
        None => {
            ds.push(e);
            ds.sort_by_key(|x| x.tag);
        }
    }
}

/// Apply an operation to the model.  `Err` = the operation must fail and the model is unchanged
/// (the caller restores the saved copy).
fn m_apply(ds: &mut Vec<MElem>, path: &[((u16, u16), u32)], leaf: (u16, u16), act: &ActIr) -> Result<(), &'static str> {
    if let Some((&(tag, item), rest)) = path.split_first() {
        let constructive = act.is_constructive();
        if find(ds, tag).is_none() {
            if !constructive {
                return Err("missing sequence on the path of a non-constructive action");
            }
            let vr = exact_vr(tag).unwrap_or_else(|| "UN".into());
            if vr != "SQ" && vr != "UN" {
                return Err("path step is not a sequence attribute");
            }
            put(ds, MElem { tag, vr, v: MVal::Seq(vec![]) });
        }
        let i = find(ds, tag).unwrap();
        let items = match &mut ds[i].v {
            MVal::Seq(items) => items,
            _ => return Err("path step is not a sequence"),
        };
        if item as usize == items.len() && constructive {
            items.push(vec![]);
        }
        match items.get_mut(item as usize) {
            Some(it) => m_apply(it, rest, leaf, act),
            None => Err("missing item on the path"),
        }
    } else {
        m_leaf(ds, leaf, act)
    }
}

fn created_vr(tag: (u16, u16), default: &str) -> String {
    exact_vr(tag).unwrap_or_else(|| default.to_string())
}

fn set_value(ds: &mut Vec<MElem>, tag: (u16, u16), v: PrimitiveValue) {
    let vr = match find(ds, tag) {
        Some(i) => ds[i].vr.clone(),
        None => created_vr(tag, "UN"),
    };
    let val = if vr == "SQ" && v.calculate_byte_len() == 0 { MVal::Seq(vec![]) } else { MVal::Prim(v) };
    put(ds, MElem { tag, vr, v: val });
}

fn m_leaf(ds: &mut Vec<MElem>, tag: (u16, u16), act: &ActIr) -> Result<(), &'static str> {
    let existing = find(ds, tag);
    match act {
        ActIr::Remove => {
            if let Some(i) = existing {
                ds.remove(i);
            }
            Ok(())
        }
        ActIr::Empty => {
            if let Some(i) = existing {
                ds[i].v = if ds[i].vr == "SQ" { MVal::Seq(vec![]) } else { MVal::Prim(PrimitiveValue::Empty) };
            }
            Ok(())
        }
        ActIr::SetVr(vr) => {
            // "If the attribute exists, set ... the attribute's value representation."
            if let Some(i) = existing {
                ds[i].vr = vr.clone();
            }
            Ok(())
        }
        ActIr::Set(v) => {
            set_value(ds, tag, prim_of(v));
            Ok(())
        }
        ActIr::SetStr(s) => {
            set_value(ds, tag, PrimitiveValue::from(s.as_str()));
            Ok(())
        }
        ActIr::SetIfMissing(v) => {
            if existing.is_none() {
                set_value(ds, tag, prim_of(v));
            }
            Ok(())
        }
        ActIr::SetStrIfMissing(s) => {
            if existing.is_none() {
                set_value(ds, tag, PrimitiveValue::from(s.as_str()));
            }
            Ok(())
        }
        ActIr::Replace(v) => {
            if existing.is_some() {
                set_value(ds, tag, prim_of(v));
            }
            Ok(())
        }
        ActIr::ReplaceStr(s) => {
            if existing.is_some() {
                set_value(ds, tag, PrimitiveValue::from(s.as_str()));
            }
            Ok(())
        }
        ActIr::PushStr(_) | ActIr::PushI32(_) | ActIr::PushU32(_) | ActIr::PushI16(_) | ActIr::PushU16(_) | ActIr::PushF32(_) | ActIr::PushF64(_) => {
            let (newv, default_vr): (PrimitiveValue, &str) = match act {
                ActIr::PushStr(s) => (PrimitiveValue::from(s.as_str()), "UN"),
                ActIr::PushI32(n) => (PrimitiveValue::from(*n), "SL"),
                ActIr::PushU32(n) => (PrimitiveValue::from(*n), "UL"),
                ActIr::PushI16(n) => (PrimitiveValue::from(*n), "SS"),
                ActIr::PushU16(n) => (PrimitiveValue::from(*n), "US"),
                ActIr::PushF32(b) => (PrimitiveValue::from(f32::from_bits(*b)), "FL"),
                ActIr::PushF64(b) => (PrimitiveValue::from(f64::from_bits(*b)), "FD"),
                _ => unreachable!(),
            };
            match existing {
                None => {
                    put(ds, MElem { tag, vr: created_vr(tag, default_vr), v: MVal::Prim(newv) });
                    Ok(())
                }
                Some(i) => match &mut ds[i].v {
                    MVal::Prim(p) => {
                        let mut q = p.clone();
                        let r = match act {
                            ActIr::PushStr(s) => q.extend_str([s.clone()]).is_ok(),
                            ActIr::PushI32(n) => q.extend_i32([*n]).is_ok(),
                            ActIr::PushU32(n) => q.extend_u32([*n]).is_ok(),
                            ActIr::PushI16(n) => q.extend_i16([*n]).is_ok(),
                            ActIr::PushU16(n) => q.extend_u16([*n]).is_ok(),
                            ActIr::PushF32(b) => q.extend_f32([f32::from_bits(*b)]).is_ok(),
                            ActIr::PushF64(b) => q.extend_f64([f64::from_bits(*b)]).is_ok(),
                            _ => unreachable!(),
                        };
                        if r {
                            *p = q;
                            Ok(())
                        } else {
                            Err("value cannot be extended with this kind of item")
                        }
                    }
                    _ => Err("push on a sequence value"),
                },
            }
        }
        ActIr::Truncate(n) => {
            if let Some(i) = existing {
                match &mut ds[i].v {
                    MVal::Prim(p) => p.truncate(*n),
                    MVal::Seq(items) => {
                        items.truncate(*n);
                        // updating a sequence value in place normalises its VR (DataElement::update_value)
                        ds[i].vr = "SQ".into();
                    }
                    MVal::Pix(_, frags) => {
                        frags.truncate(*n);
                        ds[i].vr = "OB".into();
                    }
                }
            }
            Ok(())
        }
    }
}

// ------------------------------------------------------------------------------------------
// object vs model

fn same_prim(a: &PrimitiveValue, b: &PrimitiveValue) -> bool {
    let empty = |p: &PrimitiveValue| p.multiplicity() == 0;
    if empty(a) && empty(b) {
        return true;
    }
    let class = |p: &PrimitiveValue| match p {
        PrimitiveValue::Str(_) | PrimitiveValue::Strs(_) => "text",
        o => variant_name(o),
    };
    class(a) == class(b) && prim_le_bytes(a) == prim_le_bytes(b)
}

/// first difference between object and model: (kind, detail)
fn diff(obj: &InMemDicomObject, model: &[MElem], path: &str) -> Option<(&'static str, String)> {
    let got: Vec<&InMemElement> = obj.iter().collect();
    let gt: Vec<(u16, u16)> = got.iter().map(|e| (e.tag().0, e.tag().1)).collect();
    let mt: Vec<(u16, u16)> = model.iter().map(|e| e.tag).collect();
    if gt != mt {
        let missing: Vec<_> = mt.iter().filter(|t| !gt.contains(t)).collect();
        let extra: Vec<_> = gt.iter().filter(|t| !mt.contains(t)).collect();
        let kind = if !missing.is_empty() && extra.is_empty() {
            "attribute-missing"
        } else if missing.is_empty() && !extra.is_empty() {
            "attribute-extra"
        } else {
            "attribute-list"
        };
        return Some((kind, format!("{path}: object {gt:04X?} model {mt:04X?}")));
    }
    for (g, m) in got.iter().zip(model) {
        let here = format!("{path}/({:04X},{:04X})", m.tag.0, m.tag.1);
        let gvr = vr_name(g.vr());
        let vr_ok = match g.value() {
            // the library normalises the VR of a (pixel) sequence value when it is updated in place: SQ resp. OB
            Value::Sequence(_) => gvr == m.vr || gvr == "SQ",
            Value::PixelSequence(_) => gvr == m.vr || gvr == "OB",
            Value::Primitive(_) => gvr == m.vr,
        };
        if !vr_ok {
            return Some(("vr", format!("{here}: object VR {gvr} model {}", m.vr)));
        }
        match (g.value(), &m.v) {
            (Value::Primitive(a), MVal::Prim(b)) => {
                if !same_prim(a, b) {
                    return Some(("value", format!("{here}: object {a:.80?} model {b:.80?}")));
                }
            }
            (Value::Sequence(s), MVal::Seq(items)) => {
                if s.items().len() != items.len() {
                    return Some(("item-count", format!("{here}: object {} items, model {}", s.items().len(), items.len())));
                }
                for (i, (o, it)) in s.items().iter().zip(items).enumerate() {
                    if let Some(d) = diff(o, it, &format!("{here}[{i}]")) {
                        return Some(d);
                    }
                }
            }
            (Value::PixelSequence(p), MVal::Pix(bot, frags)) => {
                if p.offset_table() != &bot[..] || p.fragments().len() != frags.len() || p.fragments().iter().zip(frags).any(|(a, b)| a != b) {
                    return Some(("pixel-sequence", here));
                }
            }
            (Value::Sequence(s), MVal::Prim(b)) if s.items().is_empty() && b.multiplicity() == 0 => {}
            (Value::Primitive(a), MVal::Seq(items)) if items.is_empty() && a.multiplicity() == 0 => {}
            _ => return Some(("value-kind", format!("{here}: object {:?} vs model", g.value().primitive().map(variant_name)))),
        }
    }
    None
}

// ------------------------------------------------------------------------------------------
// final write / read-back

fn val_of_prim(p: &PrimitiveValue) -> Val {
    match p {
        PrimitiveValue::Empty => Val::Empty,
        PrimitiveValue::Str(s) => Val::Str(s.clone()),
        PrimitiveValue::Strs(s) => Val::Strs(s.to_vec()),
        PrimitiveValue::Tags(t) => Val::Tags(t.iter().map(|t| (t.0, t.1)).collect()),
        PrimitiveValue::U8(x) => Val::U8(x.to_vec()),
        PrimitiveValue::I16(x) => Val::I16(x.to_vec()),
        PrimitiveValue::U16(x) => Val::U16(x.to_vec()),
        PrimitiveValue::I32(x) => Val::I32(x.to_vec()),
        PrimitiveValue::U32(x) => Val::U32(x.to_vec()),
        PrimitiveValue::I64(x) => Val::I64(x.to_vec()),
        PrimitiveValue::U64(x) => Val::U64(x.to_vec()),
        PrimitiveValue::F32(x) => Val::F32(x.iter().map(|f| f.to_bits()).collect()),
        PrimitiveValue::F64(x) => Val::F64(x.iter().map(|f| f.to_bits()).collect()),
        PrimitiveValue::Date(d) => Val::Dates(d.iter().map(|x| x.to_encoded()).collect()),
        PrimitiveValue::Time(d) => Val::Times(d.iter().map(|x| x.to_encoded()).collect()),
        PrimitiveValue::DateTime(d) => Val::DateTimes(d.iter().map(|x| x.to_encoded()).collect()),
    }
}

/// can a value of this variant be carried by this VR so that it reads back equal?
fn compatible(vr: &str, p: &PrimitiveValue) -> bool {
    if p.multiplicity() == 0 {
        return vr != "SQ";
    }
    let text_ok = |p: &PrimitiveValue| match p {
        PrimitiveValue::Str(s) => s.is_ascii() && !s.contains('\\') && s.trim_end() == s && !s.chars().any(|c| c.is_control()),
        PrimitiveValue::Strs(v) => v.iter().all(|s| s.is_ascii() && !s.contains('\\') && s.trim_end() == s.as_str() && !s.chars().any(|c| c.is_control())),
        _ => false,
    };
    match vr {
        "IS" => text_ok(p) || matches!(p, PrimitiveValue::I32(_) | PrimitiveValue::U16(_) | PrimitiveValue::I16(_)),
        "DS" => text_ok(p),
        "US" => matches!(p, PrimitiveValue::U16(_)),
        "SS" => matches!(p, PrimitiveValue::I16(_)),
        "UL" => matches!(p, PrimitiveValue::U32(_)),
        "SL" => matches!(p, PrimitiveValue::I32(_)),
        "FL" => matches!(p, PrimitiveValue::F32(_)),
        "FD" => matches!(p, PrimitiveValue::F64(_)),
        "OB" => matches!(p, PrimitiveValue::U8(_)),
        "UN" => matches!(p, PrimitiveValue::U8(_)),
        "OW" => matches!(p, PrimitiveValue::U16(_)),
        "AT" => matches!(p, PrimitiveValue::Tags(_)),
        "SQ" => false,
        "LT" | "ST" | "UT" | "UR" => matches!(p, PrimitiveValue::Str(s) if s.is_ascii() && s.trim_end() == s && !s.chars().any(|c| c.is_control())),
        "DA" | "TM" | "DT" | "AS" | "UI" => false, // value grammar not modelled here: treated as incompatible
        _ => text_ok(p),
    }
}

/// model -> IR; None when some value cannot be expected to read back equal
fn ir_of_model(m: &[MElem]) -> Option<Vec<Elem>> {
    let mut out = vec![];
    for e in m {
        let v = match &e.v {
            MVal::Prim(p) => {
                if !compatible(&e.vr, p) {
                    return None;
                }
                val_of_prim(p)
            }
            MVal::Seq(items) => {
                if e.vr != "SQ" && e.vr != "UN" {
                    return None;
                }
                let mut its = vec![];
                for it in items {
                    its.push(Item { elems: ir_of_model(it)?, explicit: false });
                }
                Val::Seq { items: its, explicit: false }
            }
            MVal::Pix(b, f) => {
                if e.vr != "OB" || e.tag != (0x7FE0, 0x0010) || f.iter().any(|x| x.len() % 2 == 1) {
                    return None;
                }
                Val::Pix { bot: b.clone(), frags: f.clone() }
            }
        };
        // a sequence carried under VR UN reads back as SQ in explicit syntaxes only if written so; keep it simple
        let vr = if matches!(v, Val::Seq { .. }) { "SQ".to_string() } else { e.vr.clone() };
        if matches!(v, Val::Seq { .. }) && e.vr == "UN" {
            return None;
        }
        out.push(Elem { g: e.tag.0, e: e.tag.1, vr, v });
    }
    Some(out)
}

/// in Implicit VR the reader assumes the dictionary VR: every known attribute must carry it
fn implicit_ok(m: &[MElem]) -> bool {
    m.iter().all(|e| {
        let dv = dict().implicit_vr(e.tag);
        let ok = dv == "UN" || dv == e.vr || (dv == "OW" && e.vr == "OB" && e.tag == (0x7FE0, 0x0010));
        ok && match &e.v {
            MVal::Seq(items) => items.iter().all(|it| implicit_ok(it)),
            _ => true,
        }
    })
}

#[derive(Clone, Debug, Serialize, Deserialize)]
pub struct Case {
    pub start: Vec<Elem>,
    pub ops: Vec<OpIr>,
}

fn check(c: &Case, obs: &mut Obs) {
    let mut obj = crate::conv::to_obj(&c.start, None);
    let mut model = m_of_ir(&c.start);
    let mut nested_constructive: Vec<Vec<((u16, u16), u32)>> = vec![];
    for (i, op) in c.ops.iter().enumerate() {
        obs.extra_evals += 1;
        if !op.path.is_empty() && op.act.is_constructive() {
            nested_constructive.push(op.path.clone());
        } else if nested_constructive.iter().any(|p| op.path.starts_with(p) || p.starts_with(&op.path) && !op.path.is_empty()) {
            obs.nontrivial = true;
        }
        let saved = model.clone();
        let want = m_apply(&mut model, &op.path, op.leaf, &op.act);
        if want.is_err() {
            model = saved;
        }
        let got = obj.apply(op.to_op());
        obs.class(format!("{}:{}", op.act.name(), if got.is_ok() { "ok" } else { "err" }));
        let ctx = |d: &str| format!("step {i} {op:?}: {d}");
        match (&want, &got) {
            (Ok(()), Err(e)) => {
                obs.fail(format!("C13:operation fails although the documented semantics allow it:{}", op.act.name()), ctx(&e.to_string()));
                return;
            }
            (Err(why), Ok(())) => {
                obs.fail(format!("C13:operation succeeds although it must fail:{}:{why}", op.act.name()), ctx(""));
                return;
            }
            _ => {}
        }
        if let Some((kind, d)) = diff(&obj, &model, "") {
            if want.is_err() {
                let sig = match (kind, op.act.name().starts_with("Push")) {
                    ("attribute-missing", true) => "C13:failed Push removed the element".to_string(),
                    ("attribute-extra", _) | ("item-count", _) => "C13:failed operation left created sequences or items behind".to_string(),
                    (k, _) => format!("C13:failed operation changed the object:{k}"),
                };
                obs.fail(sig, ctx(&d));
            } else {
                let special = match (&op.act, kind) {
                    (ActIr::SetVr(_), "attribute-extra") => ":SetVr-created-a-missing-attribute".to_string(),
                    _ => String::new(),
                };
                obs.fail(format!("C13:object differs from the model after {}:{kind}{special}", op.act.name()), ctx(&d));
            }
            return;
        }
    }
    // every object reachable this way can be written in every writable transfer syntax
    let ir = ir_of_model(&model);
    if ir.is_some() {
        obs.class("final:read-back-compared");
    } else {
        obs.class("final:write-only");
    }
    for tsi in 0u8..4 {
        let (ts, enc, tsname) = ts_of(tsi);
        let mut out = vec![];
        let r = crate::engine::catch("write", || obj.write_dataset_with_ts(&mut out, &ts));
        match r {
            Err((sig, detail)) => {
                obs.fail(format!("C13:writing a reachable object panics:{sig}"), format!("[{tsname}] {detail}"));
                return;
            }
            Ok(Err(e)) => {
                if ir.is_some() {
                    obs.fail(format!("C13:writing a reachable object fails:{}", crate::props::c01::err_kind(&e)), format!("[{tsname}] {e}"));
                }
                continue;
            }
            Ok(Ok(())) => {}
        }
        if let Some(ir) = &ir {
            let mut ir = ir.clone();
            if tsi == 0 && !implicit_ok(&model) {
                // Implicit VR: an attribute whose VR was changed away from the dictionary's cannot read back
                obs.class("final:implicit-skipped-vr-differs-from-dictionary");
                continue;
            }
            if tsi == 2 {
                ir.retain(|e| !e.v.is_pix());
                if model.iter().any(|e| matches!(e.v, MVal::Pix(..))) {
                    continue;
                }
            }
            match InMemDicomObject::read_dataset_with_ts(&out[..], &ts) {
                Ok(back) => {
                    if let Err(m) = crate::conv::obj_matches(&back, &ir, enc, refimpl::ds::LenMode::AllUndefined, "") {
                        let (k, d) = crate::conv::split_mm(&m);
                        obs.fail(format!("C13:reachable object does not read back equal:{k}"), format!("[{tsname}] {d}"));
                        return;
                    }
                }
                Err(e) => {
                    obs.fail("C13:written reachable object cannot be read back", format!("[{tsname}] {e}: {:?}", crate::props::c01::snafu_chain(&e)));
                    return;
                }
            }
        }
    }
}

// ------------------------------------------------------------------------------------------
// generator: a deliberately small universe so that operations collide

const PN: (u16, u16) = (0x0010, 0x0010);
const PID: (u16, u16) = (0x0010, 0x0020);
const ROWS: (u16, u16) = (0x0028, 0x0010);
const IMAGE_TYPE: (u16, u16) = (0x0008, 0x0008);
const INSTANCE_NUMBER: (u16, u16) = (0x0020, 0x0013);
const SEQ1: (u16, u16) = (0x0008, 0x1140); // ReferencedImageSequence
const SEQ2: (u16, u16) = (0x0010, 0x1002); // OtherPatientIDsSequence
const PRIV_CREATOR: (u16, u16) = (0x0009, 0x0010);
const PRIV: (u16, u16) = (0x0009, 0x1001);
const UNKNOWN: (u16, u16) = (0x0006, 0x1001);
const PIXEL: (u16, u16) = (0x7FE0, 0x0010);
const THICKNESS: (u16, u16) = (0x0018, 0x0050); // DS
const FD_TAG: (u16, u16) = (0x0018, 0x9089); // FD

fn leaf_tag() -> BoxedStrategy<(u16, u16)> {
    proptest::sample::select(vec![PN, PID, ROWS, IMAGE_TYPE, INSTANCE_NUMBER, SEQ1, SEQ2, PRIV_CREATOR, PRIV, UNKNOWN, PIXEL, THICKNESS, FD_TAG]).boxed()
}

fn text() -> BoxedStrategy<String> {
    prop_oneof![3 => "[A-Z][A-Z0-9]{0,6}", 1 => Just(String::new()), 1 => "[0-9]{1,4}"].boxed()
}

/// a value whose variant suits the tag's VR most of the time
fn value_for_tag(tag: (u16, u16)) -> BoxedStrategy<Val> {
    let t = match tag {
        ROWS => proptest::collection::vec(any::<u16>(), 0..3).prop_map(Val::U16).boxed(),
        FD_TAG => proptest::collection::vec((0i32..1000).prop_map(|k| (k as f64 / 4.0).to_bits()), 0..3).prop_map(Val::F64).boxed(),
        PRIV | UNKNOWN | PIXEL => proptest::collection::vec(any::<u8>(), 0..6).prop_map(|mut v| { if v.len() % 2 == 1 { v.push(0); } Val::U8(v) }).boxed(),
        INSTANCE_NUMBER => prop_oneof!["[0-9]{1,4}".prop_map(|s| Val::Strs(vec![s])), proptest::collection::vec(any::<i32>(), 1..3).prop_map(Val::I32)].boxed(),
        THICKNESS => "[0-9]{1,3}\\.[0-9]".prop_map(|s| Val::Strs(vec![s])).boxed(),
        SEQ1 | SEQ2 => Just(Val::Empty).boxed(),
        _ => prop_oneof![text().prop_map(Val::Str), proptest::collection::vec(text(), 0..3).prop_map(Val::Strs)].boxed(),
    };
    // sometimes a value of another kind (type-incompatible objects must still not panic on write)
    prop_oneof![40 => t, 2 => Just(Val::Empty), 1 => text().prop_map(Val::Str), 1 => proptest::collection::vec(any::<u16>(), 1..3).prop_map(Val::U16)].boxed()
}

fn action(tag: (u16, u16)) -> BoxedStrategy<ActIr> {
    let v = value_for_tag(tag);
    // SetVr: mostly VRs that can carry what the tag usually holds
    let setvr = match tag {
        SEQ1 | SEQ2 => proptest::sample::select(vec!["SQ", "SQ", "UN", "LO"]),
        ROWS => proptest::sample::select(vec!["US", "US", "OW", "SS"]),
        PRIV | UNKNOWN | PIXEL => proptest::sample::select(vec!["UN", "OB", "OB", "LO"]),
        _ => proptest::sample::select(vec!["LO", "SH", "PN", "CS"]),
    };
    let texty = !matches!(tag, ROWS | FD_TAG | PRIV | UNKNOWN | PIXEL | SEQ1 | SEQ2);
    let numy = matches!(tag, ROWS | INSTANCE_NUMBER | PID | IMAGE_TYPE);
    // weights: text actions mostly on text attributes, numeric pushes mostly where they fit
    let (tw, nw) = (if texty { 10 } else { 1 }, if numy { 6 } else { 1 });
    prop_oneof![
        8 => Just(ActIr::Remove),
        4 => Just(ActIr::Empty),
        3 => setvr.prop_map(|s| ActIr::SetVr(s.to_string())),
        15 => v.clone().prop_map(ActIr::Set),
        tw => text().prop_map(ActIr::SetStr),
        5 => v.clone().prop_map(ActIr::SetIfMissing),
        tw / 2 + 1 => text().prop_map(ActIr::SetStrIfMissing),
        5 => v.prop_map(ActIr::Replace),
        tw / 2 + 1 => text().prop_map(ActIr::ReplaceStr),
        tw => text().prop_map(ActIr::PushStr),
        1 => any::<i32>().prop_map(ActIr::PushI32),
        1 => any::<u32>().prop_map(ActIr::PushU32),
        1 => any::<i16>().prop_map(ActIr::PushI16),
        nw => any::<u16>().prop_map(ActIr::PushU16),
        1 => (0i32..100).prop_map(|k| ActIr::PushF32((k as f32 / 2.0).to_bits())),
        if tag == FD_TAG { 8 } else { 1 } => (0i32..100).prop_map(|k| ActIr::PushF64((k as f64 / 2.0).to_bits())),
        5 => (0usize..3).prop_map(ActIr::Truncate),
    ]
    .boxed()
}

fn op() -> BoxedStrategy<OpIr> {
    let step = (proptest::sample::select(vec![SEQ1, SEQ2, SEQ1, UNKNOWN, PID, PIXEL]), prop_oneof![4 => Just(0u32), 3 => Just(1u32), 1 => Just(2u32), 1 => Just(3u32)]);
    (proptest::collection::vec(step, 0..3), leaf_tag())
        .prop_flat_map(|(path, leaf)| (Just(path), Just(leaf), action(leaf)))
        .prop_map(|(path, leaf, act)| OpIr { path, leaf, act })
        .boxed()
}

fn start_object() -> BoxedStrategy<Vec<Elem>> {
    let item = proptest::collection::vec(
        prop_oneof![
            text().prop_map(|s| Elem { g: PID.0, e: PID.1, vr: "LO".into(), v: Val::Strs(vec![s]) }),
            text().prop_map(|s| Elem { g: PN.0, e: PN.1, vr: "PN".into(), v: Val::Strs(vec![s]) }),
            proptest::collection::vec(any::<u16>(), 1..3).prop_map(|v| Elem { g: ROWS.0, e: ROWS.1, vr: "US".into(), v: Val::U16(v) }),
        ],
        0..3,
    )
    .prop_map(crate::gen::normalize);
    let seq = |tag: (u16, u16)| proptest::collection::vec(item.clone(), 0..3).prop_map(move |items| Elem { g: tag.0, e: tag.1, vr: "SQ".into(), v: Val::Seq { items: items.into_iter().map(|elems| Item { elems, explicit: false }).collect(), explicit: false } });
    let el = prop_oneof![
        text().prop_map(|s| Elem { g: PN.0, e: PN.1, vr: "PN".into(), v: Val::Strs(vec![s]) }),
        text().prop_map(|s| Elem { g: PID.0, e: PID.1, vr: "LO".into(), v: Val::Strs(vec![s]) }),
        proptest::collection::vec(any::<u16>(), 1..3).prop_map(|v| Elem { g: ROWS.0, e: ROWS.1, vr: "US".into(), v: Val::U16(v) }),
        proptest::collection::vec("[A-Z]{1,6}", 1..4).prop_map(|v| Elem { g: IMAGE_TYPE.0, e: IMAGE_TYPE.1, vr: "CS".into(), v: Val::Strs(v) }),
        seq(SEQ1),
        seq(SEQ2),
        proptest::collection::vec(any::<u8>(), 0..4).prop_map(|mut v| { if v.len() % 2 == 1 { v.push(0); } Elem { g: PRIV.0, e: PRIV.1, vr: "UN".into(), v: Val::U8(v) } }),
        proptest::collection::vec(any::<u8>(), 2..6).prop_map(|mut v| { if v.len() % 2 == 1 { v.push(0); } Elem { g: PIXEL.0, e: PIXEL.1, vr: "OB".into(), v: Val::U8(v) } }),
        crate::gen::pixel_sequence(),
    ];
    proptest::collection::vec(el, 0..6).prop_map(crate::gen::normalize).boxed()
}

pub fn run(ctx: &Ctx) {
    ctx.assume("leaf value arithmetic (PrimitiveValue::extend_* / truncate) is taken from dicom-core itself; its semantics are decided by C11");
    ctx.assume("the final read-back comparison is made only when every value can be carried by its VR; otherwise only 'writing does not panic' is required (no implementation could make such an object read back equal)");
    ctx.run_prop(
        "operation_histories",
        "start object = small data set over a deliberately small universe (PatientName, PatientID, Rows, ImageType, InstanceNumber, SliceThickness, an FD attribute, two standard sequences, private creator + private element, an unknown even tag, native or encapsulated Pixel Data); history of 0-30 operations, each = selector of depth 1-3 (item indices 0-3, i.e. incl. len and len+1) x every AttributeAction variant; after every step Ok/Err must agree with the reference model and the object must equal the model (a failed operation changes nothing); finally the object is written in the 4 syntaxes (no panic; read back ≈ model when every value suits its VR); non-trivial = a nested constructive operation followed by another operation on the same path",
        || (start_object(), proptest::collection::vec(op(), 0..31)).prop_map(|(start, ops)| Case { start, ops }).boxed(),
        ctx.cases(60_000, 1_200_000),
        check,
    );
}
