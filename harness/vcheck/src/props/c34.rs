//! C34 — I/O failures are always reported (fault enumeration over the failing byte offset).
use crate::conv::to_obj;
use crate::engine::{catch, Ctx, Obs};
use crate::gen::{self, DsCfg};
use crate::pduconv;
use crate::props::c01::ts_of;
use crate::props::c26::{noop_waker, payload, runtime};
use bytes::BytesMut;
use dicom_object::meta::FileMetaTableBuilder;
use dicom_object::{FileMetaTable, InMemDicomObject};
use dicom_ul::association::{read_pdu_from_wire, read_pdu_from_wire_async, AsyncPDataWriter, PDataReader, PDataWriter};
use dicom_ul::pdu::{write_pdu, MAXIMUM_PDU_SIZE};
use proptest::prelude::*;
use refimpl::ds::Elem;
use refimpl::pdu::{self as rp, PduIr, Pdv};
use serde::{Deserialize, Serialize};
use std::future::Future;
use std::io::{Read, Write};
use std::pin::Pin;
use std::task::{Context, Poll};
use tokio::io::{AsyncRead, AsyncWrite, ReadBuf};

#[derive(Clone, Copy, Debug, PartialEq, Eq)]
enum Kind {
    /// write/read returns Err(Other) once `at` bytes went through
    Error,
    /// write returns Ok(0) once `at` bytes went through
    Zero,
    /// every write succeeds, flush returns Err
    Flush,
}

struct FaultW {
    out: Vec<u8>,
    at: usize,
    kind: Kind,
    tripped: bool,
    zeros: usize,
}

impl FaultW {
    fn new(at: usize, kind: Kind) -> Self {
        FaultW { out: vec![], at, kind, tripped: false, zeros: 0 }
    }
}

impl Write for FaultW {
    fn write(&mut self, b: &[u8]) -> std::io::Result<usize> {
        if b.is_empty() {
            return Ok(0);
        }
        if self.kind != Kind::Flush && self.out.len() >= self.at {
            self.tripped = true;
            if self.kind == Kind::Zero {
                self.zeros += 1;
                if self.zeros < 10_000 {
                    return Ok(0);
                }
            }
            return Err(std::io::Error::other("injected write failure"));
        }
        let n = if self.kind == Kind::Flush { b.len() } else { b.len().min(self.at - self.out.len()) };
        self.out.extend_from_slice(&b[..n]);
        Ok(n)
    }
    fn flush(&mut self) -> std::io::Result<()> {
        if self.kind == Kind::Flush {
            self.tripped = true;
            return Err(std::io::Error::other("injected flush failure"));
        }
        Ok(())
    }
}

impl AsyncWrite for FaultW {
    fn poll_write(mut self: Pin<&mut Self>, _cx: &mut Context<'_>, buf: &[u8]) -> Poll<std::io::Result<usize>> {
        Poll::Ready(Write::write(&mut *self, buf))
    }
    fn poll_flush(mut self: Pin<&mut Self>, _cx: &mut Context<'_>) -> Poll<std::io::Result<()>> {
        Poll::Ready(Write::flush(&mut *self))
    }
    fn poll_shutdown(self: Pin<&mut Self>, _cx: &mut Context<'_>) -> Poll<std::io::Result<()>> {
        Poll::Ready(Ok(()))
    }
}

struct FaultR<'a> {
    data: &'a [u8],
    pos: usize,
    at: usize,
    tripped: bool,
}

impl Read for FaultR<'_> {
    fn read(&mut self, b: &mut [u8]) -> std::io::Result<usize> {
        if b.is_empty() {
            return Ok(0);
        }
        if self.pos >= self.at {
            self.tripped = true;
            return Err(std::io::Error::other("injected read failure"));
        }
        let n = b.len().min(self.at - self.pos).min(self.data.len().saturating_sub(self.pos));
        b[..n].copy_from_slice(&self.data[self.pos..self.pos + n]);
        self.pos += n;
        Ok(n)
    }
}

/// seeking always succeeds (the lazy reader and the collector skip values that way); the fault is a source whose bytes
/// from offset `at` on cannot be read
impl std::io::Seek for FaultR<'_> {
    fn seek(&mut self, to: std::io::SeekFrom) -> std::io::Result<u64> {
        let p = match to {
            std::io::SeekFrom::Start(n) => n as i128,
            std::io::SeekFrom::Current(d) => self.pos as i128 + d as i128,
            std::io::SeekFrom::End(d) => self.data.len() as i128 + d as i128,
        };
        if p < 0 {
            return Err(std::io::Error::new(std::io::ErrorKind::InvalidInput, "seek before start"));
        }
        self.pos = p as usize;
        Ok(p as u64)
    }
}

impl AsyncRead for FaultR<'_> {
    fn poll_read(mut self: Pin<&mut Self>, _cx: &mut Context<'_>, buf: &mut ReadBuf<'_>) -> Poll<std::io::Result<()>> {
        let mut tmp = vec![0u8; buf.remaining()];
        match Read::read(&mut *self, &mut tmp) {
            Ok(n) => {
                buf.put_slice(&tmp[..n]);
                Poll::Ready(Ok(()))
            }
            Err(e) => Poll::Ready(Err(e)),
        }
    }
}

fn block_on<F: Future>(f: F) -> F::Output {
    let _g = runtime().enter();
    let waker = noop_waker();
    let mut cx = Context::from_waker(&waker);
    let mut f = std::pin::pin!(f);
    for _ in 0..1_000_000 {
        if let Poll::Ready(v) = f.as_mut().poll(&mut cx) {
            return v;
        }
    }
    panic!("HARNESS: future never became ready");
}

#[derive(Clone, Debug, Serialize, Deserialize)]
pub enum Subject {
    /// a data set and a transfer syntax index (0..4, 3 = deflated)
    DataSet { elems: Vec<Elem>, ts: u8 },
    Pdu(PduIr),
    /// a P-DATA payload: length, seed, maximum PDU length
    PData { len: u32, seed: u8, max: u32 },
}

#[derive(Clone, Debug, Serialize, Deserialize)]
pub struct Case {
    pub subject: Subject,
    /// operation selector within the subject's family
    pub op: u8,
}

const SOP_CLASS: &str = "1.2.840.10008.5.1.4.1.1.7";

fn file_obj(elems: &[Elem], ts: u8) -> dicom_object::FileDicomObject<InMemDicomObject> {
    let (t, rts, _) = ts_of(ts);
    to_obj(elems, Some(rts))
        .with_meta(FileMetaTableBuilder::new().transfer_syntax(t.uid()).media_storage_sop_class_uid(SOP_CLASS).media_storage_sop_instance_uid("1.2.3.4"))
        .expect("HARNESS: meta builds")
}

/// the write operations: returns Err(text) when the operation reports failure
fn write_op(c: &Case, w: &mut FaultW) -> Option<(String, Result<(), String>)> {
    let e2s = |e: &dyn std::error::Error| crate::img::errs(e);
    match &c.subject {
        Subject::DataSet { elems, ts } => {
            let (t, rts, tname) = ts_of(*ts);
            match c.op % 5 {
                0 => {
                    let o = to_obj(elems, Some(rts));
                    Some((format!("write_dataset_with_ts:{tname}"), o.write_dataset_with_ts(&mut *w, &t).map_err(|e| e2s(&e))))
                }
                1 => Some((format!("FileDicomObject::write_all:{tname}"), file_obj(elems, *ts).write_all(&mut *w).map_err(|e| e2s(&e)))),
                2 => Some((format!("FileDicomObject::write_dataset:{tname}"), file_obj(elems, *ts).write_dataset(&mut *w).map_err(|e| e2s(&e)))),
                3 => Some(("FileDicomObject::write_meta".into(), file_obj(elems, *ts).write_meta(&mut *w).map_err(|e| e2s(&e)))),
                _ => {
                    let o = to_obj(elems, Some(rts));
                    Some((format!("write_dataset_with_ts_options:{tname}"), o.write_dataset_with_ts_options(&mut *w, &t, Default::default()).map_err(|e| e2s(&e))))
                }
            }
        }
        Subject::Pdu(p) => Some(("write_pdu".into(), write_pdu(&mut *w, &pduconv::to_ul(p)).map_err(|e| e2s(&e)))),
        Subject::PData { len, seed, max } => {
            let data = payload(*len, *seed);
            if c.op % 2 == 0 {
                let mut pw = PDataWriter::verif_new(&mut *w, 1, *max);
                let r = pw.write_all(&data).and_then(|_| pw.finish()).map_err(|e| e.to_string());
                Some(("PDataWriter::write_all+finish".into(), r))
            } else {
                let r = block_on(async {
                    use tokio::io::AsyncWriteExt;
                    let mut pw = AsyncPDataWriter::verif_new(&mut *w, 1, *max);
                    match pw.write_all(&data).await {
                        Ok(()) => pw.finish().await.map_err(|e| e.to_string()),
                        Err(e) => Err(e.to_string()),
                    }
                });
                Some(("AsyncPDataWriter::write_all+finish".into(), r))
            }
        }
    }
}

fn check_write(c: &Case, obs: &mut Obs) {
    // fault-free reference run
    let mut w0 = FaultW::new(usize::MAX, Kind::Error);
    let Some((name, r0)) = write_op(c, &mut w0) else { return };
    if let Err(e) = r0 {
        obs.skip(format!("{name} fails without any fault: {e}"));
        return;
    }
    let full = w0.out;
    obs.class(name.clone());
    obs.nontrivial = full.len() > 16;
    // every offset for small outputs, a sample beyond 4 KiB
    let offsets: Vec<usize> = if full.len() <= 4096 { (0..=full.len()).collect() } else { (0..=64).map(|i| i * full.len() / 64).chain([full.len() - 1, full.len() - 2, 1, 2].into_iter()).collect() };
    let mut n = 0u64;
    for kind in [Kind::Error, Kind::Zero, Kind::Flush] {
        for &k in &offsets {
            if kind == Kind::Flush && k != 0 {
                continue;
            }
            n += 1;
            let mut w = FaultW::new(k, kind);
            let res = catch(&name, || write_op(c, &mut w));
            let kname = match kind {
                Kind::Error => "write error",
                Kind::Zero => "zero-length write",
                Kind::Flush => "flush error",
            };
            let whr = if kind == Kind::Flush {
                "flush".to_string()
            } else if k + 16 >= full.len() && k < full.len() {
                "in the last 16 bytes".to_string()
            } else {
                "before the last 16 bytes".to_string()
            };
            match res {
                Err((sig, detail)) => {
                    obs.fail(sig, format!("{name}, {kname} at byte {k} of {}: {detail}", full.len()));
                    return;
                }
                Ok(Some((_, Ok(())))) => {
                    if w.zeros >= 10_000 {
                        obs.fail(format!("C34:{name} keeps retrying a zero-length write"), format!("more than 10000 retries at byte {k} of {}", full.len()));
                        return;
                    }
                    if w.out != full {
                        obs.fail(
                            format!("C34:success reported with incomplete output:{name}:{kname}:{whr}"),
                            format!("{kname} at byte {k} of {}: the operation returned Ok, the sink holds {} bytes", full.len(), w.out.len()),
                        );
                        return;
                    }
                    if w.tripped && kind == Kind::Flush {
                        obs.fail(format!("C34:success reported although flushing the writer failed:{name}"), format!("output complete ({} bytes), flush error ignored", full.len()));
                        return;
                    }
                }
                Ok(_) => {}
            }
        }
    }
    obs.extra_evals = n.saturating_sub(1);
}

/// which read operation a case exercises: 0 read_dataset_with_ts, 1 from_reader, 2 FileMetaTable::from_reader,
/// 3 DataSetReader tokens, 4 LazyDataSetReader tokens (both read the raw stream: not for the deflated syntax), 5 DicomCollector
fn read_kind(op: u8, ts: u8) -> u8 {
    let k = op % 6;
    if (k == 3 || k == 4) && ts >= 3 {
        0
    } else {
        k
    }
}

/// the read operations; returns Err(text) when the operation reports failure
fn read_op(name: &mut String, c: &Case, bytes: &[u8], r: &mut FaultR) -> Result<(), String> {
    let e2s = |e: &dyn std::error::Error| crate::img::errs(e);
    let _ = bytes;
    match &c.subject {
        Subject::DataSet { ts, .. } => {
            let (t, _, tname) = ts_of(*ts);
            match read_kind(c.op, *ts) {
                0 => {
                    *name = format!("read_dataset_with_ts:{tname}");
                    InMemDicomObject::read_dataset_with_ts(&mut *r, &t).map(|_| ()).map_err(|e| e2s(&e))
                }
                1 => {
                    *name = format!("from_reader:{tname}");
                    dicom_object::from_reader(&mut *r).map(|_| ()).map_err(|e| e2s(&e))
                }
                2 => {
                    *name = "FileMetaTable::from_reader".into();
                    FileMetaTable::from_reader(&mut *r).map(|_| ()).map_err(|e| e2s(&e))
                }
                3 => {
                    // the eager token reader: the operation is "iterate to the end"; it reports failure through an Err token
                    *name = format!("DataSetReader:{tname}");
                    let rd = dicom_parser::dataset::read::DataSetReader::new_with_ts(&mut *r, &t).map_err(|e| e2s(&e))?;
                    for tok in rd {
                        tok.map_err(|e| e2s(&e))?;
                    }
                    Ok(())
                }
                4 => {
                    // the lazy token reader, every value materialised
                    *name = format!("LazyDataSetReader:{tname}");
                    let mut rd = dicom_parser::dataset::lazy_read::LazyDataSetReader::new_with_ts(&mut *r, &t).map_err(|e| e2s(&e))?;
                    while let Some(tok) = rd.advance() {
                        tok.map_err(|e| e2s(&e))?.into_owned().map_err(|e| e2s(&e))?;
                    }
                    Ok(())
                }
                _ => {
                    // the collector on a complete file: meta group, then the data set in two portions
                    *name = format!("DicomCollector:{tname}");
                    let mut col = dicom_object::collector::DicomCollector::new(std::io::BufReader::with_capacity(1 + (c.op as usize / 8) * 7, &mut *r));
                    col.read_file_meta().map(|_| ()).map_err(|e| e2s(&e))?;
                    let mut acc = InMemDicomObject::new_empty();
                    col.read_dataset_up_to(dicom_core::Tag(0x0010, 0x0010), &mut acc).map_err(|e| e2s(&e))?;
                    col.read_dataset_to_end(&mut acc).map_err(|e| e2s(&e))
                }
            }
        }
        Subject::Pdu(_) => {
            if c.op % 2 == 0 {
                *name = "read_pdu_from_wire".into();
                let mut buf = BytesMut::new();
                read_pdu_from_wire(&mut *r, &mut buf, MAXIMUM_PDU_SIZE, false).map(|_| ()).map_err(|e| e2s(&e))
            } else {
                *name = "read_pdu_from_wire_async".into();
                block_on(async {
                    let mut buf = BytesMut::new();
                    read_pdu_from_wire_async(&mut *r, &mut buf, MAXIMUM_PDU_SIZE, false).await.map(|_| ()).map_err(|e| e2s(&e))
                })
            }
        }
        Subject::PData { max, .. } => {
            *name = "PDataReader::read_to_end".into();
            let mut shared = BytesMut::new();
            let mut pr = PDataReader::new(&mut *r, *max, &mut shared);
            let mut out = vec![];
            pr.read_to_end(&mut out).map(|_| ()).map_err(|e| e.to_string())
        }
    }
}

/// the valid byte stream handed to the read operation
fn read_input(c: &Case) -> Option<Vec<u8>> {
    match &c.subject {
        Subject::DataSet { elems, ts } => {
            let (t, rts, _) = ts_of(*ts);
            let mut out = vec![];
            match read_kind(c.op, *ts) {
                0 | 3 | 4 => to_obj(elems, Some(rts)).write_dataset_with_ts(&mut out, &t).ok()?,
                1 | 5 => file_obj(elems, *ts).write_all(&mut out).ok()?,
                _ => {
                    // the table reader expects the magic code followed by the group
                    out.extend_from_slice(b"DICM");
                    file_obj(elems, *ts).write_meta(&mut out).ok()?
                }
            }
            Some(out)
        }
        Subject::Pdu(p) => rp::encode(p).ok(),
        Subject::PData { len, seed, max } => {
            let data = payload(*len, *seed);
            let cap = (*max as usize - 6).max(1);
            let mut out = vec![];
            let chunks: Vec<&[u8]> = if data.is_empty() { vec![&data[..]] } else { data.chunks(cap).collect() };
            let n = chunks.len();
            for (i, ch) in chunks.into_iter().enumerate() {
                out.extend(rp::encode(&PduIr::PData { pdvs: vec![Pdv { pc_id: 1, command: false, last: i + 1 == n, data: ch.to_vec() }] }).ok()?);
            }
            Some(out)
        }
    }
}

fn check_read(c: &Case, obs: &mut Obs) {
    let Some(bytes) = read_input(c) else {
        obs.skip("input cannot be produced");
        return;
    };
    let mut name = String::new();
    let mut r0 = FaultR { data: &bytes, pos: 0, at: usize::MAX, tripped: false };
    if let Err(e) = read_op(&mut name, c, &bytes, &mut r0) {
        obs.skip(format!("{name} fails without any fault: {e}"));
        return;
    }
    obs.class(name.clone());
    obs.nontrivial = bytes.len() > 16;
    let offsets: Vec<usize> = if bytes.len() <= 4096 { (0..bytes.len()).collect() } else { (0..64).map(|i| i * bytes.len() / 64).chain([bytes.len() - 1, bytes.len() - 2, 1, 2].into_iter()).collect() };
    let mut n = 0u64;
    for &k in &offsets {
        n += 1;
        let mut r = FaultR { data: &bytes, pos: 0, at: k, tripped: false };
        let mut nm = String::new();
        let res = catch(&name, || read_op(&mut nm, c, &bytes, &mut r));
        match res {
            Err((sig, detail)) => {
                obs.fail(sig, format!("{name}, read error after {k} of {} bytes: {detail}", bytes.len()));
                return;
            }
            Ok(Ok(())) if r.tripped => {
                let whr = if k + 16 >= bytes.len() { "in the last 16 bytes" } else { "before the last 16 bytes" };
                obs.fail(format!("C34:success reported although the reader failed:{name}:{whr}"), format!("read error after {k} of {} bytes, the operation returned Ok", bytes.len()));
                return;
            }
            _ => {}
        }
    }
    obs.extra_evals = n.saturating_sub(1);
}

fn subjects() -> BoxedStrategy<Subject> {
    prop_oneof![
        5 => (gen::dataset(DsCfg { max_depth: 2, max_top: 5, pixel_seq: true }), 0u8..4).prop_map(|(elems, ts)| Subject::DataSet { elems, ts }),
        3 => pduconv::pdu(false).prop_map(Subject::Pdu),
        2 => (0u32..6000, any::<u8>(), prop_oneof![Just(1018u32), 1018u32..2100, Just(16384u32)]).prop_map(|(len, seed, max)| Subject::PData { len, seed, max }),
    ]
    .boxed()
}

pub fn run(ctx: &Ctx) {
    *ctx.level.lock().unwrap() = "fault_enumeration".into();
    ctx.run_prop(
        "write_faults",
        "subjects: G-DS data sets (4 transfer syntaxes incl. deflated), G-PDU PDUs, P-DATA payloads of 0-6000 bytes; operations: write_dataset_with_ts(_options), FileDicomObject::write_all / write_dataset / write_meta, write_pdu, PDataWriter and AsyncPDataWriter write_all + finish; faults: the writer returns Err(Other), or Ok(0), once k bytes went through, for EVERY k in 0..=len when the fault-free output has at most 4 KiB (64 sampled offsets + the ends beyond), plus a writer whose flush fails; oracle: a panic is a violation; Ok is accepted only if the sink holds the complete fault-free output and no flush error was swallowed; non-trivial = fault-free output longer than 16 bytes; evaluations count injections",
        || (subjects(), any::<u8>()).prop_map(|(subject, op)| Case { subject, op }).boxed(),
        ctx.cases(1_500, 30_000),
        check_write,
    );
    ctx.run_prop(
        "read_faults",
        "inputs: valid encodings of the same subjects (data sets in 4 syntaxes, complete files, file meta groups, single PDUs, P-DATA PDU trains); operations: read_dataset_with_ts, from_reader, FileMetaTable::from_reader, iterating DataSetReader and LazyDataSetReader (values materialised) to the end, DicomCollector (read_file_meta, read_dataset_up_to, read_dataset_to_end through BufReaders of 1-218 bytes capacity), read_pdu_from_wire(_async), PDataReader::read_to_end; fault: the reader returns Err(Other) once k bytes were delivered, for EVERY k in 0..len (sampled beyond 4 KiB); oracle: a panic is a violation; whenever the injected error was actually returned to the code, the operation must return Err; evaluations count injections",
        || (subjects(), any::<u8>()).prop_map(|(subject, op)| Case { subject, op }).boxed(),
        ctx.cases(1_500, 30_000),
        check_read,
    );
}
