//! C12 — partial dates and times round-trip through text and bound their ranges.
use crate::engine::{Ctx, Obs};
use chrono::{Datelike, FixedOffset, NaiveDate, NaiveDateTime, NaiveTime, Timelike};
use dicom_core::value::deserialize::{parse_date_partial, parse_datetime_partial, parse_time_partial};
use dicom_core::value::range::{
    parse_date_range, parse_datetime_range_custom, parse_time_range, AsRange, DateTimeRange, FailOnAmbiguousRange, IgnoreTimeZone,
    ToKnownTimeZone,
};
use dicom_core::value::{DicomDate, DicomDateTime, DicomTime, PreciseDateTime, PrimitiveValue};
use proptest::prelude::*;
use serde::{Deserialize, Serialize};

// ---------------------------------------------------------------- reference calendar

fn is_leap(y: i32) -> bool {
    (y % 4 == 0 && y % 100 != 0) || y % 400 == 0
}
fn days_in_month(y: i32, m: u32) -> u32 {
    match m {
        1 | 3 | 5 | 7 | 8 | 10 | 12 => 31,
        4 | 6 | 9 | 11 => 30,
        _ => {
            if is_leap(y) {
                29
            } else {
                28
            }
        }
    }
}
fn even(n: usize) -> usize {
    n + (n & 1)
}

fn ymd(d: &NaiveDate) -> (i32, u32, u32) {
    (d.year(), d.month(), d.day())
}

// ---------------------------------------------------------------- dates

#[derive(Clone, Debug, Serialize, Deserialize)]
pub struct YearCase {
    year: u16,
}

fn check_date_value(d: &DicomDate, y: u16, m: Option<u8>, day: Option<u8>, obs: &mut Obs) {
    obs.extra_evals += 1;
    let want_txt = match (m, day) {
        (None, _) => format!("{y:04}"),
        (Some(m), None) => format!("{y:04}{m:02}"),
        (Some(m), Some(dd)) => format!("{y:04}{m:02}{dd:02}"),
    };
    let enc = d.to_encoded();
    if enc != want_txt {
        obs.fail("C12:DicomDate::to_encoded differs from the DICOM text", format!("{y}/{m:?}/{day:?} -> {enc:?}"));
        return;
    }
    match parse_date_partial(enc.as_bytes()) {
        Ok((back, rest)) => {
            if back != *d || !rest.is_empty() {
                obs.fail("C12:date text does not parse back to the same value", format!("{enc:?} -> {back:?} rest {rest:?}"));
            }
        }
        Err(e) => obs.fail("C12:encoded date does not parse", format!("{enc:?}: {e}")),
    }
    match enc.parse::<DicomDate>() {
        Ok(back) if back == *d => {}
        other => obs.fail("C12:DicomDate::from_str differs", format!("{enc:?} -> {other:?}")),
    }
    let pv = PrimitiveValue::Date(std::iter::once(*d).collect());
    if pv.calculate_byte_len() != even(enc.len()) {
        obs.fail("C12:calculate_byte_len differs from the encoded date length", format!("{enc:?}: {} vs {}", pv.calculate_byte_len(), even(enc.len())));
    }
    let yy = y as i32;
    let valid_day = match (m, day) {
        (Some(m), Some(dd)) => dd as u32 <= days_in_month(yy, m as u32),
        _ => true,
    };
    if !valid_day {
        // impossible calendar day: bounds must be errors, nothing may panic
        if d.earliest().is_ok() || d.latest().is_ok() {
            obs.fail("C12:impossible calendar day has bounds", format!("{enc}"));
        }
        return;
    }
    let want_e = (yy, m.unwrap_or(1) as u32, day.unwrap_or(1) as u32);
    let lm = m.unwrap_or(12) as u32;
    let want_l = (yy, lm, day.map(|x| x as u32).unwrap_or(days_in_month(yy, lm)));
    match (d.earliest(), d.latest()) {
        (Ok(e), Ok(l)) => {
            if ymd(&e) != want_e {
                obs.fail("C12:earliest date differs from the calendar", format!("{enc}: {e} want {want_e:?}"));
            }
            if ymd(&l) != want_l {
                obs.fail(
                    format!("C12:latest date differs from the calendar:{}", if m.is_none() { "year" } else if day.is_none() { "month" } else { "day" }),
                    format!("{enc}: {l} want {want_l:?}"),
                );
            }
            if d.is_precise() != day.is_some() {
                obs.fail("C12:is_precise differs for a date", enc.clone());
            }
            match d.range() {
                Ok(r) => {
                    if r.start() != Some(&e) || r.end() != Some(&l) {
                        obs.fail("C12:range() of a date differs from (earliest, latest)", format!("{enc}: {r:?}"));
                    }
                }
                Err(er) => obs.fail(format!("C12:range() of a valid date fails:{}", if day.is_some() { "precise" } else { "partial" }), format!("{enc}: {er}")),
            }
        }
        (e, l) => obs.fail("C12:bounds of a valid partial date fail", format!("{enc}: {e:?} {l:?}")),
    }
}

fn check_year(c: &YearCase, obs: &mut Obs) {
    obs.nontrivial = true;
    let y = c.year;
    match DicomDate::from_y(y) {
        Ok(d) => check_date_value(&d, y, None, None, obs),
        Err(e) => obs.fail("C12:valid year rejected", format!("{y}: {e}")),
    }
    for m in 1u8..=12 {
        match DicomDate::from_ym(y, m) {
            Ok(d) => check_date_value(&d, y, Some(m), None, obs),
            Err(e) => obs.fail("C12:valid year-month rejected", format!("{y}-{m}: {e}")),
        }
        for dd in 1u8..=31 {
            match DicomDate::from_ymd(y, m, dd) {
                Ok(d) => check_date_value(&d, y, Some(m), Some(dd), obs),
                Err(e) => {
                    if dd as u32 <= days_in_month(y as i32, m as u32) {
                        obs.fail("C12:real calendar day rejected", format!("{y}-{m}-{dd}: {e}"));
                    }
                }
            }
        }
    }
    // multi-valued byte length (2 and 3 values)
    if let (Ok(a), Ok(b), Ok(c3)) = (DicomDate::from_y(y), DicomDate::from_ym(y, 7), DicomDate::from_ymd(y, 2, 28)) {
        let two = PrimitiveValue::Date([a, b].into_iter().collect());
        let three = PrimitiveValue::Date([a, b, c3].into_iter().collect());
        if two.calculate_byte_len() != even(4 + 1 + 6) || three.calculate_byte_len() != even(4 + 1 + 6 + 1 + 8) {
            obs.fail("C12:calculate_byte_len of a multi-valued date differs", format!("{} {}", two.calculate_byte_len(), three.calculate_byte_len()));
        }
    }
}

// ---------------------------------------------------------------- times

#[derive(Clone, Debug, Serialize, Deserialize)]
pub struct HourCase {
    hour: u8,
    /// sampled fraction values per precision (seed-derived)
    fracs: Vec<u32>,
}

fn time_model(h: u8, m: Option<u8>, s: Option<u8>, frac: Option<(u32, u8)>) -> ((u32, u32, u32, u32), (u32, u32, u32, u32)) {
    let (fe, fl) = match frac {
        None => (0, 999_999),
        Some((f, p)) => {
            let unit = 10u32.pow(6 - p as u32);
            (f * unit, f * unit + unit - 1)
        }
    };
    (
        (h as u32, m.unwrap_or(0) as u32, s.unwrap_or(0) as u32, fe),
        (h as u32, m.unwrap_or(59) as u32, s.unwrap_or(59) as u32, fl),
    )
}

fn hmsf(t: &NaiveTime) -> (u32, u32, u32, u32) {
    (t.hour(), t.minute(), t.second(), t.nanosecond() / 1000)
}

fn check_time_value(t: &DicomTime, h: u8, m: Option<u8>, s: Option<u8>, frac: Option<(u32, u8)>, obs: &mut Obs) {
    obs.extra_evals += 1;
    let mut want_txt = format!("{h:02}");
    if let Some(m) = m {
        want_txt.push_str(&format!("{m:02}"));
    }
    if let Some(s) = s {
        want_txt.push_str(&format!("{s:02}"));
    }
    if let Some((f, p)) = frac {
        want_txt.push_str(&format!(".{:0width$}", f, width = p as usize));
    }
    let enc = t.to_encoded();
    if enc != want_txt {
        obs.fail("C12:DicomTime::to_encoded differs from the DICOM text", format!("want {want_txt:?} got {enc:?}"));
        return;
    }
    match parse_time_partial(enc.as_bytes()) {
        Ok((back, rest)) => {
            if back != *t || !rest.is_empty() {
                obs.fail("C12:time text does not parse back to the same value", format!("{enc:?} -> {back:?}"));
            }
        }
        Err(e) => obs.fail("C12:encoded time does not parse", format!("{enc:?}: {e}")),
    }
    let pv = PrimitiveValue::Time(std::iter::once(*t).collect());
    if pv.calculate_byte_len() != even(enc.len()) {
        obs.fail(
            format!("C12:calculate_byte_len differs from the encoded time length:{}", if frac.is_some() { "fraction" } else { "no-fraction" }),
            format!("{enc:?}: {} vs {}", pv.calculate_byte_len(), even(enc.len())),
        );
    }
    let (we, wl) = time_model(h, m, s, frac);
    if s == Some(60) {
        // leap second: bounds may be an error or chrono's leap representation; only "no panic" is required
        let _ = (t.earliest(), t.latest());
        obs.class("leap-second");
        return;
    }
    match (t.earliest(), t.latest()) {
        (Ok(e), Ok(l)) => {
            if hmsf(&e) != we {
                obs.fail("C12:earliest time differs from the model", format!("{enc}: {e} want {we:?}"));
            }
            if hmsf(&l) != wl {
                obs.fail(
                    format!("C12:latest time differs from the model:{}", match frac { Some((_, p)) => format!("precision{p}"), None => "no-fraction".into() }),
                    format!("{enc}: {l} want {wl:?}"),
                );
            }
            match t.range() {
                Ok(r) => {
                    if r.start() != Some(&e) || r.end() != Some(&l) {
                        obs.fail("C12:range() of a time differs from (earliest, latest)", format!("{enc}: {r:?}"));
                    }
                }
                Err(er) => obs.fail(
                    format!("C12:range() of a valid time fails:{}", if matches!(frac, Some((_, 6))) { "precise" } else { "partial" }),
                    format!("{enc}: {er}"),
                ),
            }
        }
        (e, l) => obs.fail("C12:bounds of a valid partial time fail", format!("{enc}: {e:?} {l:?}")),
    }
    let precise = matches!(frac, Some((_, 6)));
    if t.is_precise() != precise {
        obs.fail("C12:is_precise differs for a time", enc);
    }
}

fn check_hour(c: &HourCase, obs: &mut Obs) {
    obs.nontrivial = true;
    let h = c.hour;
    match DicomTime::from_h(h) {
        Ok(t) => check_time_value(&t, h, None, None, None, obs),
        Err(e) => obs.fail("C12:valid hour rejected", format!("{h}: {e}")),
    }
    for m in 0u8..60 {
        match DicomTime::from_hm(h, m) {
            Ok(t) => check_time_value(&t, h, Some(m), None, None, obs),
            Err(e) => obs.fail("C12:valid hour-minute rejected", format!("{h}:{m}: {e}")),
        }
        for s in 0u8..=60 {
            match DicomTime::from_hms(h, m, s) {
                Ok(t) => check_time_value(&t, h, Some(m), Some(s), None, obs),
                Err(e) => obs.fail("C12:valid hour-minute-second rejected", format!("{h}:{m}:{s}: {e}")),
            }
        }
    }
    // fractions: precisions 1-6, boundary and sampled values, built from text (and from the typed constructors for 3 and 6)
    for p in 1u8..=6 {
        let max = 10u32.pow(p as u32) - 1;
        let mut vals = vec![0, 1, max, max / 2];
        vals.extend(c.fracs.iter().map(|f| f % (max + 1)));
        for f in vals {
            for (m, s) in [(0u8, 0u8), (59, 59), (h % 60, (h as u16 * 7 % 60) as u8)] {
                let txt = format!("{h:02}{m:02}{s:02}.{:0width$}", f, width = p as usize);
                match parse_time_partial(txt.as_bytes()) {
                    Ok((t, rest)) => {
                        if !rest.is_empty() {
                            obs.fail("C12:time with fraction leaves unparsed text", format!("{txt:?} rest {rest:?}"));
                        }
                        if t.fraction_precision() != p {
                            obs.fail("C12:fraction precision differs", format!("{txt:?}: {}", t.fraction_precision()));
                        }
                        check_time_value(&t, h, Some(m), Some(s), Some((f, p)), obs);
                        if p == 3 {
                            if let Ok(t2) = DicomTime::from_hms_milli(h, m, s, f) {
                                if t2 != t {
                                    obs.fail("C12:from_hms_milli differs from the parsed value", txt.clone());
                                }
                            }
                        }
                        if p == 6 {
                            if let Ok(t2) = DicomTime::from_hms_micro(h, m, s, f) {
                                if t2 != t {
                                    obs.fail("C12:from_hms_micro differs from the parsed value", txt.clone());
                                }
                            }
                        }
                    }
                    Err(e) => obs.fail("C12:valid time with fraction rejected", format!("{txt:?}: {e}")),
                }
            }
        }
    }
}

// ---------------------------------------------------------------- date-times and ranges (sampled)

#[derive(Clone, Debug, Serialize, Deserialize)]
pub struct DtCase {
    y: u16,
    mo: Option<u8>,
    d: Option<u8>,
    h: Option<u8>,
    mi: Option<u8>,
    s: Option<u8>,
    frac: Option<(u32, u8)>,
    /// offset in quarter hours from -48 (-12:00) to +56 (+14:00)
    tz_q: Option<i32>,
}

fn dt_text(c: &DtCase) -> String {
    let mut t = format!("{:04}", c.y);
    if let Some(m) = c.mo {
        t.push_str(&format!("{m:02}"));
        if let Some(d) = c.d {
            t.push_str(&format!("{d:02}"));
            if let Some(h) = c.h {
                t.push_str(&format!("{h:02}"));
                if let Some(mi) = c.mi {
                    t.push_str(&format!("{mi:02}"));
                    if let Some(s) = c.s {
                        t.push_str(&format!("{s:02}"));
                        if let Some((f, p)) = c.frac {
                            t.push_str(&format!(".{:0width$}", f, width = p as usize));
                        }
                    }
                }
            }
        }
    }
    if let Some(q) = c.tz_q {
        let sign = if q < 0 { '-' } else { '+' };
        let a = q.abs();
        t.push_str(&format!("{sign}{:02}{:02}", a / 4, (a % 4) * 15));
    }
    t
}

/// normalise: components only present when their parent is
fn dt_norm(mut c: DtCase) -> DtCase {
    if c.mo.is_none() {
        c.d = None;
    }
    if c.d.is_none() {
        c.h = None;
    }
    if c.h.is_none() {
        c.mi = None;
    }
    if c.mi.is_none() {
        c.s = None;
    }
    if c.s.is_none() {
        c.frac = None;
    }
    if let (Some(m), Some(d)) = (c.mo, c.d) {
        let dim = days_in_month(c.y as i32, m as u32) as u8;
        if d > dim {
            c.d = Some(dim);
        }
    }
    if let Some((f, p)) = c.frac {
        c.frac = Some((f % 10u32.pow(p as u32), p));
    }
    c
}

/// model bounds as (local naive date-time, offset seconds)
fn dt_bounds(c: &DtCase) -> ((i32, u32, u32, u32, u32, u32, u32), (i32, u32, u32, u32, u32, u32, u32)) {
    let y = c.y as i32;
    let em = c.mo.unwrap_or(1) as u32;
    let lm = c.mo.unwrap_or(12) as u32;
    let ed = c.d.unwrap_or(1) as u32;
    let ld = c.d.map(|x| x as u32).unwrap_or(days_in_month(y, lm));
    let (te, tl) = match c.h {
        None => ((0, 0, 0, 0), (23, 59, 59, 999_999)),
        Some(h) => time_model(h, c.mi, c.s, c.frac),
    };
    ((y, em, ed, te.0, te.1, te.2, te.3), (y, lm, ld, tl.0, tl.1, tl.2, tl.3))
}

fn ndt_tuple(n: &NaiveDateTime) -> (i32, u32, u32, u32, u32, u32, u32) {
    (n.year(), n.month(), n.day(), n.hour(), n.minute(), n.second(), n.nanosecond() / 1000)
}

fn build_dt(c: &DtCase) -> Result<DicomDateTime, String> {
    let date = match (c.mo, c.d) {
        (None, _) => DicomDate::from_y(c.y),
        (Some(m), None) => DicomDate::from_ym(c.y, m),
        (Some(m), Some(d)) => DicomDate::from_ymd(c.y, m, d),
    }
    .map_err(|e| e.to_string())?;
    let tz = c.tz_q.map(|q| FixedOffset::east_opt(q * 900).unwrap());
    match c.h {
        None => Ok(match tz {
            Some(tz) => DicomDateTime::from_date_with_time_zone(date, tz),
            None => DicomDateTime::from_date(date),
        }),
        Some(h) => {
            // time: typed constructors for no fraction / precision 3 / 6, text otherwise
            let time = match (c.mi, c.s, c.frac) {
                (None, _, _) => DicomTime::from_h(h),
                (Some(m), None, _) => DicomTime::from_hm(h, m),
                (Some(m), Some(s), None) => DicomTime::from_hms(h, m, s),
                (Some(m), Some(s), Some((f, 3))) => DicomTime::from_hms_milli(h, m, s, f),
                (Some(m), Some(s), Some((f, 6))) => DicomTime::from_hms_micro(h, m, s, f),
                (Some(m), Some(s), Some((f, p))) => {
                    let txt = format!("{h:02}{m:02}{s:02}.{:0width$}", f, width = p as usize);
                    return match parse_time_partial(txt.as_bytes()) {
                        Ok((t, _)) => match tz {
                            Some(tz) => DicomDateTime::from_date_and_time_with_time_zone(date, t, tz),
                            None => DicomDateTime::from_date_and_time(date, t),
                        }
                        .map_err(|e| e.to_string()),
                        Err(e) => Err(e.to_string()),
                    };
                }
            }
            .map_err(|e| e.to_string())?;
            match tz {
                Some(tz) => DicomDateTime::from_date_and_time_with_time_zone(date, time, tz),
                None => DicomDateTime::from_date_and_time(date, time),
            }
            .map_err(|e| e.to_string())
        }
    }
}

fn check_precise(what: &str, got: &PreciseDateTime, want: (i32, u32, u32, u32, u32, u32, u32), tz_q: Option<i32>, txt: &str, obs: &mut Obs) {
    match (got, tz_q) {
        (PreciseDateTime::Naive(n), None) => {
            if ndt_tuple(n) != want {
                obs.fail(format!("C12:{what} date-time differs from the model"), format!("{txt}: {n} want {want:?}"));
            }
        }
        (PreciseDateTime::TimeZone(dt), Some(q)) => {
            if ndt_tuple(&dt.naive_local()) != want || dt.offset().local_minus_utc() != q * 900 {
                obs.fail(format!("C12:{what} date-time differs from the model:with-offset"), format!("{txt}: {dt} want {want:?} offset {}", q * 900));
            }
        }
        _ => obs.fail(format!("C12:{what} date-time has the wrong time-zone kind"), format!("{txt}: {got:?}")),
    }
}

fn check_dt(c: &DtCase, obs: &mut Obs) {
    let c = dt_norm(c.clone());
    obs.nontrivial = c.mo.is_some();
    obs.class(format!(
        "precision:{}",
        if c.frac.is_some() { "fraction" } else if c.s.is_some() { "second" } else if c.mi.is_some() { "minute" } else if c.h.is_some() { "hour" } else if c.d.is_some() { "day" } else if c.mo.is_some() { "month" } else { "year" }
    ));
    if c.tz_q.is_some() {
        obs.class("has-offset");
    }
    // a time needs a precise date (documented constructor precondition)
    let txt = dt_text(&c);
    let v = match build_dt(&c) {
        Ok(v) => v,
        Err(e) => {
            obs.fail("C12:valid date-time rejected by the constructors", format!("{txt}: {e}"));
            return;
        }
    };
    let enc = v.to_encoded();
    if enc != txt {
        obs.fail(
            format!("C12:DicomDateTime::to_encoded differs from the DICOM text:{}", if c.tz_q.is_some() { "with-offset" } else { "naive" }),
            format!("want {txt:?} got {enc:?}"),
        );
        return;
    }
    match parse_datetime_partial(enc.as_bytes()) {
        Ok(back) => {
            if back != v {
                obs.fail("C12:date-time text does not parse back to the same value", format!("{enc:?} -> {back:?} vs {v:?}"));
            }
        }
        Err(e) => obs.fail("C12:encoded date-time does not parse", format!("{enc:?}: {e}")),
    }
    let pv = PrimitiveValue::DateTime(std::iter::once(v).collect());
    if pv.calculate_byte_len() != even(enc.len()) {
        obs.fail(
            format!(
                "C12:calculate_byte_len differs from the encoded date-time length:{}:{}",
                if c.h.is_some() { "with-time" } else { "date-only" },
                if c.tz_q.is_some() { "with-offset" } else { "naive" }
            ),
            format!("{enc:?}: {} vs {}", pv.calculate_byte_len(), even(enc.len())),
        );
    }
    if c.s == Some(60) {
        let _ = (v.earliest(), v.latest());
        return;
    }
    let (we, wl) = dt_bounds(&c);
    match (v.earliest(), v.latest()) {
        (Ok(e), Ok(l)) => {
            check_precise("earliest", &e, we, c.tz_q, &txt, obs);
            check_precise("latest", &l, wl, c.tz_q, &txt, obs);
            if let Err(er) = v.range() {
                obs.fail(
                    format!("C12:range() of a valid date-time fails:{}", if matches!(c.frac, Some((_, 6))) { "precise" } else { "partial" }),
                    format!("{txt}: {er}"),
                );
            }
        }
        (e, l) => obs.fail("C12:bounds of a valid partial date-time fail", format!("{txt}: {e:?} {l:?}")),
    }
}

#[derive(Clone, Debug, Serialize, Deserialize)]
pub struct RangeCase {
    a: DtCase,
    b: DtCase,
    /// 0 "A-B", 1 "A-", 2 "-B"
    form: u8,
    /// 0 date range, 1 time range, 2 date-time range
    kind: u8,
    parser: u8,
    /// B is the same value as A (a range of one value, e.g. two identical precise instants)
    #[serde(default)]
    same: bool,
    /// (closed date-time ranges) exactly one bound carries a UTC offset: the documented "ambiguous" case, decided
    /// by the chosen AmbiguousDtRangeParser
    #[serde(default)]
    mixed: bool,
}

fn check_range(c: &RangeCase, obs: &mut Obs) {
    let mut a = dt_norm(c.a.clone());
    let mut b = dt_norm(if c.same { c.a.clone() } else { c.b.clone() });
    obs.nontrivial = c.form == 0;
    if c.same {
        obs.class("A==B");
    }
    obs.class(format!("kind:{} form:{}", c.kind, c.form));
    match c.kind {
        0 => {
            // date range: only date components, no offsets
            for x in [&mut a, &mut b] {
                x.h = None;
                x.tz_q = None;
                *x = dt_norm(x.clone());
            }
            let (ae, _) = dt_bounds(&a);
            let (_, bl) = dt_bounds(&b);
            if c.form == 0 && (ae.0, ae.1, ae.2) > (bl.0, bl.1, bl.2) {
                std::mem::swap(&mut a, &mut b);
            }
            let (ae, _) = dt_bounds(&a);
            let (_, bl) = dt_bounds(&b);
            let (ta, tb) = (dt_text(&a), dt_text(&b));
            let txt = match c.form {
                0 => format!("{ta}-{tb}"),
                1 => format!("{ta}-"),
                _ => format!("-{tb}"),
            };
            match parse_date_range(txt.as_bytes()) {
                Ok(r) => {
                    let ws = if c.form != 2 { Some((ae.0, ae.1, ae.2)) } else { None };
                    let we = if c.form != 1 { Some((bl.0, bl.1, bl.2)) } else { None };
                    if r.start().map(ymd) != ws || r.end().map(ymd) != we {
                        obs.fail("C12:date range differs from (earliest A, latest B)", format!("{txt:?} -> {r:?}, want {ws:?}..{we:?}"));
                    }
                }
                Err(e) => obs.fail("C12:valid date range rejected", format!("{txt:?}: {e}")),
            }
        }
        1 => {
            // time range: hour is required
            for x in [&mut a, &mut b] {
                if x.h.is_none() {
                    x.h = Some(12);
                }
                if x.s == Some(60) {
                    x.s = Some(59);
                }
            }
            let tm = |x: &DtCase| time_model(x.h.unwrap(), x.mi_eff(), x.s_eff(), x.frac_eff());
            if c.form == 0 && tm(&a).0 > tm(&b).1 {
                std::mem::swap(&mut a, &mut b);
            }
            let txt_of = |x: &DtCase| {
                let mut t = format!("{:02}", x.h.unwrap());
                if let Some(m) = x.mi_eff() {
                    t.push_str(&format!("{m:02}"));
                    if let Some(s) = x.s_eff() {
                        t.push_str(&format!("{s:02}"));
                        if let Some((f, p)) = x.frac_eff() {
                            t.push_str(&format!(".{:0width$}", f, width = p as usize));
                        }
                    }
                }
                t
            };
            let (ta, tb) = (txt_of(&a), txt_of(&b));
            let txt = match c.form {
                0 => format!("{ta}-{tb}"),
                1 => format!("{ta}-"),
                _ => format!("-{tb}"),
            };
            match parse_time_range(txt.as_bytes()) {
                Ok(r) => {
                    let ws = if c.form != 2 { Some(tm(&a).0) } else { None };
                    let we = if c.form != 1 { Some(tm(&b).1) } else { None };
                    if r.start().map(hmsf) != ws || r.end().map(hmsf) != we {
                        obs.fail("C12:time range differs from (earliest A, latest B)", format!("{txt:?} -> {r:?}, want {ws:?}..{we:?}"));
                    }
                }
                Err(e) => obs.fail("C12:valid time range rejected", format!("{txt:?}: {e}")),
            }
        }
        _ => {
            // date-time range: full dates (>= 8 digits) so that offsets cannot be mistaken for dates; both
            // bounds share the same time-zone kind (mixed bounds are the documented "ambiguous" case)
            for x in [&mut a, &mut b] {
                if x.mo.is_none() {
                    x.mo = Some(6);
                }
                if x.d.is_none() {
                    x.d = Some(15);
                }
                if x.s == Some(60) {
                    x.s = Some(59);
                }
                *x = dt_norm(x.clone());
            }
            if c.mixed && c.form == 0 && !c.same {
                // exactly one bound with an offset
                match (a.tz_q, b.tz_q) {
                    (Some(_), Some(_)) => {
                        if c.a.y % 2 == 0 {
                            a.tz_q = None
                        } else {
                            b.tz_q = None
                        }
                    }
                    (None, None) => {
                        let q = Some((c.b.y as i32 * 7 + c.a.y as i32) % 105 - 48);
                        if c.a.y % 2 == 0 {
                            a.tz_q = q
                        } else {
                            b.tz_q = q
                        }
                    }
                    _ => {}
                }
                // ordered by the local (wall clock) bounds, which is what all three documented policies compare
                if dt_bounds(&a).0 > dt_bounds(&b).1 {
                    std::mem::swap(&mut a, &mut b);
                }
                let (ta, tb) = (dt_text(&a), dt_text(&b));
                let txt = format!("{ta}-{tb}");
                let pname = ["FailOnAmbiguousRange", "ToKnownTimeZone", "IgnoreTimeZone"][(c.parser % 3) as usize];
                let which = if a.tz_q.is_some() { "offset-on-lower-bound" } else { "offset-on-upper-bound" };
                obs.class(format!("mixed-time-zone-kinds:{pname}:{which}"));
                let first_dash_class = txt.matches('-').count() == 2 && a.tz_q.map(|q| q < 0).unwrap_or(false) && c.parser % 3 != 0;
                let r = match c.parser % 3 {
                    0 => parse_datetime_range_custom::<FailOnAmbiguousRange>(txt.as_bytes()),
                    1 => parse_datetime_range_custom::<ToKnownTimeZone>(txt.as_bytes()),
                    _ => parse_datetime_range_custom::<IgnoreTimeZone>(txt.as_bytes()),
                };
                let (we, wl) = (dt_bounds(&a).0, dt_bounds(&b).1);
                let q = a.tz_q.or(b.tz_q).unwrap_or(0) * 900;
                let mut fails: Vec<(String, String)> = vec![];
                match (c.parser % 3, r) {
                    (0, Err(_)) => {}
                    (0, Ok(r)) => fails.push((format!("C12:ambiguous date-time range accepted by FailOnAmbiguousRange:{which}"), format!("{txt:?} -> {r:?}"))),
                    (1, Ok(DateTimeRange::TimeZone { start, end })) => {
                        let g = |d: &chrono::DateTime<FixedOffset>| (ndt_tuple(&d.naive_local()), d.offset().local_minus_utc());
                        if start.as_ref().map(g) != Some((we, q)) || end.as_ref().map(g) != Some((wl, q)) {
                            fails.push((format!("C12:mixed date-time range differs from (earliest A, latest B) in the known time zone:ToKnownTimeZone:{which}"), format!("{txt:?} -> {start:?}..{end:?}, want {we:?}..{wl:?} at offset {q}s")));
                        }
                    }
                    (2, Ok(DateTimeRange::Naive { start, end })) => {
                        if start.as_ref().map(ndt_tuple) != Some(we) || end.as_ref().map(ndt_tuple) != Some(wl) {
                            fails.push((format!("C12:mixed date-time range differs from (earliest A, latest B) with the offset discarded:IgnoreTimeZone:{which}"), format!("{txt:?} -> {start:?}..{end:?}, want {we:?}..{wl:?}")));
                        }
                    }
                    (_, Ok(other)) => fails.push((format!("C12:mixed date-time range parsed into the wrong kind of range:{pname}:{which}"), format!("{txt:?} -> {other:?}"))),
                    (_, Err(e)) => fails.push((format!("C12:valid mixed date-time range rejected:{pname}:{which}"), format!("{txt:?}: {e}"))),
                }
                for (sig, detail) in fails {
                    if first_dash_class {
                        obs.fail("C12:date-time range with a West offset in the lower bound split at the first dash", format!("[{pname}] {detail} ({sig})"));
                    } else {
                        obs.fail(sig, detail);
                    }
                }
                return;
            }
            b.tz_q = match (a.tz_q, b.tz_q) {
                (None, _) => None,
                (Some(q), None) => Some(q),
                (Some(_), Some(q)) => Some(q),
            };
            let inst = |t: (i32, u32, u32, u32, u32, u32, u32), q: Option<i32>| -> Option<i64> {
                let n = NaiveDate::from_ymd_opt(t.0, t.1, t.2)?.and_hms_micro_opt(t.3, t.4, t.5, t.6)?;
                Some(n.and_utc().timestamp_micros() - q.unwrap_or(0) as i64 * 900 * 1_000_000)
            };
            let ia = inst(dt_bounds(&a).0, a.tz_q);
            let ib = inst(dt_bounds(&b).1, b.tz_q);
            if c.form == 0 {
                if let (Some(x), Some(y)) = (ia, ib) {
                    if x > y {
                        std::mem::swap(&mut a, &mut b);
                    }
                }
            }
            let (ta, tb) = (dt_text(&a), dt_text(&b));
            let txt = match c.form {
                0 => format!("{ta}-{tb}"),
                1 => format!("{ta}-"),
                _ => format!("-{tb}"),
            };
            let pname = ["FailOnAmbiguousRange", "ToKnownTimeZone", "IgnoreTimeZone"][(c.parser % 3) as usize];
            let qual = format!(":{}-dashes:{pname}", txt.matches('-').count());
            // one root cause, one signature: text with exactly two dashes whose lower bound carries the West
            // offset may be split at the first dash (parse_datetime_partial ignores text after an offset)
            let first_dash_class = c.form == 0 && txt.matches('-').count() == 2 && a.tz_q.map(|q| q < 0).unwrap_or(false) && c.parser % 3 != 0;
            let mut local = Obs::default();
            let obs_outer = obs;
            let obs = &mut local;
            let r = match c.parser % 3 {
                0 => parse_datetime_range_custom::<FailOnAmbiguousRange>(txt.as_bytes()),
                1 => parse_datetime_range_custom::<ToKnownTimeZone>(txt.as_bytes()),
                _ => parse_datetime_range_custom::<IgnoreTimeZone>(txt.as_bytes()),
            };
            let we = dt_bounds(&a).0;
            let wl = dt_bounds(&b).1;
            match r {
                Ok(DateTimeRange::Naive { start, end }) => {
                    if a.tz_q.is_some() && c.form != 2 || b.tz_q.is_some() && c.form != 1 {
                        obs.fail(format!("C12:date-time range lost its time zone{qual}"), format!("{txt:?}"));
                    } else {
                        let ws = if c.form != 2 { Some(we) } else { None };
                        let wn = if c.form != 1 { Some(wl) } else { None };
                        if start.as_ref().map(ndt_tuple) != ws || end.as_ref().map(ndt_tuple) != wn {
                            obs.fail(format!("C12:date-time range differs from (earliest A, latest B){qual}"), format!("{txt:?} -> {start:?}..{end:?}, want {ws:?}..{wn:?}"));
                        }
                    }
                }
                Ok(DateTimeRange::TimeZone { start, end }) => {
                    let ws = if c.form != 2 { Some((we, a.tz_q.unwrap_or(0) * 900)) } else { None };
                    let wn = if c.form != 1 { Some((wl, b.tz_q.unwrap_or(0) * 900)) } else { None };
                    let g = |d: &chrono::DateTime<FixedOffset>| (ndt_tuple(&d.naive_local()), d.offset().local_minus_utc());
                    if start.as_ref().map(g) != ws || end.as_ref().map(g) != wn {
                        obs.fail(format!("C12:date-time range differs from (earliest A, latest B):with-offset{qual}"), format!("{txt:?} -> {start:?}..{end:?}, want {ws:?}..{wn:?}"));
                    }
                }
                Err(e) => obs.fail(
                    format!("C12:valid date-time range rejected:{}{qual}", if a.tz_q.is_some() || b.tz_q.is_some() { "with-offset" } else { "naive" }),
                    format!("{txt:?}: {e}"),
                ),
            }
            for (sig, detail) in local.viols {
                if first_dash_class {
                    obs_outer.fail("C12:date-time range with a West offset in the lower bound split at the first dash", format!("[{pname}] {detail} ({sig})"));
                } else {
                    obs_outer.fail(sig, detail);
                }
            }
        }
    }
}

impl DtCase {
    fn mi_eff(&self) -> Option<u8> {
        self.mi
    }
    fn s_eff(&self) -> Option<u8> {
        if self.mi.is_some() {
            self.s
        } else {
            None
        }
    }
    fn frac_eff(&self) -> Option<(u32, u8)> {
        if self.s_eff().is_some() {
            self.frac.map(|(f, p)| (f % 10u32.pow(p as u32), p))
        } else {
            None
        }
    }
}

fn dt_strategy() -> BoxedStrategy<DtCase> {
    (
        prop_oneof![3 => 0u16..10000, 1 => prop_oneof![Just(0u16), Just(1), Just(1582), Just(1900), Just(2000), Just(2024), Just(9999)]],
        proptest::option::weighted(0.85, 1u8..=12),
        proptest::option::weighted(0.85, 1u8..=31),
        proptest::option::weighted(0.8, 0u8..24),
        proptest::option::weighted(0.8, 0u8..60),
        proptest::option::weighted(0.8, prop_oneof![20 => 0u8..60, 1 => Just(60u8)]),
        proptest::option::weighted(0.6, (any::<u32>(), 1u8..=6)),
        proptest::option::weighted(0.5, -48i32..=56),
    )
        .prop_map(|(y, mo, d, h, mi, s, frac, tz_q)| DtCase { y, mo, d, h, mi, s, frac, tz_q })
        .boxed()
}

pub fn run(ctx: &Ctx) {
    ctx.assume("date-time ranges are parsed only with FailOnAmbiguousRange / ToKnownTimeZone / IgnoreTimeZone: the default parser reads the machine's local time zone");
    // years: thorough = all 10 000; quick = boundary years fully + a seed-derived sample
    let mut years: Vec<u16> = vec![0, 1, 2, 3, 4, 100, 400, 1582, 1899, 1900, 1901, 1902, 1903, 1904, 1999, 2000, 2001, 2023, 2024, 2100, 9998, 9999];
    let exhaustive_years = ctx.tier == crate::engine::Tier::Thorough;
    if exhaustive_years {
        years = (0..10000).collect();
    } else {
        let mut x = ctx.seed.wrapping_mul(0x9E37_79B9_7F4A_7C15) | 1;
        for _ in 0..600 {
            x ^= x << 13;
            x ^= x >> 7;
            x ^= x << 17;
            years.push((x % 10000) as u16);
        }
        years.sort();
        years.dedup();
    }
    ctx.run_enum(
        "dates",
        "every partial date of the enumerated years at year / month / day precision (all 31 day numbers, so impossible days are included): text == DICOM form, parses back equal (parse_date_partial and from_str), encoded length == calculate_byte_len (1-3 values), earliest/latest == reference calendar (month lengths, leap years), impossible days: bounds are errors; thorough tier enumerates all 10 000 years (exhaustive), quick tier the boundary years plus ~600 seeded years",
        years.into_iter().map(|year| YearCase { year }).collect(),
        exhaustive_years,
        check_year,
    );
    let mut x = ctx.seed.wrapping_add(0xABCDEF).wrapping_mul(0x2545_F491_4F6C_DD1D) | 1;
    let hours: Vec<HourCase> = (0u8..24)
        .map(|hour| {
            let fracs = (0..6)
                .map(|_| {
                    x ^= x << 13;
                    x ^= x >> 7;
                    x ^= x << 17;
                    (x % 1_000_000) as u32
                })
                .collect();
            HourCase { hour, fracs }
        })
        .collect();
    ctx.run_enum(
        "times",
        "exhaustive over all hour / hour-minute / hour-minute-second(0..=60) values; fractions of precision 1-6 with boundary (0, 1, 10^p-1) and seeded values: text == DICOM form, parses back equal, length == calculate_byte_len, earliest/latest == model (missing components 0 / 59 / 999999, fraction scaled to microseconds), leap second: no panic",
        hours,
        true,
        check_hour,
    );
    ctx.run_prop(
        "datetimes",
        "random partial date-times (any precision from year to 6-digit fraction, leap seconds, UTC offsets -12:00..+14:00 in quarter hours) built with the typed constructors: to_encoded == DICOM text, parses back equal, length == calculate_byte_len, earliest/latest == model with the offset preserved; non-trivial = at least month precision",
        dt_strategy,
        ctx.cases(60_000, 1_500_000),
        check_dt,
    );
    ctx.run_prop(
        "ranges",
        "range texts A-B, A-, -B for dates, times and date-times (full dates for date-times so the text is unambiguous; A ordered before B): parsed range == (earliest A, latest B), open ends respected; date-time bounds share the time-zone kind, except in ~30% of closed date-time ranges where exactly one bound carries an offset and the result must follow the chosen policy's documentation (FailOnAmbiguousRange: error; ToKnownTimeZone: both bounds in the known offset; IgnoreTimeZone: naive range of the local values); non-trivial = closed range",
        || {
            (dt_strategy(), dt_strategy(), 0u8..3, 0u8..3, 0u8..3, proptest::bool::weighted(0.2), proptest::bool::weighted(0.3))
                .prop_map(|(a, b, form, kind, parser, same, mixed)| RangeCase { a, b, form, kind, parser, same, mixed })
                .boxed()
        },
        ctx.cases(40_000, 800_000),
        check_range,
    );
}
