//! C35 — image import and export tools round-trip pixel values.
use crate::engine::{Ctx, Obs};
use crate::ulpeer;
use proptest::prelude::*;
use refimpl::ds::{self, Elem, LenMode, PVal, ParseOpts, Ts, Val};
use serde::{Deserialize, Serialize};
use std::process::{Command, Stdio};

#[derive(Clone, Debug, Serialize, Deserialize)]
pub struct Case {
    pub width: u16,
    pub height: u16,
    /// 0 = L8, 1 = L16, 2 = RGB8, 3 = RGB16
    pub color: u8,
    /// samples (one u16 per sample; only the low byte is used for 8-bit images)
    pub samples: Vec<u16>,
    /// transfer syntax of the base file: 0 implicit LE, 1 explicit LE, 2 explicit BE
    pub base_ts: u8,
    /// stale image attributes in the base file
    pub stale_frames: Option<u16>,
    pub stale_planar: Option<u16>,
    pub stale_signed: bool,
    pub stale_dims: Option<(u16, u16)>,
    pub with_rescale: bool,
    pub base_has_pixels: bool,
}

fn run_tool(root: &std::path::Path, name: &str, args: &[&std::ffi::OsStr], cwd: &std::path::Path) -> Result<(i32, String), String> {
    let out = Command::new(ulpeer::tool(root, name)).args(args).current_dir(cwd).stdin(Stdio::null()).output().map_err(|e| format!("cannot run {name}: {e}"))?;
    let mut text = String::from_utf8_lossy(&out.stderr).to_string();
    text.push_str(&String::from_utf8_lossy(&out.stdout));
    let tail: String = text.lines().rev().take(4).collect::<Vec<_>>().join(" | ");
    Ok((out.status.code().unwrap_or(-99), tail))
}

fn us(g: u16, e: u16, v: u16) -> Elem {
    Elem { g, e, vr: "US".into(), v: Val::U16(vec![v]) }
}
fn txt(g: u16, e: u16, vr: &str, v: &str) -> Elem {
    Elem { g, e, vr: vr.into(), v: Val::Strs(vec![v.into()]) }
}

fn check(root: &std::path::Path, c: &Case, obs: &mut Obs) {
    let (w, h) = (c.width as usize, c.height as usize);
    let (spp, bits): (usize, usize) = match c.color % 4 {
        0 => (1, 8),
        1 => (1, 16),
        2 => (3, 8),
        _ => (3, 16),
    };
    let n = w * h * spp;
    let samples: Vec<u16> = (0..n).map(|i| c.samples[i % c.samples.len().max(1)].wrapping_add((i / c.samples.len().max(1)) as u16 * 257)).collect();
    let label = ["L8", "L16", "RGB8", "RGB16"][c.color as usize % 4];
    obs.class(label);
    obs.nontrivial = w * h > 1;
    let dir = match tempfile::Builder::new().prefix("vcheck-c35-").tempdir() {
        Ok(d) => d,
        Err(e) => {
            obs.skip(e.to_string());
            return;
        }
    };
    // the PNG
    let png_path = dir.path().join("in.png");
    {
        let f = std::fs::File::create(&png_path).unwrap();
        let mut enc = png::Encoder::new(std::io::BufWriter::new(f), w as u32, h as u32);
        enc.set_color(if spp == 1 { png::ColorType::Grayscale } else { png::ColorType::Rgb });
        enc.set_depth(if bits == 8 { png::BitDepth::Eight } else { png::BitDepth::Sixteen });
        let data: Vec<u8> = if bits == 8 { samples.iter().map(|s| *s as u8).collect() } else { samples.iter().flat_map(|s| s.to_be_bytes()).collect() };
        let mut wr = enc.write_header().expect("HARNESS: png header");
        wr.write_image_data(&data).expect("HARNESS: png data");
    }
    // pixel values as DICOM stores them (little endian)
    let want: Vec<u8> = if bits == 8 { samples.iter().map(|s| *s as u8).collect() } else { samples.iter().flat_map(|s| s.to_le_bytes()).collect() };
    // the base file
    let mut elems = vec![
        txt(8, 0x16, "UI", "1.2.840.10008.5.1.4.1.1.7"),
        txt(8, 0x18, "UI", "1.2.3.4.5.6.7.8"),
        txt(8, 0x60, "CS", "OT"),
        txt(0x10, 0x10, "PN", "Doe^John"),
        us(0x28, 0x02, 1),
        txt(0x28, 0x04, "CS", "MONOCHROME1"),
    ];
    if let Some(p) = c.stale_planar {
        elems.push(us(0x28, 0x06, p % 2));
    }
    if let Some(f) = c.stale_frames {
        elems.push(txt(0x28, 0x08, "IS", &(f % 50 + 2).to_string()));
    }
    let (sr, sc) = c.stale_dims.unwrap_or((2, 2));
    elems.push(us(0x28, 0x10, sr.max(1)));
    elems.push(us(0x28, 0x11, sc.max(1)));
    elems.push(us(0x28, 0x100, 16));
    elems.push(us(0x28, 0x101, 12));
    elems.push(us(0x28, 0x102, 11));
    elems.push(us(0x28, 0x103, c.stale_signed as u16));
    if c.with_rescale {
        elems.push(txt(0x28, 0x1050, "DS", "40"));
        elems.push(txt(0x28, 0x1051, "DS", "80"));
        elems.push(txt(0x28, 0x1052, "DS", "-1024"));
        elems.push(txt(0x28, 0x1053, "DS", "2"));
    }
    if c.base_has_pixels {
        elems.push(Elem { g: 0x7FE0, e: 0x10, vr: "OW".into(), v: Val::U16(vec![1, 2, 3, 4]) });
    }
    elems.sort_by_key(|e| (e.g, e.e));
    let (rts, uid) = [(Ts::ImplicitLE, "1.2.840.10008.1.2"), (Ts::ExplicitLE, "1.2.840.10008.1.2.1"), (Ts::ExplicitBE, "1.2.840.10008.1.2.2")][c.base_ts as usize % 3];
    obs.class(format!("base:{uid}"));
    let base = refimpl::file::build_file(uid, "1.2.840.10008.5.1.4.1.1.7", "1.2.3.4.5.6.7.8", &ds::encode_ds(&elems, rts, LenMode::AsFlagged), true);
    let base_path = dir.path().join("base.dcm");
    std::fs::write(&base_path, base).unwrap();
    let out_dcm = dir.path().join("out.dcm");
    // 1. import
    let desc = format!("{w}x{h} {label}");
    match run_tool(root, "dicom-fromimage", &[base_path.as_os_str(), png_path.as_os_str(), "-o".as_ref(), out_dcm.as_os_str()], dir.path()) {
        Ok((0, _)) => {}
        Ok((code, tail)) => {
            obs.fail("C35:dicom-fromimage fails on a plain PNG", format!("{desc}: exit {code}: {tail}"));
            return;
        }
        Err(e) => {
            obs.fail("HARNESS-PANIC@c35:tool", e);
            return;
        }
    }
    let bytes = match std::fs::read(&out_dcm) {
        Ok(b) => b,
        Err(e) => {
            obs.fail("C35:dicom-fromimage wrote no output file", e.to_string());
            return;
        }
    };
    let parsed = refimpl::file::parse_file_head(&bytes).and_then(|h| {
        let ts = match h.transfer_syntax.trim_end_matches('\0') {
            "1.2.840.10008.1.2" => Ts::ImplicitLE,
            "1.2.840.10008.1.2.2" => Ts::ExplicitBE,
            _ => Ts::ExplicitLE,
        };
        ds::parse_strict(&bytes[h.dataset_offset..], &ParseOpts { ts, sq_tags: None, require_even: true, require_ascending: true })
    });
    let parsed = match parsed {
        Ok(p) => p,
        Err(e) => {
            obs.fail("C35:file written by dicom-fromimage is not accepted by the reference parser", format!("{desc}: {e}"));
            return;
        }
    };
    let u16_of = |t: (u16, u16)| parsed.iter().find(|e| e.tag == t).and_then(|e| if let PVal::Bytes(b) = &e.value { Some(u16::from_le_bytes([*b.first()?, *b.get(1)?])) } else { None });
    let attrs = [((0x28, 0x10), h as u16, "Rows"), ((0x28, 0x11), w as u16, "Columns"), ((0x28, 0x02), spp as u16, "Samples per Pixel"), ((0x28, 0x100), bits as u16, "Bits Allocated"), ((0x28, 0x101), bits as u16, "Bits Stored"), ((0x28, 0x103), 0, "Pixel Representation")];
    for (t, v, name) in attrs {
        if u16_of(t) != Some(v) {
            obs.fail(format!("C35:imported file has a wrong {name}"), format!("{desc}: {:?} vs {v}", u16_of(t)));
        }
    }
    if parsed.iter().any(|e| e.tag == (0x28, 0x08)) {
        obs.fail("C35:stale Number of Frames kept by dicom-fromimage", desc.clone());
    }
    match parsed.iter().find(|e| e.tag == (0x7FE0, 0x10)).map(|e| &e.value) {
        Some(PVal::Bytes(b)) => {
            let got = if b.len() == want.len() + 1 && want.len() % 2 == 1 { &b[..want.len()] } else { &b[..] };
            if got != &want[..] {
                obs.fail(format!("C35:imported pixel data differs from the image:{label}"), format!("{desc}: {} bytes vs {}", b.len(), want.len()));
                return;
            }
        }
        other => {
            obs.fail("C35:imported file has no native pixel data", format!("{desc}: {}", if other.is_some() { "encapsulated" } else { "missing" }));
            return;
        }
    }
    if obs.failed() {
        return;
    }
    // 2. export, unwrapped
    let raw_out = dir.path().join("raw.data");
    match run_tool(root, "dicom-toimage", &[out_dcm.as_os_str(), "--unwrap".as_ref(), "-o".as_ref(), raw_out.as_os_str()], dir.path()) {
        Ok((0, _)) => match std::fs::read(&raw_out) {
            Ok(b) => {
                // exactly the frame: the even-length padding of the stored element is not pixel data
                if b != want {
                    obs.fail(format!("C35:unwrapped pixel data differs from the image:{label}"), format!("{desc}: {} bytes vs {}", b.len(), want.len()));
                }
            }
            Err(e) => obs.fail("C35:dicom-toimage --unwrap wrote no output", e.to_string()),
        },
        Ok((code, tail)) => obs.fail("C35:dicom-toimage --unwrap fails on an imported image", format!("{desc}: exit {code}: {tail}")),
        Err(e) => obs.fail("HARNESS-PANIC@c35:tool", e),
    }
    // 3. export decoded (RGB: no intensity transforms apply)
    if spp == 3 {
        let png_out = dir.path().join("out.png");
        match run_tool(root, "dicom-toimage", &[out_dcm.as_os_str(), "-o".as_ref(), png_out.as_os_str()], dir.path()) {
            Ok((0, _)) => {
                let dec = std::fs::File::open(&png_out).map_err(|e| e.to_string()).and_then(|f| {
                    let d = png::Decoder::new(std::io::BufReader::new(f));
                    let mut r = d.read_info().map_err(|e| e.to_string())?;
                    let mut buf = vec![0u8; r.output_buffer_size().unwrap_or(0)];
                    let info = r.next_frame(&mut buf).map_err(|e| e.to_string())?;
                    buf.truncate(info.buffer_size());
                    Ok((info.width, info.height, info.color_type, info.bit_depth, buf))
                });
                match dec {
                    Ok((ow, oh, ct, bd, buf)) => {
                        if (ow as usize, oh as usize) != (w, h) {
                            obs.fail("C35:exported image has different dimensions", format!("{desc}: {ow}x{oh}"));
                        } else if ct != png::ColorType::Rgb || (bd == png::BitDepth::Sixteen) != (bits == 16) {
                            obs.fail("C35:exported image has a different colour type or depth", format!("{desc}: {ct:?} {bd:?}"));
                        } else {
                            let exp: Vec<u8> = if bits == 8 { samples.iter().map(|s| *s as u8).collect() } else { samples.iter().flat_map(|s| s.to_be_bytes()).collect() };
                            if buf != exp {
                                let i = buf.iter().zip(&exp).position(|(a, b)| a != b).unwrap_or(0);
                                obs.fail(format!("C35:exported RGB image differs from the imported one:{label}"), format!("{desc}: first difference at byte {i}"));
                            }
                        }
                    }
                    Err(e) => obs.fail("C35:exported PNG cannot be decoded", format!("{desc}: {e}")),
                }
            }
            Ok((code, tail)) => obs.fail("C35:dicom-toimage fails on an imported RGB image", format!("{desc}: exit {code}: {tail}")),
            Err(e) => obs.fail("HARNESS-PANIC@c35:tool", e),
        }
    }
}

pub fn run(ctx: &Ctx) {
    let root = ctx.root.clone();
    let thorough = matches!(ctx.tier, crate::engine::Tier::Thorough);
    ctx.assume("the real dicom-fromimage and dicom-toimage binaries are built from /repo's working tree by ./check; PNG files are written and read with the png crate");
    ctx.run_prop(
        "fromimage_toimage",
        "random PNG images (1-64 px per side, thorough up to 300; L8, L16, RGB8, RGB16) imported with the real dicom-fromimage into a reference-encoded base file (Implicit VR LE / Explicit VR LE / Explicit VR BE, with stale Number of Frames, Planar Configuration, signed Pixel Representation, dimensions, rescale/window attributes and old pixel data) and exported with the real dicom-toimage; oracle: the imported file (parsed by the reference parser) has the PNG's Rows/Columns/Samples/Bits and pixel bytes equal to the PNG samples in little-endian order, no stale Number of Frames; `toimage --unwrap` yields the same bytes; for RGB the exported PNG decodes to identical dimensions, depth and samples; non-trivial = more than one pixel",
        move || {
            let dim = if thorough { prop_oneof![8 => 1u16..=64, 1 => 65u16..=300].boxed() } else { (1u16..=64).boxed() };
            (
                (dim.clone(), dim, 0u8..4, proptest::collection::vec(any::<u16>(), 1..64), 0u8..3),
                (proptest::option::of(any::<u16>()), proptest::option::of(any::<u16>()), any::<bool>(), proptest::option::of((1u16..600, 1u16..600)), any::<bool>(), any::<bool>()),
            )
                .prop_map(|((width, height, color, samples, base_ts), (stale_frames, stale_planar, stale_signed, stale_dims, with_rescale, base_has_pixels))| Case { width, height, color, samples, base_ts, stale_frames, stale_planar, stale_signed, stale_dims, with_rescale, base_has_pixels })
                .boxed()
        },
        ctx.cases(400, 6_000),
        move |c: &Case, obs: &mut Obs| check(&root, c, obs),
    );
}
