//! C09 — file meta group integrity and preamble handling.
use crate::conv::{obj_matches, split_mm, to_obj};
use crate::engine::{Ctx, Obs};
use crate::gen::{self, DsCfg};
use crate::opsir::{ActIr, OpIr};
use crate::props::c01::ts_of;
use dicom_core::ops::ApplyOp;
use dicom_object::meta::{FileMetaTable, FileMetaTableBuilder};
use dicom_object::{FileDicomObject, InMemDicomObject};
use proptest::prelude::*;
use refimpl::ds::{Elem, LenMode, Val};
use serde::{Deserialize, Serialize};

#[derive(Clone, Debug, Serialize, Deserialize)]
pub struct MetaIr {
    pub sop_class: String,
    pub sop_instance: String,
    pub ts: String,
    pub impl_class: Option<String>,
    pub impl_version: Option<String>,
    pub source_ae: Option<String>,
    pub sending_ae: Option<String>,
    pub receiving_ae: Option<String>,
    pub private_creator: Option<String>,
    pub private_info: Option<Vec<u8>>,
}

#[derive(Clone, Debug, Serialize, Deserialize)]
pub struct Case {
    pub meta: MetaIr,
    pub ops: Vec<OpIr>,
}

fn build(m: &MetaIr) -> Result<FileMetaTable, String> {
    let mut b = FileMetaTableBuilder::new()
        .media_storage_sop_class_uid(m.sop_class.clone())
        .media_storage_sop_instance_uid(m.sop_instance.clone())
        .transfer_syntax(m.ts.clone());
    if let Some(v) = &m.impl_class {
        b = b.implementation_class_uid(v.clone());
    }
    if let Some(v) = &m.impl_version {
        b = b.implementation_version_name(v.clone());
    }
    if let Some(v) = &m.source_ae {
        b = b.source_application_entity_title(v.clone());
    }
    if let Some(v) = &m.sending_ae {
        b = b.sending_application_entity_title(v.clone());
    }
    if let Some(v) = &m.receiving_ae {
        b = b.receiving_application_entity_title(v.clone());
    }
    if let Some(v) = &m.private_creator {
        b = b.private_information_creator_uid(v.clone());
    }
    if let Some(v) = &m.private_info {
        b = b.private_information(v.clone());
    }
    b.build().map_err(|e| e.to_string())
}

/// group integrity: recorded length == bytes after the group length element; group parses (reference
/// parser, exact group length); reading it back gives an equal table
fn integrity(t: &FileMetaTable, when: &str, obs: &mut Obs) -> bool {
    let mut out = vec![];
    if let Err(e) = t.write(&mut out) {
        obs.fail(format!("C09:meta group cannot be written:{when}"), e.to_string());
        return false;
    }
    if out.len() < 12 {
        obs.fail(format!("C09:meta group too short:{when}"), format!("{} bytes", out.len()));
        return false;
    }
    let actual = (out.len() - 12) as u32;
    if t.information_group_length != actual {
        obs.fail(
            format!("C09:group length differs from the encoded group:{when}"),
            format!("recorded {}, {} bytes follow the group length element", t.information_group_length, actual),
        );
        return false;
    }
    // independent structural check (even lengths, Explicit VR LE, ascending tags, group length on the wire)
    let mut file = vec![0u8; 128];
    file.extend_from_slice(b"DICM");
    file.extend_from_slice(&out);
    match refimpl::file::parse_file_head(&file) {
        Ok(h) => {
            if h.declared_group_length as usize != h.actual_group_length {
                obs.fail(format!("C09:group length on the wire is wrong:{when}"), format!("{} vs {}", h.declared_group_length, h.actual_group_length));
                return false;
            }
        }
        Err(e) => {
            obs.fail(format!("C09:written meta group rejected by the reference parser:{when}"), e);
            return false;
        }
    }
    let mut src = b"DICM".to_vec();
    src.extend_from_slice(&out);
    match FileMetaTable::from_reader(&src[..]) {
        Ok(back) => {
            if back != *t {
                obs.fail(format!("C09:meta group read back differs:{when}"), format!("{back:?} vs {t:?}").chars().take(600).collect::<String>());
                return false;
            }
        }
        Err(e) => {
            obs.fail(format!("C09:written meta group cannot be read back:{when}"), e.to_string());
            return false;
        }
    }
    true
}

fn check(c: &Case, obs: &mut Obs) {
    obs.nontrivial = !c.ops.is_empty() || c.meta.private_info.is_some();
    let mut t = match build(&c.meta) {
        Ok(t) => t,
        Err(e) => {
            obs.fail("C09:builder rejects a complete table", e);
            return;
        }
    };
    if !integrity(&t, "after-build", obs) {
        return;
    }
    for (i, op) in c.ops.iter().enumerate() {
        let before = t.clone();
        let r = t.apply(op.to_op());
        obs.extra_evals += 1;
        match r {
            Ok(()) => {
                obs.class(format!("op-ok:{}", op.act.name()));
                if !integrity(&t, &format!("after-{}", op.act.name()), obs) {
                    obs.viols.last_mut().map(|v| v.1.push_str(&format!("; step {i}: {op:?}")));
                    return;
                }
            }
            Err(_) => {
                obs.class(format!("op-err:{}", op.act.name()));
                // a refused operation leaves the table as it was
                let same = format!("{:?}", t) == format!("{:?}", before);
                if !same {
                    obs.fail(format!("C09:failed operation changed the table:{}", op.act.name()), format!("step {i}: {op:?}: {before:?} -> {t:?}").chars().take(600).collect::<String>());
                    return;
                }
            }
        }
    }
}

#[derive(Clone, Debug, Serialize, Deserialize)]
pub struct FileCase {
    pub ds: Vec<Elem>,
    pub ts: u8,
    pub meta: MetaIr,
}

fn check_file(c: &FileCase, obs: &mut Obs) {
    let (ts, enc, tsname) = ts_of(c.ts);
    obs.nontrivial = crate::props::c01::nontrivial(&c.ds);
    obs.class(format!("ts:{tsname}"));
    let mut m = c.meta.clone();
    m.ts = ts.uid().to_string();
    let table = match build(&m) {
        Ok(t) => t,
        Err(e) => {
            obs.fail("C09:builder rejects a complete table", e);
            return;
        }
    };
    let file = to_obj(&c.ds, None).with_exact_meta(table);
    let mut bytes = vec![];
    if let Err(e) = file.write_all(&mut bytes) {
        obs.fail("C09:write_all fails", e.to_string());
        return;
    }
    if bytes.len() < 132 || &bytes[128..132] != b"DICM" {
        obs.fail("C09:written file lacks preamble + DICM", format!("{} bytes", bytes.len()));
        return;
    }
    let dir = tempfile::tempdir().expect("tempdir");
    let p1 = dir.path().join("with.dcm");
    let p2 = dir.path().join("without.dcm");
    std::fs::write(&p1, &bytes).unwrap();
    std::fs::write(&p2, &bytes[128..]).unwrap();
    let readers: Vec<(&str, Result<FileDicomObject<InMemDicomObject>, String>)> = vec![
        ("from_reader+preamble", FileDicomObject::from_reader(&bytes[..]).map_err(|e| format!("{e}: {:?}", crate::props::c01::snafu_chain(&e)))),
        ("from_reader-no-preamble", FileDicomObject::from_reader(&bytes[128..]).map_err(|e| format!("{e}: {:?}", crate::props::c01::snafu_chain(&e)))),
        ("open_file+preamble", dicom_object::open_file(&p1).map_err(|e| format!("{e}: {:?}", crate::props::c01::snafu_chain(&e)))),
        ("open_file-no-preamble", dicom_object::open_file(&p2).map_err(|e| format!("{e}: {:?}", crate::props::c01::snafu_chain(&e)))),
    ];
    for (how, r) in readers {
        obs.extra_evals += 1;
        match r {
            Ok(o) => {
                if o.meta() != file.meta() {
                    obs.fail(format!("C09:file meta differs after reading:{how}"), format!("{:?} vs {:?}", o.meta(), file.meta()).chars().take(500).collect::<String>());
                }
                if let Err(mm) = obj_matches(&o, &c.ds, enc, LenMode::AllUndefined, "") {
                    let (k, d) = split_mm(&mm);
                    obs.fail(format!("C09:data set differs after reading:{how}:{k}"), format!("[{tsname}] {d}"));
                }
            }
            Err(e) => obs.fail(format!("C09:complete file cannot be read:{how}"), format!("[{tsname}] {e}")),
        }
    }
}

fn uid_like() -> BoxedStrategy<String> {
    prop_oneof![
        6 => "[1-9][0-9]{0,3}(\\.(0|[1-9][0-9]{0,4})){1,9}".prop_map(|mut s| { s.truncate(64); s.trim_end_matches('.').to_string() }),
        1 => "[1-9][0-9]{0,3}(\\.(0|[1-9][0-9]{0,4})){1,9}".prop_map(|mut s| { s.truncate(62); let mut s = s.trim_end_matches('.').to_string(); if s.len() % 2 == 1 { s.push('\0'); } s }),
    ]
    .boxed()
}

fn meta_ir() -> BoxedStrategy<MetaIr> {
    (
        uid_like(),
        uid_like(),
        prop_oneof![Just("1.2.840.10008.1.2.1".to_string()), Just("1.2.840.10008.1.2".to_string()), uid_like()],
        proptest::option::of(uid_like()),
        proptest::option::of("[A-Za-z0-9_. -]{0,16}"),
        proptest::option::of("[A-Za-z0-9_-]{1,16}"),
        proptest::option::of("[A-Za-z0-9_-]{1,16}"),
        proptest::option::of("[A-Za-z0-9_ -]{1,16}"),
        proptest::option::of(uid_like()),
        proptest::option::of(proptest::collection::vec(any::<u8>(), 0..300)),
    )
        .prop_map(|(sop_class, sop_instance, ts, impl_class, impl_version, source_ae, sending_ae, receiving_ae, private_creator, private_info)| MetaIr {
            sop_class,
            sop_instance,
            ts,
            impl_class,
            impl_version,
            source_ae,
            sending_ae,
            receiving_ae,
            private_creator,
            private_info,
        })
        .boxed()
}

fn meta_op() -> BoxedStrategy<OpIr> {
    let tag = prop_oneof![
        Just((2u16, 0x0002u16)),
        Just((2, 0x0003)),
        Just((2, 0x0010)),
        Just((2, 0x0012)),
        Just((2, 0x0013)),
        Just((2, 0x0016)),
        Just((2, 0x0017)),
        Just((2, 0x0018)),
        Just((2, 0x0100)),
        Just((2, 0x0102)),
        Just((2, 0x0001)),
        Just((2, 0x0000)),
        Just((0x0010, 0x0010)),
    ];
    let text = prop_oneof!["[A-Za-z0-9.]{0,20}", "[0-9.]{1,30}", Just(String::new())];
    let act = prop_oneof![
        Just(ActIr::Remove),
        Just(ActIr::Empty),
        proptest::sample::select(vec!["UI", "LO", "OB", "SQ"]).prop_map(|v| ActIr::SetVr(v.to_string())),
        text.clone().prop_map(|s| ActIr::Set(Val::Str(s))),
        proptest::collection::vec(any::<u16>(), 0..3).prop_map(|v| ActIr::Set(Val::U16(v))),
        text.clone().prop_map(ActIr::SetStr),
        text.clone().prop_map(|s| ActIr::SetIfMissing(Val::Strs(vec![s]))),
        text.clone().prop_map(ActIr::SetStrIfMissing),
        text.clone().prop_map(|s| ActIr::Replace(Val::Str(s))),
        text.clone().prop_map(ActIr::ReplaceStr),
        text.prop_map(ActIr::PushStr),
        any::<i32>().prop_map(ActIr::PushI32),
        any::<u16>().prop_map(ActIr::PushU16),
        any::<u64>().prop_map(ActIr::PushF64),
        (0usize..3).prop_map(ActIr::Truncate),
    ];
    (tag, act, any::<bool>()).prop_map(|(leaf, act, nested)| OpIr { path: if nested && leaf.0 != 2 { vec![((0x0008, 0x1140), 0)] } else { vec![] }, leaf, act }).boxed()
}

pub fn run(ctx: &Ctx) {
    ctx.run_prop(
        "meta_table_histories",
        "FileMetaTableBuilder with random UID / AE / SH strings (odd and even length, already NUL-padded or not), every subset of the optional fields, private information of 0-300 bytes, then a history of 0-12 attribute operations on group-0002 tags (every action kind, incl. ones that must be refused); oracle after build and after every successful operation: recorded group length == bytes of the written group after the group length element (also checked by the reference parser) and from_reader(\"DICM\"+bytes) == table; a refused operation leaves the table unchanged; non-trivial = at least one operation or private information present",
        || (meta_ir(), proptest::collection::vec(meta_op(), 0..13)).prop_map(|(meta, ops)| Case { meta, ops }).boxed(),
        ctx.cases(20_000, 400_000),
        check,
    );
    ctx.run_prop(
        "files_with_and_without_preamble",
        "G-DS data set + generated meta table written with write_all in the 4 data-set syntaxes; read back four ways (byte source with the 128-byte preamble, byte source without it, open_file on both variants in a temp dir): same meta table and a data set ≈ the original; non-trivial = C01 rule",
        || {
            (gen::dataset(DsCfg { max_depth: 2, max_top: 6, pixel_seq: true }), 0u8..4, meta_ir())
                .prop_map(|(mut ds, ts, meta)| {
                    if ts == 2 {
                        ds.retain(|e| !e.v.is_pix());
                    }
                    FileCase { ds, ts, meta }
                })
                .boxed()
        },
        ctx.cases(4_000, 80_000),
        check_file,
    );
}
