//! C16 — every registered transfer syntax is described consistently (exhaustive, two feature sets).
use crate::engine::{Ctx, Obs};
use serde::{Deserialize, Serialize};
use serde_json::Value;
use std::collections::{BTreeMap, BTreeSet};

#[derive(Clone, Debug, Serialize, Deserialize)]
pub struct EntryCase {
    build: String,
    entry: Value,
}

fn b(v: &Value, k: &str) -> bool {
    v[k].as_bool().unwrap_or(false)
}

fn check_entry(c: &EntryCase, obs: &mut Obs) {
    obs.nontrivial = true;
    let e = &c.entry;
    let uid = e["uid"].as_str().unwrap_or("");
    let bd = &c.build;
    let kind = e["codec"]["kind"].as_str().unwrap_or("");
    let (adapter, reader, writer) = (b(&e["codec"], "adapter"), b(&e["codec"], "reader"), b(&e["codec"], "writer"));
    obs.class(format!("{bd}:codec:{kind}"));
    // lookups with and without trailing NULs / spaces
    for l in e["lookups"].as_array().cloned().unwrap_or_default() {
        obs.extra_evals += 1;
        if l["found_uid"].as_str() != Some(uid) {
            obs.fail(
                format!("C16:lookup by UID fails:{}", if l["suffix"].as_str() == Some("") { "plain" } else { "padded" }),
                format!("[{bd}] {uid:?} + {:?} -> {:?}", l["suffix"], l["found_uid"]),
            );
        }
    }
    // capability queries restated from their documentation, against the codec actually offered
    let want: [(&str, bool); 7] = [
        ("is_fully_supported", kind == "none" || (kind == "dataset" && adapter) || (kind == "encapsulated" && reader && writer)),
        ("is_codec_free", kind == "none"),
        ("is_unsupported", kind == "dataset" && !adapter),
        ("is_encapsulated_pixel_data", kind == "encapsulated"),
        ("is_unsupported_pixel_encapsulation", (kind == "dataset" && !adapter) || (kind == "encapsulated" && !reader && !writer)),
        ("can_decode_all", kind == "none" || (kind == "dataset" && adapter) || (kind == "encapsulated" && reader)),
        ("can_decode_dataset", kind == "none" || (kind == "dataset" && adapter) || kind == "encapsulated"),
    ];
    for (q, w) in want {
        obs.extra_evals += 1;
        if b(e, q) != w {
            obs.fail(format!("C16:capability query disagrees with the codec offered:{q}"), format!("[{bd}] {uid}: {q}={} but codec {:?}", b(e, q), e["codec"]));
        }
    }
    if b(e, "pixel_data_reader_some") != (kind == "encapsulated" && reader) || b(e, "pixel_data_writer_some") != (kind == "encapsulated" && writer) {
        obs.fail("C16:pixel_data_reader/writer disagree with the codec", format!("[{bd}] {uid}: {:?}", e));
    }
    if b(e, "can_decode_dataset") && !(b(e, "decoder_some") && b(e, "encoder_some")) {
        obs.fail("C16:data sets declared decodable but no data set decoder/encoder", format!("[{bd}] {uid}"));
    }
    // behavioural: exactly the expected wire syntax
    let und: Vec<String> = e["decoder_understands"].as_array().cloned().unwrap_or_default().iter().filter_map(|x| x.as_str().map(|s| s.to_string())).collect();
    let wr: Vec<String> = e["encoder_writes"].as_array().cloned().unwrap_or_default().iter().filter_map(|x| x.as_str().map(|s| s.to_string())).collect();
    let expect = match uid {
        "1.2.840.10008.1.2" => "ImplicitLE",
        "1.2.840.10008.1.2.2" => "ExplicitBE",
        _ => "ExplicitLE",
    };
    if b(e, "decoder_some") && und != vec![expect.to_string()] {
        obs.fail(
            format!("C16:data set decoder reads the wrong wire syntax:{expect}"),
            format!("[{bd}] {uid}: decoder understands {und:?}, expected only {expect}"),
        );
    }
    if b(e, "encoder_some") && wr != vec![expect.to_string()] {
        obs.fail(format!("C16:data set encoder writes the wrong wire syntax:{expect}"), format!("[{bd}] {uid}: encoder writes {wr:?}, expected {expect}"));
    }
    let end = e["endianness"].as_str().unwrap_or("");
    if (end == "big") != (uid == "1.2.840.10008.1.2.2") {
        obs.fail("C16:endianness() disagrees", format!("[{bd}] {uid}: {end}"));
    }
}

#[derive(Clone, Debug, Serialize, Deserialize)]
pub struct GlobalCase {
    build: String,
    uids: Vec<String>,
    count: u64,
    const_uids: Vec<(String, String)>,
    unknown_lookup: Option<String>,
    empty_lookup: Option<String>,
    expectations: Vec<(String, String, bool)>,
    facts: BTreeMap<String, Value>,
}

fn check_global(c: &GlobalCase, obs: &mut Obs) {
    obs.nontrivial = true;
    let bd = &c.build;
    let set: BTreeSet<&String> = c.uids.iter().collect();
    if set.len() != c.uids.len() {
        let mut seen = BTreeSet::new();
        let dup: Vec<&String> = c.uids.iter().filter(|u| !seen.insert(*u)).collect();
        obs.fail("C16:duplicate UID in the registry", format!("[{bd}] {dup:?}"));
    }
    if c.count as usize != c.uids.len() {
        obs.fail("C16:registry count differs from the number of entries iterated", format!("[{bd}] {} vs {}", c.count, c.uids.len()));
    }
    for (name, uid) in &c.const_uids {
        obs.extra_evals += 1;
        if !set.contains(uid) {
            obs.fail("C16:transfer syntax constant is not registered", format!("[{bd}] {name} = {uid}"));
        }
    }
    for u in &c.uids {
        if !c.const_uids.iter().any(|(_, x)| x == u) {
            obs.fail("C16:registered transfer syntax has no constant in entries.rs", format!("[{bd}] {u}"));
        }
    }
    if c.unknown_lookup.is_some() || c.empty_lookup.is_some() {
        obs.fail("C16:lookup of an unregistered UID returns an entry", format!("[{bd}] {:?} {:?}", c.unknown_lookup, c.empty_lookup));
    }
    // feature-set expectations (which codecs a build must / must not offer)
    for (uid, q, want) in &c.expectations {
        obs.extra_evals += 1;
        match c.facts.get(uid) {
            Some(e) => {
                if b(e, q) != *want {
                    obs.fail(format!("C16:feature set expectation fails:{bd}:{q}"), format!("{uid}: {q} = {} (want {want})", b(e, q)));
                }
            }
            None => obs.fail("C16:expected transfer syntax missing from the registry", format!("[{bd}] {uid}")),
        }
    }
}

/// (constant name, uid) pairs from the source text of entries.rs
fn parse_entries_rs(src: &str) -> Vec<(String, String)> {
    let mut out = vec![];
    let mut cur: Option<String> = None;
    let mut buf = String::new();
    for line in src.lines() {
        let t = line.trim();
        if let Some(rest) = t.strip_prefix("pub const ") {
            if let Some((name, _)) = rest.split_once(':') {
                cur = Some(name.trim().to_string());
                buf.clear();
            }
        }
        if cur.is_some() {
            buf.push_str(t);
            if t.ends_with(';') {
                // first string literal that looks like a UID
                let mut uid = None;
                let mut parts = buf.split('"');
                parts.next();
                while let Some(s) = parts.next() {
                    if s.starts_with("1.2.840.10008") && s.chars().all(|c| c.is_ascii_digit() || c == '.') {
                        uid = Some(s.to_string());
                        break;
                    }
                    parts.next();
                }
                if let (Some(n), Some(u)) = (cur.take(), uid) {
                    out.push((n, u));
                }
            }
        }
    }
    out
}

pub fn run(ctx: &Ctx) {
    let with = probe::registry::describe();
    let exe = ctx.root.join("harness/target/release/regprobe");
    let without: Value = match std::process::Command::new(&exe).arg("registry").output() {
        Ok(o) if o.status.success() => serde_json::from_slice(&o.stdout).unwrap_or(Value::Null),
        other => {
            ctx.infra(format!("cannot run {}: {other:?}", exe.display()));
            return;
        }
    };
    let src = std::fs::read_to_string("/repo/transfer-syntax-registry/src/entries.rs").unwrap_or_default();
    let consts = parse_entries_rs(&src);
    if consts.len() < 30 {
        ctx.infra(format!("only {} constants parsed from entries.rs", consts.len()));
    }
    let mut entry_cases = vec![];
    let mut globals = vec![];
    for (bd, j) in [("features:rle+jpeg+deflate", &with), ("features:none", &without)] {
        let entries = j["entries"].as_array().cloned().unwrap_or_default();
        let mut facts = BTreeMap::new();
        for e in &entries {
            facts.insert(e["uid"].as_str().unwrap_or("").to_string(), e.clone());
            entry_cases.push(EntryCase { build: bd.to_string(), entry: e.clone() });
        }
        let f = bd.contains("rle");
        let expectations: Vec<(String, String, bool)> = vec![
            ("1.2.840.10008.1.2".into(), "is_codec_free".into(), true),
            ("1.2.840.10008.1.2.1".into(), "is_codec_free".into(), true),
            ("1.2.840.10008.1.2.2".into(), "is_codec_free".into(), true),
            ("1.2.840.10008.1.2.1.99".into(), "is_fully_supported".into(), f),
            ("1.2.840.10008.1.2.1.99".into(), "is_unsupported".into(), !f),
            ("1.2.840.10008.1.2.5".into(), "can_decode_all".into(), f),
            ("1.2.840.10008.1.2.4.50".into(), "is_fully_supported".into(), f),
            ("1.2.840.10008.1.2.4.70".into(), "can_decode_all".into(), f),
            ("1.2.840.10008.1.2.1.98".into(), "is_fully_supported".into(), true),
        ];
        globals.push(GlobalCase {
            build: bd.to_string(),
            uids: entries.iter().map(|e| e["uid"].as_str().unwrap_or("").to_string()).collect(),
            count: j["count"].as_u64().unwrap_or(0),
            const_uids: consts.clone(),
            unknown_lookup: j["unknown_uid_lookup"].as_str().map(|s| s.to_string()),
            empty_lookup: j["empty_lookup"].as_str().map(|s| s.to_string()),
            expectations,
            facts,
        });
    }
    ctx.assume("the list of constants comes from the source text of transfer-syntax-registry/src/entries.rs; the feature-less registry is probed by the separate regprobe binary (cargo feature unification would otherwise enable the codecs)");
    ctx.run_enum(
        "entries",
        "exhaustive over TransferSyntaxRegistry.iter() in two builds (rle+jpeg+deflate; no codec features): lookup by UID with and without trailing NULs/spaces, capability queries vs the codec actually offered, decodable data sets => decoder and encoder, behavioural wire syntax of decoder and encoder (reference-encoded header), endianness()",
        entry_cases,
        true,
        check_entry,
    );
    ctx.run_enum(
        "registry",
        "per build: UIDs unique, count consistent, every constant of entries.rs registered and vice versa, unregistered/empty UID not found, the codecs each feature set must (not) offer",
        globals,
        true,
        check_global,
    );
}
