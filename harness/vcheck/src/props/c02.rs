//! C02 — reading and rewriting a canonical stream reproduces it byte for byte.
use crate::engine::{Ctx, Obs};
use crate::gen::{self, DsCfg};
use crate::props::c01::{snafu_chain, ts_of};
use dicom_object::InMemDicomObject;
use dicom_parser::dataset::write::{DataSetWriterOptions, ExplicitLengthSqItemStrategy};
use proptest::prelude::*;
use refimpl::ds::{self, Elem, Item, LenMode, Ts, Val};
use serde::{Deserialize, Serialize};

#[derive(Clone, Debug, Serialize, Deserialize)]
pub struct Case {
    pub ds: Vec<Elem>,
    /// 0 implicit LE, 1 explicit LE, 2 explicit BE
    pub ts: u8,
}

/// canonical form of the statement: text only (no typed dates / binary numbers in text VRs)
pub fn canonical(elems: &[Elem]) -> Vec<Elem> {
    elems
        .iter()
        .map(|e| {
            let v = match &e.v {
                Val::Dates(t) | Val::Times(t) | Val::DateTimes(t) => Val::Strs(t.clone()),
                Val::I32(x) if ds::is_text_vr(&e.vr) => Val::Strs(x.iter().map(|v| v.to_string()).collect()),
                Val::F64(x) if ds::is_text_vr(&e.vr) => {
                    Val::Strs(x.iter().map(|b| format!("{}", f64::from_bits(*b))).collect())
                }
                Val::Seq { items, explicit } => Val::Seq {
                    items: items.iter().map(|i| Item { elems: canonical(&i.elems), explicit: i.explicit }).collect(),
                    explicit: *explicit,
                },
                v => v.clone(),
            };
            Elem { g: e.g, e: e.e, vr: e.vr.clone(), v }
        })
        .collect()
}

fn first_diff(a: &[u8], b: &[u8]) -> usize {
    a.iter().zip(b).position(|(x, y)| x != y).unwrap_or(a.len().min(b.len()))
}

/// the element (path) of the reference stream that encloses offset `off`
fn enclosing(elems: &[Elem], ts: Ts, mode: LenMode, off: usize) -> String {
    let mut pos = 0usize;
    for e in elems {
        let mut buf = vec![];
        ds::encode_elem(&mut buf, e, ts, mode);
        if off < pos + buf.len() {
            return format!("({:04X},{:04X}) {} at stream offset {} (+{})", e.g, e.e, e.vr, pos, off - pos);
        }
        pos += buf.len();
    }
    "end of stream".into()
}

fn check(c: &Case, obs: &mut Obs) {
    let (ts, enc, tsname) = ts_of(c.ts);
    let mut ir = canonical(&c.ds);
    if enc == Ts::ExplicitBE {
        ir.retain(|e| !e.v.is_pix());
    }
    let mut has_nested = false;
    let mut has_explicit = false;
    ds::walk(
        &ir,
        &mut |e, d| {
            if let Val::Seq { items, explicit } = &e.v {
                has_nested |= d >= 1 || !items.is_empty();
                has_explicit |= *explicit || items.iter().any(|i| i.explicit);
            }
        },
        0,
    );
    obs.nontrivial = has_nested || has_explicit;
    obs.class(format!("ts:{tsname}"));
    if has_explicit {
        obs.class("has-explicit-length");
    }
    crate::props::c01::classify(&ir, obs);

    for (mode, mname) in [(LenMode::AsFlagged, "as-flagged"), (LenMode::AllUndefined, "all-undefined")] {
        let bytes = ds::encode_ds(&ir, enc, mode);
        let obj = match InMemDicomObject::read_dataset_with_ts(&bytes[..], &ts) {
            Ok(o) => o,
            Err(e) => {
                obs.fail(
                    "C02:canonical stream rejected by reader",
                    format!("[{tsname}/{mname}] {e}: {:?}", snafu_chain(&e)),
                );
                return;
            }
        };
        let mut writers: Vec<(&str, Vec<u8>, Result<(), String>)> = vec![];
        {
            let mut out = vec![];
            let r = obj
                .write_dataset_with_ts_options(
                    &mut out,
                    &ts,
                    DataSetWriterOptions::default()
                        .explicit_length_sq_item_strategy(ExplicitLengthSqItemStrategy::NoChange),
                )
                .map_err(|e| format!("{e}: {:?}", snafu_chain(&e)));
            writers.push(("no-change", out, r));
        }
        if mode == LenMode::AllUndefined {
            let mut out = vec![];
            let r = obj.write_dataset_with_ts(&mut out, &ts).map_err(|e| format!("{e}: {:?}", snafu_chain(&e)));
            writers.push(("default", out, r));
            let mut out = vec![];
            let r = obj
                .write_dataset_with_ts_options(&mut out, &ts, DataSetWriterOptions::default())
                .map_err(|e| format!("{e}: {:?}", snafu_chain(&e)));
            writers.push(("default-options", out, r));
        }
        for (w, out, r) in writers {
            obs.extra_evals += 1;
            if let Err(e) = r {
                obs.fail(format!("C02:rewrite failed:{w}"), format!("[{tsname}/{mname}] {e}"));
                continue;
            }
            if out != bytes {
                let off = first_diff(&out, &bytes);
                obs.fail(
                    format!("C02:rewrite differs:{mname}:{w}"),
                    format!(
                        "[{tsname}] first difference at offset {off} (input {} bytes, output {} bytes), in {}; input[..]={:02x?} output[..]={:02x?}",
                        bytes.len(),
                        out.len(),
                        enclosing(&ir, enc, mode, off),
                        &bytes[off.saturating_sub(4)..(off + 12).min(bytes.len())],
                        &out[off.saturating_sub(4).min(out.len())..(off + 12).min(out.len())],
                    ),
                );
            }
        }
    }
}

pub fn run(ctx: &Ctx) {
    ctx.assume("the input streams come only from the independent reference encoder (harness/refimpl), never from dicom-rs");
    ctx.run_prop(
        "reread_rewrite",
        "canonical G-DS data sets (text-only values, even lengths, default repertoire) encoded by the reference encoder in {Implicit LE, Explicit LE, Explicit BE} with per-sequence/per-item explicit-or-undefined flags, plus the all-undefined variant; oracle: read + write(NoChange) == input bytes; all-undefined also with default writer settings (both entry points); non-trivial = contains a nested/non-empty sequence or an explicit length",
        || {
            (gen::dataset(DsCfg::default()), 0u8..3).prop_map(|(ds, ts)| Case { ds, ts }).boxed()
        },
        ctx.cases(30_000, 800_000),
        check,
    );
}
