//! C30 — association release and abort follow the upper-layer protocol.
//!
//! The harness plays one peer itself over a raw socket from a generated script; the other peer is
//! dicom-rs (ClientAssociation sync/async driven by a generated API script, or the real
//! dicom-storescp binary).  The recorded exchange and the API results are judged by rules derived
//! from the PS3.8 state machine (Sta6-Sta13).
use crate::engine::{Ctx, Obs};
use crate::props::c26::{payload, runtime};
use crate::ulpeer::{self, kind, RawPeer, Recv};
use dicom_ul::association::client::ClientAssociationOptions;
use dicom_ul::pdu::{PDataValue, PDataValueType, Pdu};
use proptest::prelude::*;
use refimpl::pdu::{PcProposed, PcResult, PduIr, Pdv, UserItem};
use serde::{Deserialize, Serialize};
use std::net::{TcpListener, TcpStream};
use std::time::Duration;

#[derive(Clone, Debug, Serialize, Deserialize, PartialEq)]
pub enum PeerOp {
    PData(u16),
    ReleaseRq,
    ReleaseRp,
    Abort,
    Unknown(u8),
    /// the first bytes of a P-DATA PDU only
    Half,
    Close,
    /// wait for one PDU from dicom-rs (up to 300 ms)
    Wait,
    /// a short pause
    Pause(u8),
    /// (storescp script) a C-STORE command followed by a non-last data fragment only
    PartialStore(u16),
}

#[derive(Clone, Debug, Serialize, Deserialize, PartialEq)]
pub enum ApiOp {
    Send(u16),
    Receive,
    Release,
    Abort,
}

#[derive(Clone, Debug, Serialize, Deserialize)]
pub struct ClientCase {
    /// false: dicom-rs is the requestor (ClientAssociation) and the harness plays the acceptor;
    /// true: dicom-rs is the acceptor (ServerAssociation) and the harness plays the requestor
    #[serde(default)]
    pub server: bool,
    /// strict(false) on the dicom-rs side (lenient PDU reading); default strict
    #[serde(default)]
    pub lenient: bool,
    pub async_client: bool,
    pub api: Vec<ApiOp>,
    pub peer: Vec<PeerOp>,
}

const VERIFICATION: &str = "1.2.840.10008.1.1";
const IMPLICIT: &str = "1.2.840.10008.1.2";

fn peer_pdu(op: &PeerOp, i: usize) -> Option<PduIr> {
    Some(match op {
        PeerOp::PData(n) | PeerOp::PartialStore(n) => PduIr::PData { pdvs: vec![Pdv { pc_id: 1, command: false, last: true, data: payload(*n as u32 % 3000, i as u8) }] },
        PeerOp::ReleaseRq => PduIr::ReleaseRq,
        PeerOp::ReleaseRp => PduIr::ReleaseRp,
        PeerOp::Abort => PduIr::Abort { source: 0, reason: 0 },
        PeerOp::Unknown(t) => PduIr::Unknown { ty: 0x08 + t % 0x40, data: vec![1, 2, 3, 4] },
        _ => return None,
    })
}

#[derive(Debug, Clone, PartialEq)]
enum ApiResult {
    Sent,
    SendErr(String),
    Received(String, Vec<u8>),
    ReceiveErr(String),
    Released,
    ReleaseErr(String),
    Aborted,
    AbortErr(String),
}

fn ul_kind(p: &Pdu) -> (String, Vec<u8>) {
    match p {
        Pdu::PData { data } => ("P-DATA-TF".into(), data.iter().flat_map(|v| v.data.clone()).collect()),
        Pdu::ReleaseRQ => ("A-RELEASE-RQ".into(), vec![]),
        Pdu::ReleaseRP => ("A-RELEASE-RP".into(), vec![]),
        Pdu::AbortRQ { .. } => ("A-ABORT".into(), vec![]),
        Pdu::Unknown { .. } => ("unknown".into(), vec![]),
        Pdu::AssociationRQ(_) => ("A-ASSOCIATE-RQ".into(), vec![]),
        Pdu::AssociationAC(_) => ("A-ASSOCIATE-AC".into(), vec![]),
        Pdu::AssociationRJ(_) => ("A-ASSOCIATE-RJ".into(), vec![]),
    }
}

/// run the API script on a dicom-rs client association connected to `addr`
fn run_client(c: &ClientCase, addr: std::net::SocketAddr) -> Result<Vec<ApiResult>, String> {
    let t = Duration::from_millis(400);
    let o = ClientAssociationOptions::new().calling_ae_title("VERIF-SCU").called_ae_title("VERIF-SCP").with_presentation_context(VERIFICATION, vec![IMPLICIT]).strict(!c.lenient).read_timeout(t).write_timeout(t).connection_timeout(t);
    let mut out = vec![];
    let data_pdu = |n: u16, i: usize| Pdu::PData { data: vec![PDataValue { presentation_context_id: 1, value_type: PDataValueType::Data, is_last: true, data: payload(n as u32 % 3000, 100 + i as u8) }] };
    let es = |e: dicom_ul::association::Error| crate::img::errs(&e);
    if c.async_client {
        runtime().block_on(async {
            let mut a = Some(o.establish_async(addr).await.map_err(|e| crate::img::errs(&e))?);
            for (i, op) in c.api.iter().enumerate() {
                let Some(assoc) = a.as_mut() else { break };
                match op {
                    ApiOp::Send(n) => out.push(match assoc.send(&data_pdu(*n, i)).await {
                        Ok(()) => ApiResult::Sent,
                        Err(e) => ApiResult::SendErr(es(e)),
                    }),
                    ApiOp::Receive => out.push(match assoc.receive().await {
                        Ok(p) => {
                            let (k, d) = ul_kind(&p);
                            ApiResult::Received(k, d)
                        }
                        Err(e) => ApiResult::ReceiveErr(es(e)),
                    }),
                    ApiOp::Release => {
                        out.push(match a.take().unwrap().release().await {
                            Ok(()) => ApiResult::Released,
                            Err(e) => ApiResult::ReleaseErr(es(e)),
                        });
                    }
                    ApiOp::Abort => {
                        out.push(match a.take().unwrap().abort().await {
                            Ok(()) => ApiResult::Aborted,
                            Err(e) => ApiResult::AbortErr(es(e)),
                        });
                    }
                }
            }
            drop(a);
            Ok::<_, String>(())
        })?;
    } else {
        let mut a = Some(o.establish(addr).map_err(|e| crate::img::errs(&e))?);
        for (i, op) in c.api.iter().enumerate() {
            let Some(assoc) = a.as_mut() else { break };
            match op {
                ApiOp::Send(n) => out.push(match assoc.send(&data_pdu(*n, i)) {
                    Ok(()) => ApiResult::Sent,
                    Err(e) => ApiResult::SendErr(es(e)),
                }),
                ApiOp::Receive => out.push(match assoc.receive() {
                    Ok(p) => {
                        let (k, d) = ul_kind(&p);
                        ApiResult::Received(k, d)
                    }
                    Err(e) => ApiResult::ReceiveErr(es(e)),
                }),
                ApiOp::Release => out.push(match a.take().unwrap().release() {
                    Ok(()) => ApiResult::Released,
                    Err(e) => ApiResult::ReleaseErr(es(e)),
                }),
                ApiOp::Abort => out.push(match a.take().unwrap().abort() {
                    Ok(()) => ApiResult::Aborted,
                    Err(e) => ApiResult::AbortErr(es(e)),
                }),
            }
        }
        drop(a);
    }
    Ok(out)
}

/// run the API script on a dicom-rs server association accepted from `listener`.
/// The synchronous ServerAssociation has no release(): there a Release call is carried out as an abort.
fn run_server(c: &ClientCase, listener: &TcpListener) -> Result<Vec<ApiResult>, String> {
    use dicom_ul::association::server::ServerAssociationOptions;
    let t = Duration::from_millis(400);
    let o = ServerAssociationOptions::new().accept_any().ae_title("VERIF-SCP").with_abstract_syntax(VERIFICATION).strict(!c.lenient).read_timeout(t).write_timeout(t);
    let mut out = vec![];
    let data_pdu = |n: u16, i: usize| Pdu::PData { data: vec![PDataValue { presentation_context_id: 1, value_type: PDataValueType::Data, is_last: true, data: payload(n as u32 % 3000, 100 + i as u8) }] };
    let es = |e: dicom_ul::association::Error| crate::img::errs(&e);
    let (sock, _) = listener.accept().map_err(|e| format!("accept: {e}"))?;
    if c.async_client {
        runtime().block_on(async {
            sock.set_nonblocking(true).map_err(|e| e.to_string())?;
            let sock = tokio::net::TcpStream::from_std(sock).map_err(|e| e.to_string())?;
            let mut a = Some(o.establish_async(sock).await.map_err(|e| crate::img::errs(&e))?);
            for (i, op) in c.api.iter().enumerate() {
                let Some(assoc) = a.as_mut() else { break };
                match op {
                    ApiOp::Send(n) => out.push(match assoc.send(&data_pdu(*n, i)).await {
                        Ok(()) => ApiResult::Sent,
                        Err(e) => ApiResult::SendErr(es(e)),
                    }),
                    ApiOp::Receive => out.push(match assoc.receive().await {
                        Ok(p) => {
                            let (k, d) = ul_kind(&p);
                            ApiResult::Received(k, d)
                        }
                        Err(e) => ApiResult::ReceiveErr(es(e)),
                    }),
                    ApiOp::Release => out.push(match a.take().unwrap().release().await {
                        Ok(()) => ApiResult::Released,
                        Err(e) => ApiResult::ReleaseErr(es(e)),
                    }),
                    ApiOp::Abort => out.push(match a.take().unwrap().abort().await {
                        Ok(()) => ApiResult::Aborted,
                        Err(e) => ApiResult::AbortErr(es(e)),
                    }),
                }
            }
            drop(a);
            Ok::<_, String>(())
        })?;
    } else {
        let mut a = Some(o.establish(sock).map_err(|e| crate::img::errs(&e))?);
        for (i, op) in c.api.iter().enumerate() {
            let Some(assoc) = a.as_mut() else { break };
            match op {
                ApiOp::Send(n) => out.push(match assoc.send(&data_pdu(*n, i)) {
                    Ok(()) => ApiResult::Sent,
                    Err(e) => ApiResult::SendErr(es(e)),
                }),
                ApiOp::Receive => out.push(match assoc.receive() {
                    Ok(p) => {
                        let (k, d) = ul_kind(&p);
                        ApiResult::Received(k, d)
                    }
                    Err(e) => ApiResult::ReceiveErr(es(e)),
                }),
                ApiOp::Release | ApiOp::Abort => out.push(match a.take().unwrap().abort() {
                    Ok(()) => ApiResult::Aborted,
                    Err(e) => ApiResult::AbortErr(es(e)),
                }),
            }
        }
        drop(a);
    }
    Ok(out)
}

/// the error text of a socket time-out (sync: EAGAIN / WouldBlock, async: the Timeout variant)
fn is_timeout(e: &str) -> bool {
    let l = e.to_lowercase();
    l.contains("timed out") || l.contains("timeout") || l.contains("temporarily unavailable") || l.contains("os error 11") || l.contains("wouldblock")
}

fn check_client(c: &ClientCase, obs: &mut Obs) {
    let listener = match TcpListener::bind("127.0.0.1:0") {
        Ok(l) => l,
        Err(e) => {
            obs.skip(format!("bind: {e}"));
            return;
        }
    };
    let addr = listener.local_addr().unwrap();
    obs.class(match (c.server, c.async_client) {
        (false, true) => "async-client",
        (false, false) => "sync-client",
        (true, true) => "async-server",
        (true, false) => "sync-server",
    });
    if c.lenient {
        obs.class("strict(false)");
    }
    // the scripted peer (acceptor for a dicom-rs requestor, requestor for a dicom-rs acceptor)
    let client_done = std::sync::atomic::AtomicBool::new(false);
    let client_done = &client_done;
    let listener = &listener;
    let (api_res, peer_sent, peer_got, peer_end) = std::thread::scope(|s| {
        let acceptor = s.spawn(move || {
            let mut sent: Vec<PduIr> = vec![];
            let mut got: Vec<PduIr> = vec![];
            let mut p = if c.server {
                let Ok(sock) = TcpStream::connect(addr) else { return (sent, got, "connect failed".to_string()) };
                let mut p = RawPeer::new(sock);
                let pcs = vec![PcProposed { id: 1, abstract_syntax: VERIFICATION.into(), transfer_syntaxes: vec![IMPLICIT.into()] }];
                if p.send(&ulpeer::assoc_rq("VERIF-SCP", "VERIF-SCU", pcs, 16384)).is_err() {
                    return (sent, got, "cannot send RQ".into());
                }
                match p.recv(Duration::from_secs(3)) {
                    Recv::Pdu(PduIr::AssocAc { .. }) => {}
                    other => return (sent, got, format!("no association acceptance: {other:?}")),
                }
                p
            } else {
                let Ok((sock, _)) = listener.accept() else { return (sent, got, "accept failed".to_string()) };
                let mut p = RawPeer::new(sock);
                match p.recv(Duration::from_secs(3)) {
                    Recv::Pdu(PduIr::AssocRq { .. }) => {}
                    other => return (sent, got, format!("no association request: {other:?}")),
                }
                let ac = PduIr::AssocAc { protocol_version: 1, called: "VERIF-SCP".into(), calling: "VERIF-SCU".into(), app_ctx: ulpeer::APP_CTX.into(), pcs: vec![PcResult { id: 1, reason: 0, transfer_syntax: IMPLICIT.into() }], user: vec![UserItem::MaxLength(16384), UserItem::ImplClassUid("1.2.3".into())] };
                if p.send(&ac).is_err() {
                    return (sent, got, "cannot send AC".into());
                }
                p
            };
            let mut closed = false;
            for (i, op) in c.peer.iter().enumerate() {
                match op {
                    PeerOp::Close => {
                        closed = true;
                        break;
                    }
                    PeerOp::Half => {
                        let _ = p.send_raw(&[0x04, 0, 0, 0, 0, 50, 0, 0]);
                        closed = true; // nothing sensible can follow on this stream
                        std::thread::sleep(Duration::from_millis(30));
                        break;
                    }
                    PeerOp::Wait => {
                        if let Recv::Pdu(x) = p.recv(Duration::from_millis(300)) {
                            got.push(x);
                        }
                    }
                    PeerOp::Pause(ms) => std::thread::sleep(Duration::from_millis(*ms as u64 % 20)),
                    other => {
                        let pdu = peer_pdu(other, i).unwrap();
                        if p.send(&pdu).is_ok() {
                            sent.push(pdu);
                        }
                    }
                }
            }
            if closed {
                // drain what dicom-rs sent before closing our side
                while let Recv::Pdu(x) = p.recv(Duration::from_millis(50)) {
                    got.push(x);
                }
                drop(p);
                return (sent, got, "closed by the script".to_string());
            }
            // read until dicom-rs closes the connection: the end of the stream must come within
            // 3 s of the moment the association object is gone (signalled by the API thread)
            let end;
            let mut grace: Option<std::time::Instant> = None;
            loop {
                match p.recv(Duration::from_millis(100)) {
                    Recv::Pdu(x) => got.push(x),
                    Recv::Eof => {
                        end = "eof".to_string();
                        break;
                    }
                    Recv::Timeout => {
                        if client_done.load(std::sync::atomic::Ordering::SeqCst) {
                            let g = *grace.get_or_insert_with(std::time::Instant::now);
                            if g.elapsed() > Duration::from_secs(3) {
                                end = "timeout".to_string();
                                break;
                            }
                        }
                    }
                    other => {
                        end = format!("{other:?}");
                        break;
                    }
                }
            }
            (sent, got, end)
        });
        let api = if c.server { run_server(c, listener) } else { run_client(c, addr) };
        client_done.store(true, std::sync::atomic::Ordering::SeqCst);
        let (a, b, e) = acceptor.join().unwrap_or((vec![], vec![], "acceptor thread panicked".into()));
        (api, a, b, e)
    });
    let api_res = match api_res {
        Ok(r) => r,
        Err(e) if is_timeout(&e) => {
            // the short socket time-outs of this check hit during establishment (loaded machine): inconclusive
            obs.skip(format!("association establishment timed out: {e}"));
            return;
        }
        Err(e) => {
            if c.server && e.contains("no association acceptance") {
                obs.skip(e);
                return;
            }
            obs.fail(if c.server { "C30:acceptor cannot establish an association with a conforming requestor" } else { "C30:requestor cannot establish an association with a conforming acceptor" }, e);
            return;
        }
    };
    let closed_by_script = peer_end == "closed by the script";
    let desc = || format!("dicom-rs side: {}; api script {:?} -> {:?}; acceptor script {:?}; acceptor sent {:?}, received {:?}, end {peer_end}", if c.server { "ServerAssociation (read 'acceptor' below as the scripted requestor)" } else { "ClientAssociation" }, c.api, api_res.iter().map(|r| format!("{r:?}").chars().take(40).collect::<String>()).collect::<Vec<_>>(), c.peer, peer_sent.iter().map(kind).collect::<Vec<_>>(), peer_got.iter().map(kind).collect::<Vec<_>>());
    // the k-th PDU the acceptor sent is what the k-th consuming API call sees
    let mut consumed = 0usize;
    let mut released_ok = false;
    let mut sent_by_api: Vec<&'static str> = vec![];
    let race = c.api.iter().any(|o| *o == ApiOp::Release) && c.peer.iter().any(|o| matches!(o, PeerOp::PData(_) | PeerOp::Abort | PeerOp::ReleaseRq | PeerOp::Unknown(_) | PeerOp::Close | PeerOp::Half));
    obs.nontrivial = race;
    if race {
        obs.class("release-racing-with-peer-activity");
    }
    for r in &api_res {
        match r {
            ApiResult::Sent => sent_by_api.push("P-DATA-TF"),
            ApiResult::SendErr(_) => {}
            ApiResult::Received(k, d) => {
                match peer_sent.get(consumed) {
                    Some(p) if kind(p) == k => {
                        if let PduIr::PData { pdvs } = p {
                            let want: Vec<u8> = pdvs.iter().flat_map(|v| v.data.clone()).collect();
                            if &want != d {
                                obs.fail("C30:received P-DATA differs from what the peer sent", desc());
                            }
                        }
                    }
                    other => obs.fail("C30:receive returned a PDU the peer did not send at that point", format!("got {k}, peer's PDU #{consumed} is {:?}; {}", other.map(kind), desc())),
                }
                consumed += 1;
            }
            ApiResult::ReceiveErr(_) => {
                // a time-out or a closed connection: nothing is consumed (unknown PDU types are
                // delivered as values, not as errors)
                if peer_sent.get(consumed).is_some() && !closed_by_script {
                    obs.class("receive-error-with-pdu-pending");
                }
            }
            ApiResult::Released => {
                sent_by_api.push("A-RELEASE-RQ");
                released_ok = true;
                obs.class("release-completed");
                match peer_sent.get(consumed) {
                    Some(PduIr::ReleaseRp) => {}
                    other => obs.fail("C30:release completed without a release reply from the peer", format!("the PDU answering the request was {:?}; {}", other.map(kind), desc())),
                }
                consumed += 1;
            }
            ApiResult::ReleaseErr(e) if is_timeout(e) => {
                // the reply did not come within the (short) read time-out of this check: no verdict
                sent_by_api.push("A-RELEASE-RQ?");
                obs.class("release-timed-out");
                consumed += 1;
            }
            ApiResult::ReleaseErr(_) => {
                sent_by_api.push("A-RELEASE-RQ?");
                obs.class("release-failed");
                if let Some(PduIr::ReleaseRp) = peer_sent.get(consumed) {
                    // the reply was there: the failure must come from the connection going away first
                    if !closed_by_script {
                        obs.fail("C30:release failed although the peer answered with a release reply", desc());
                    }
                }
                consumed += 1;
            }
            ApiResult::Aborted | ApiResult::AbortErr(_) => sent_by_api.push("A-ABORT?"),
        }
    }
    // what dicom-rs put on the wire: only what the API calls produce, in order, nothing after a release request or abort
    let got_kinds: Vec<&str> = peer_got.iter().map(kind).collect();
    if !closed_by_script {
        let mut expect: Vec<&str> = vec![];
        for k in &sent_by_api {
            expect.push(k.trim_end_matches('?'));
        }
        // What arrived must be, in order, what the API calls account for.  The tail may be missing:
        // when dicom-rs closes with unread input the connection is reset and the acceptor can lose
        // PDUs that were already sent (TCP semantics), and calls marked ? may have found it gone.
        let mut gi = 0;
        for k in &sent_by_api {
            let base = k.trim_end_matches('?');
            if got_kinds.get(gi) == Some(&base) {
                gi += 1;
            } else if gi >= got_kinds.len() {
                break;
            } else if !k.ends_with('?') {
                obs.fail("C30:PDUs arrived in a different order than the API calls sent them", format!("expected {expect:?}, acceptor received {got_kinds:?}; {}", desc()));
                break;
            }
        }
        if gi < got_kinds.len() && !obs.failed() {
            obs.fail("C30:dicom-rs sent a PDU no API call accounts for", format!("extra {:?}; {}", &got_kinds[gi..], desc()));
        }
        if let Some(pos) = got_kinds.iter().position(|k| *k == "A-RELEASE-RQ" || *k == "A-ABORT") {
            if pos + 1 < got_kinds.len() {
                obs.fail("C30:PDU sent after a release request or abort", format!("{got_kinds:?}; {}", desc()));
            }
        }
        if peer_end != "eof" {
            obs.fail("C30:connection not closed after the association ended", format!("acceptor saw {peer_end} instead of end of stream; {}", desc()));
        }
    }
    if released_ok && got_kinds.last() != Some(&"A-RELEASE-RQ") && !closed_by_script {
        obs.fail("C30:data followed a completed release", desc());
    }
}

// ------------------------------------------------------------------ storescp as the acceptor

#[derive(Clone, Debug, Serialize, Deserialize)]
pub struct ScpCase {
    pub non_blocking: bool,
    pub script: Vec<PeerOp>,
}

fn echo_rq(msg_id: u16) -> Vec<u8> {
    use refimpl::ds::{Elem, Val};
    let e = |e: u16, vr: &str, v: Val| Elem { g: 0, e, vr: vr.into(), v };
    ulpeer::command_set(vec![e(0x0002, "UI", Val::Strs(vec![VERIFICATION.into()])), e(0x0100, "US", Val::U16(vec![0x0030])), e(0x0110, "US", Val::U16(vec![msg_id])), e(0x0800, "US", Val::U16(vec![0x0101]))])
}

fn check_scp(root: &std::path::Path, c: &ScpCase, obs: &mut Obs) {
    let (port, _sandbox) = match ulpeer::thread_storescp(root, c.non_blocking) {
        Ok(x) => x,
        Err(e) => {
            obs.fail("HARNESS-PANIC@c30:cannot start dicom-storescp", e);
            return;
        }
    };
    obs.class(if c.non_blocking { "storescp-non-blocking" } else { "storescp-sync" });
    let t = Duration::from_secs(5);
    let mut attempt = 0;
    let mut p = loop {
        attempt += 1;
        let Ok(sock) = TcpStream::connect(("127.0.0.1", port)) else {
            ulpeer::thread_storescp_reset(c.non_blocking);
            obs.skip("cannot connect");
            return;
        };
        let mut p = RawPeer::new(sock);
        // storescp knows storage classes; propose one plus verification (refused or accepted, either is fine)
        let pcs = vec![PcProposed { id: 1, abstract_syntax: "1.2.840.10008.5.1.4.1.1.7".into(), transfer_syntaxes: vec![IMPLICIT.into()] }];
        let _ = p.send(&ulpeer::assoc_rq("STORE-SCP", "VERIF-SCU", pcs, 16384));
        match p.recv(t) {
            Recv::Pdu(PduIr::AssocAc { .. }) => break p,
            Recv::Eof | Recv::IoError(_) if attempt == 1 => continue,
            other => {
                obs.fail("C30:storescp does not accept a storage association", format!("{other:?}").chars().take(200).collect::<String>());
                return;
            }
        }
    };
    let desc = |p: &RawPeer| format!("script {:?}; exchange {:?}", c.script, p.trace);
    let mut ended = false;
    for (i, op) in c.script.iter().enumerate() {
        match op {
            PeerOp::PData(_) => {
                // a C-ECHO request: the SCP answers with one P-DATA
                let pdu = PduIr::PData { pdvs: vec![Pdv { pc_id: 1, command: true, last: true, data: echo_rq(i as u16 + 1) }] };
                if p.send(&pdu).is_err() {
                    break;
                }
                match p.recv(t) {
                    Recv::Pdu(PduIr::PData { .. }) => obs.class("echo-answered"),
                    other => {
                        obs.fail("C30:storescp does not answer a C-ECHO request during data transfer", format!("{other:?}; {}", desc(&p)).chars().take(500).collect::<String>());
                        return;
                    }
                }
            }
            PeerOp::ReleaseRq => {
                obs.nontrivial = true;
                if p.send(&PduIr::ReleaseRq).is_err() {
                    break;
                }
                match p.recv(t) {
                    Recv::Pdu(PduIr::ReleaseRp) => {}
                    other => {
                        obs.fail("C30:acceptor does not answer a release request with a release reply", format!("{other:?}; {}", desc(&p)).chars().take(500).collect::<String>());
                        return;
                    }
                }
                match p.recv(t) {
                    Recv::Eof => {}
                    other => obs.fail("C30:acceptor keeps talking or keeps the connection open after a release", format!("{other:?}; {}", desc(&p)).chars().take(500).collect::<String>()),
                }
                ended = true;
                break;
            }
            PeerOp::Abort => {
                obs.nontrivial = true;
                if p.send(&PduIr::Abort { source: 0, reason: 0 }).is_err() {
                    break;
                }
                match p.recv(t) {
                    Recv::Eof => {}
                    other => obs.fail("C30:acceptor sends a PDU or keeps the connection open after an abort", format!("{other:?}; {}", desc(&p)).chars().take(500).collect::<String>()),
                }
                ended = true;
                break;
            }
            PeerOp::ReleaseRp | PeerOp::Unknown(_) => {
                // unexpected PDUs in data transfer: whatever the SCP does, it must not answer with a release reply
                let pdu = peer_pdu(op, i).unwrap();
                if p.send(&pdu).is_err() {
                    break;
                }
                match p.recv(Duration::from_millis(150)) {
                    Recv::Pdu(PduIr::ReleaseRp) => {
                        obs.fail("C30:acceptor sends a release reply nobody asked for", desc(&p));
                        return;
                    }
                    Recv::Eof | Recv::Pdu(PduIr::Abort { .. }) => {
                        ended = true;
                        break;
                    }
                    _ => {}
                }
            }
            PeerOp::Half => {
                let _ = p.send_raw(&[0x04, 0, 0, 0, 0, 50, 0, 0]);
                ended = true;
                break;
            }
            PeerOp::Close => {
                ended = true;
                break;
            }
            PeerOp::Wait | PeerOp::Pause(_) => std::thread::sleep(Duration::from_millis(3)),
            PeerOp::PartialStore(n) => {
                // a store request whose data set never completes: nothing is to be answered,
                // and the association must still react to what follows
                obs.class("partial-store-before-next-action");
                let cmd = ulpeer::cstore_rq("1.2.840.10008.5.1.4.1.1.7", &format!("1.2.3.{}", i + 1), i as u16 + 1);
                let _ = p.send(&PduIr::PData { pdvs: vec![Pdv { pc_id: 1, command: true, last: true, data: cmd }] });
                if p.send(&PduIr::PData { pdvs: vec![Pdv { pc_id: 1, command: false, last: false, data: payload(1 + *n as u32 % 500, i as u8) }] }).is_err() {
                    break;
                }
            }
        }
    }
    let _ = ended;
    drop(p);
    // the listener must still serve the next association (no stuck handler in the single-threaded mode)
    if !c.non_blocking {
        let ok = (0..2).any(|_| {
            let Ok(sock) = TcpStream::connect(("127.0.0.1", port)) else { return false };
            let mut q = RawPeer::new(sock);
            let pcs = vec![PcProposed { id: 1, abstract_syntax: "1.2.840.10008.5.1.4.1.1.7".into(), transfer_syntaxes: vec![IMPLICIT.into()] }];
            let _ = q.send(&ulpeer::assoc_rq("STORE-SCP", "VERIF-SCU", pcs, 16384));
            let r = matches!(q.recv(Duration::from_secs(8)), Recv::Pdu(PduIr::AssocAc { .. }));
            if r {
                let _ = q.send(&PduIr::Abort { source: 0, reason: 0 });
            }
            r
        });
        if !ok {
            ulpeer::thread_storescp_reset(false);
            obs.fail("C30:acceptor no longer serves associations after the scripted exchange", format!("script {:?}; log: {}", c.script, ulpeer::thread_storescp_log_tail(false, 3)));
        }
    }
}

fn peer_ops(max: usize) -> BoxedStrategy<Vec<PeerOp>> {
    let op = prop_oneof![
        4 => any::<u16>().prop_map(PeerOp::PData),
        2 => Just(PeerOp::ReleaseRq),
        4 => Just(PeerOp::ReleaseRp),
        2 => Just(PeerOp::Abort),
        1 => any::<u8>().prop_map(PeerOp::Unknown),
        1 => Just(PeerOp::Half),
        1 => Just(PeerOp::Close),
        3 => Just(PeerOp::Wait),
        2 => any::<u8>().prop_map(PeerOp::Pause),
        2 => any::<u16>().prop_map(PeerOp::PartialStore),
    ];
    proptest::collection::vec(op, 0..max).boxed()
}

pub fn run(ctx: &Ctx) {
    ctx.assume("schedules are chosen by the generator (the harness plays one peer); the TLA+ model named in the property's quantifier text is not built (different technique family); socket time-outs only bound a run");
    ctx.run_prop(
        "client_vs_scripted_acceptor",
        "dicom-rs ClientAssociation (sync and async, strict or in ~30% strict(false)) driven by a generated API script of {send P-DATA, receive, release, abort} (1-6 calls) against an acceptor played by the harness from a generated script of {P-DATA, A-RELEASE-RQ, A-RELEASE-RP, A-ABORT, unknown PDU, half a PDU, close, wait, pause} (0-7 actions); oracle (PS3.8 Sta6-Sta13 restricted to what is observable): the k-th consuming call sees the k-th PDU the acceptor sent; release() is Ok only when the PDU answering the request is an A-RELEASE-RP and fails otherwise; dicom-rs puts on the wire exactly the PDUs its API calls account for, nothing after a release request or abort; the connection is closed when the association object is gone; non-trivial = a release racing with peer activity",
        || (any::<bool>(), proptest::collection::vec(prop_oneof![2 => any::<u16>().prop_map(ApiOp::Send), 3 => Just(ApiOp::Receive), 3 => Just(ApiOp::Release), 1 => Just(ApiOp::Abort)], 1..=6), peer_ops(8), proptest::bool::weighted(0.3)).prop_map(|(async_client, api, peer, lenient)| ClientCase { server: false, lenient, async_client, api, peer }).boxed(),
        ctx.cases(1_500, 25_000),
        check_client,
    );
    ctx.run_prop(
        "server_vs_scripted_requestor",
        "dicom-rs ServerAssociation (sync and async; established through ServerAssociationOptions::establish / establish_async on an accepted socket) driven by the same kind of API script (the async acceptor can also request a release; on the sync acceptor, which has no release(), that call is carried out as abort) against a requestor played by the harness from a generated script; same oracle as for the client: k-th consuming call sees the k-th PDU, release() Ok only on an A-RELEASE-RP, only the PDUs the API calls account for appear on the wire and nothing after a release request or abort, the connection is closed when the association object is gone; non-trivial = a release/abort racing with peer activity",
        || (any::<bool>(), proptest::collection::vec(prop_oneof![2 => any::<u16>().prop_map(ApiOp::Send), 3 => Just(ApiOp::Receive), 3 => Just(ApiOp::Release), 1 => Just(ApiOp::Abort)], 1..=6), peer_ops(8), proptest::bool::weighted(0.3)).prop_map(|(async_client, api, peer, lenient)| ClientCase { server: true, lenient, async_client, api, peer }).boxed(),
        ctx.cases(1_000, 15_000),
        check_client,
    );
    let root = ctx.root.clone();
    ctx.run_prop(
        "storescp_vs_scripted_requestor",
        "the real dicom-storescp binary (sync and --non-blocking) against a requestor played by the harness: after association a generated script of {C-ECHO request, unfinished C-STORE (command + non-last data fragment), A-RELEASE-RQ, A-RELEASE-RP, A-ABORT, unknown PDU, half a PDU, close}; oracle: a release request is answered by a release reply followed by the end of the stream; after an abort nothing but the end of the stream; no unsolicited release reply; C-ECHO answered during data transfer; the (single-threaded) listener serves the next association afterwards; non-trivial = the script contains a release request or abort",
        || (any::<bool>(), peer_ops(6)).prop_map(|(non_blocking, script)| ScpCase { non_blocking, script }).boxed(),
        ctx.cases(800, 15_000),
        move |c: &ScpCase, obs: &mut Obs| check_scp(&root, c, obs),
    );
}
