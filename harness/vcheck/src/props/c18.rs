//! C18 — encapsulated pixel data: offset table, fragments, total length, frame retrieval.
use crate::engine::{Ctx, Obs};
use crate::img::{self, FileObj, Img, ImgCfg};
use dicom_core::value::fragments::Fragments;
use dicom_core::value::{PixelFragmentSequence, Value};
use dicom_core::{DataElement, Tag, VR};
use dicom_dictionary_std::tags;
use dicom_encoding::adapters::PixelDataObject;
use dicom_encoding::transfer_syntax::{Codec, TransferSyntaxIndex};
use dicom_pixeldata::Transcode;
use dicom_transfer_syntax_registry::TransferSyntaxRegistry;
use proptest::prelude::*;
use refimpl::ds::{self, PVal, ParseOpts, Ts};
use serde::{Deserialize, Serialize};

pub const ENCAPSULATED_UNCOMPRESSED: &str = "1.2.840.10008.1.2.1.98";

/// transfer syntaxes of this build that have a pixel data encoder: (uid, name)
pub fn encoder_targets() -> Vec<(String, String)> {
    let mut v: Vec<(String, String)> = TransferSyntaxRegistry
        .iter()
        .filter(|ts| matches!(ts.codec(), Codec::EncapsulatedPixelData(_, Some(_))))
        .map(|ts| (ts.uid().to_string(), ts.name().to_string()))
        .collect();
    v.sort();
    v
}

/// The structural checks shared by all sub-checks, on the in-memory pixel sequence.
/// `frame_frags[i]` = number of fragments of frame i.
fn check_sequence(what: &str, bot: &[u32], frags: &[Vec<u8>], frame_frags: &[usize], obs: &mut Obs) {
    if let Some((i, f)) = frags.iter().enumerate().find(|(_, f)| f.len() % 2 == 1) {
        obs.fail(format!("C18:fragment of odd length:{what}"), format!("fragment {i} of {} has {} bytes", frags.len(), f.len()));
    }
    if bot.len() != frame_frags.len() {
        obs.fail(format!("C18:offset table does not have one entry per frame:{what}"), format!("{} entries for {} frames: {:?}", bot.len(), frame_frags.len(), &bot[..bot.len().min(20)]));
        return;
    }
    let mut off = 0u64;
    let mut fi = 0;
    for (i, n) in frame_frags.iter().enumerate() {
        if bot[i] as u64 != off {
            obs.fail(
                format!("C18:offset table entry is not the offset of the frame's first item:{what}"),
                format!("entry {i} is {} but the frame's first item tag lies {off} bytes after the first fragment item; table {:?}, fragment lengths {:?}", bot[i], &bot[..bot.len().min(20)], frags.iter().take(20).map(|f| f.len()).collect::<Vec<_>>()),
            );
            return;
        }
        for _ in 0..*n {
            off += frags[fi].len() as u64 + 8;
            fi += 1;
        }
    }
}

/// the written file, parsed by the reference parser: fragment structure on the wire
fn check_written(what: &str, obj: &FileObj, frame_frags: &[usize], obs: &mut Obs) {
    let mut bytes = vec![];
    if let Err(e) = obj.write_all(&mut bytes) {
        obs.fail(format!("C18:encapsulated object cannot be written:{what}"), img::errs(&e));
        return;
    }
    let head = match refimpl::file::parse_file_head(&bytes) {
        Ok(h) => h,
        Err(e) => {
            obs.fail(format!("C18:written file head is not accepted by the reference parser:{what}"), e);
            return;
        }
    };
    let opts = ParseOpts { ts: Ts::ExplicitLE, sq_tags: None, require_even: false, require_ascending: true };
    let parsed = match ds::parse_strict(&bytes[head.dataset_offset..], &opts) {
        Ok(p) => p,
        Err(e) => {
            obs.fail(format!("C18:written data set is not accepted by the reference parser:{what}"), e);
            return;
        }
    };
    let Some(px) = parsed.iter().find(|e| e.tag == (0x7FE0, 0x0010)) else {
        obs.fail(format!("C18:written file has no pixel data:{what}"), String::new());
        return;
    };
    let PVal::Pix { bot, frags, frag_offsets } = &px.value else {
        obs.fail(format!("C18:written pixel data is not encapsulated:{what}"), format!("declared length {}", px.declared_len));
        return;
    };
    if let Some((i, f)) = frags.iter().enumerate().find(|(_, f)| f.len() % 2 == 1) {
        obs.fail(format!("C18:fragment item of odd length in the written file:{what}"), format!("fragment {i} has {} bytes", f.len()));
        return;
    }
    if bot.len() % 4 != 0 || bot.len() / 4 != frame_frags.len() {
        obs.fail(format!("C18:written offset table does not have one entry per frame:{what}"), format!("{} bytes for {} frames", bot.len(), frame_frags.len()));
        return;
    }
    let mut fi = 0;
    for (i, n) in frame_frags.iter().enumerate() {
        let entry = u32::from_le_bytes([bot[4 * i], bot[4 * i + 1], bot[4 * i + 2], bot[4 * i + 3]]) as usize;
        let Some(at) = frag_offsets.get(fi) else {
            obs.fail(format!("C18:written file has fewer fragments than frames need:{what}"), format!("{} fragments", frags.len()));
            return;
        };
        if entry != at - frag_offsets[0] {
            obs.fail(format!("C18:written offset table entry does not point at the frame's first item tag:{what}"), format!("entry {i} = {entry}, item tag at +{}", at - frag_offsets[0]));
            return;
        }
        fi += n;
    }
    // Encapsulated Pixel Data Value Total Length on the wire
    if let Some(t) = parsed.iter().find(|e| e.tag == (0x7FE0, 0x0003)) {
        let total: u64 = frags.iter().map(|f| f.len() as u64).sum();
        let v = match &t.value {
            PVal::Bytes(b) if b.len() == 8 => u64::from_le_bytes(b[..8].try_into().unwrap()),
            other => {
                obs.fail(format!("C18:written total length attribute is not one UV value:{what}"), format!("{other:?}"));
                return;
            }
        };
        if v != total {
            obs.fail(format!("C18:written Encapsulated Pixel Data Value Total Length differs from the fragments:{what}"), format!("{v} vs {total}"));
        }
    }
}

fn check_frame_retrieval(what: &str, obj: &FileObj, frags: &[Vec<u8>], frame_frags: &[usize], obs: &mut Obs) {
    let mut fi = 0;
    for (k, n) in frame_frags.iter().enumerate() {
        let exp: Vec<u8> = frags[fi..fi + n].concat();
        fi += n;
        match obj.frame_pixel_data(k as u32) {
            Some(b) if b[..] == exp[..] => {}
            Some(b) => {
                obs.fail(format!("C18:frame_pixel_data does not return the frame's fragment bytes:{what}"), format!("frame {k} of {}: {} bytes, expected {} ({} fragments)", frame_frags.len(), b.len(), exp.len(), n));
                return;
            }
            None => {
                obs.fail(format!("C18:frame_pixel_data returns nothing for an existing frame:{what}"), format!("frame {k} of {}", frame_frags.len()));
                return;
            }
        }
    }
}

/// `frames_attr == false` (single-frame objects only): no Number of Frames attribute, as in single-frame IODs
fn wrap(value: Value<dicom_object::InMemDicomObject>, frames: usize, ts: &str, frames_attr: bool) -> FileObj {
    let im = Img { rows: 1, cols: 1, samples: 1, bits_alloc: 8, bits_stored: 8, signed: false, frames: frames as u32, data: vec![], frames_attr: frames_attr || frames != 1, mono1: false };
    let mut o = img::base_object(&im);
    o.put(DataElement::new(tags::PIXEL_DATA, VR::OB, value));
    img::with_meta(o, ts)
}

// ---------------------------------------------------------------- helpers

#[derive(Clone, Debug, Serialize, Deserialize)]
pub struct HelperCase {
    /// 0 = Fragments::new + From<Vec<Fragments>>, 1 = encapsulate, 2 = encapsulate_single_frame
    pub api: u8,
    /// frame lengths; the bytes are derived (so that huge frames stay cheap to store)
    pub frame_lens: Vec<u32>,
    pub fill_seed: u8,
    /// requested fragment size (single-frame data only; several frames always use 0 or >= frame length)
    pub fragment_size: u32,
}

fn frame_bytes(len: u32, seed: u8, k: usize) -> Vec<u8> {
    // non-zero everywhere, so that padding (zeros) is distinguishable from data
    (0..len as usize).map(|i| 1 + ((i as u64 * 31 + seed as u64 * 7 + k as u64 * 13) % 255) as u8).collect()
}

fn check_helper(c: &HelperCase, obs: &mut Obs) {
    let frames: Vec<Vec<u8>> = c.frame_lens.iter().enumerate().map(|(k, l)| frame_bytes(*l, c.fill_seed, k)).collect();
    let nf = frames.len();
    let big = c.frame_lens.iter().any(|l| *l > (1 << 24));
    let api = if nf > 1 && c.api % 3 == 2 { 0 } else { c.api % 3 };
    let what = ["Fragments::new", "encapsulate", "encapsulate_single_frame"][api as usize];
    obs.class(what);
    if big {
        obs.class("frame-above-2^24-bytes");
    }
    let fs = |k: usize| -> u32 {
        if nf == 1 {
            c.fragment_size
        } else if c.fragment_size % 2 == 0 {
            0
        } else {
            // one fragment per frame: any size not below the frame length
            c.frame_lens[k] + c.fragment_size % 7
        }
    };
    let unwrap_seq = |v: Value| match v {
        Value::PixelSequence(s) => Some(s),
        _ => None,
    };
    let seq: Option<PixelFragmentSequence<Vec<u8>>> = match api {
        0 => {
            let v: Vec<Fragments> = frames.iter().cloned().enumerate().map(|(k, f)| Fragments::new(f, fs(k))).collect();
            Some(v.into())
        }
        1 => unwrap_seq(dicom_pixeldata::encapsulation::encapsulate(frames.clone())),
        _ => unwrap_seq(dicom_pixeldata::encapsulation::encapsulate_single_frame(frames[0].clone(), c.fragment_size)),
    };
    let Some(seq) = seq else {
        obs.fail("C18:helper did not return a pixel sequence", String::new());
        return;
    };
    let frags: Vec<Vec<u8>> = seq.fragments().to_vec();
    let bot: Vec<u32> = seq.offset_table().to_vec();
    // how the fragments divide among the frames: one each for several frames, all for one frame
    let frame_frags: Vec<usize> = if nf == 1 { vec![frags.len()] } else { vec![1; nf] };
    if nf > 1 && frags.len() != nf {
        obs.fail(format!("C18:helper did not produce one fragment per frame:{what}"), format!("{} fragments for {nf} frames", frags.len()));
        return;
    }
    obs.nontrivial = nf >= 2 || frags.len() >= 2;
    if frags.len() >= 2 && nf == 1 {
        obs.class("single-frame-several-fragments");
    }
    if nf >= 2 {
        obs.class("several-frames");
    }
    if c.frame_lens.iter().any(|l| l % 2 == 1) {
        obs.class("odd-frame-length");
    }
    check_sequence(what, &bot, &frags, &frame_frags, obs);
    // content: every frame's fragments start with the frame's bytes and continue with zero padding only
    let mut fi = 0;
    for (k, n) in frame_frags.iter().enumerate() {
        let cat: Vec<u8> = frags[fi..fi + n].concat();
        fi += n;
        let f = &frames[k];
        if cat.len() < f.len() || cat[..f.len()] != f[..] {
            obs.fail(
                format!("C18:fragments do not carry the frame's bytes:{what}{}", if big { ":frame above 2^24 bytes" } else { "" }),
                format!("frame {k}: {} bytes in, {} bytes in {} fragments (requested fragment size {})", f.len(), cat.len(), n, fs(k)),
            );
            return;
        }
        if cat[f.len()..].iter().any(|b| *b != 0) {
            obs.fail(format!("C18:fragment padding is not zero:{what}"), format!("frame {k}"));
            return;
        }
    }
    if obs.failed() || big {
        return;
    }
    let with_attr = c.fill_seed & 1 == 0;
    if nf == 1 && !with_attr {
        obs.class("single-frame-without-Number-of-Frames");
    }
    let obj = wrap(Value::PixelSequence(seq.clone()), nf, ENCAPSULATED_UNCOMPRESSED, with_attr);
    check_frame_retrieval(what, &obj, &frags, &frame_frags, obs);
    check_written(what, &obj, &frame_frags, obs);
}

fn helper_strategy(thorough: bool) -> BoxedStrategy<HelperCase> {
    let small_single = (1u32..5000, prop_oneof![Just(0u32), 1u32..64, 1u32..6000]).prop_map(|(l, fs)| (vec![l], fs));
    // a length just above a multiple of the fragment size
    let near_multiple = (1u32..200, 1u32..300, 0u32..3).prop_map(|(k, fs, d)| (vec![(k * ((fs + 1) & !1) + d).max(1)], fs));
    let multi = (proptest::collection::vec(1u32..3000, 2..=16), any::<u32>()).prop_map(|(l, fs)| (l, fs % 1000));
    // one large frame: lengths above 2^24 just above a multiple of the fragment size
    let big_hi = if thorough { 60_000_000u32 } else { 40_000_000u32 };
    let big = (17_000_000u32..big_hi, prop_oneof![4000u32..70_000, Just(1u32 << 20)], 1u32..4).prop_map(|(l, fs, d)| {
        let fse = (fs + 1) & !1;
        (vec![(l / fse) * fse + d], fs)
    });
    (any::<u8>(), any::<u8>(), prop_oneof![30 => small_single.boxed(), 20 => near_multiple.boxed(), 49 => multi.boxed(), 1 => big.boxed()])
        .prop_map(|(api, fill_seed, (frame_lens, fragment_size))| HelperCase { api, frame_lens, fill_seed, fragment_size })
        .boxed()
}

// ---------------------------------------------------------------- frame retrieval from reference-built objects

#[derive(Clone, Debug, Serialize, Deserialize)]
pub struct SynthCase {
    /// per frame: lengths of its fragments (even, >= 2 is not required: zero-length allowed by PS3.5 only for the table)
    pub frames: Vec<Vec<u16>>,
    pub via_file: bool,
}

fn check_synth(c: &SynthCase, obs: &mut Obs) {
    let mut frags = vec![];
    let mut bot = vec![];
    let mut off = 0u32;
    let mut n = 0u8;
    for f in &c.frames {
        bot.push(off);
        for l in f {
            n = n.wrapping_add(1);
            let len = (*l as usize) & !1;
            frags.push(vec![n; len.max(2)]);
            off += len.max(2) as u32 + 8;
        }
    }
    let frame_frags: Vec<usize> = c.frames.iter().map(|f| f.len()).collect();
    obs.nontrivial = c.frames.len() >= 2 && frame_frags.iter().any(|n| *n >= 2);
    if obs.nontrivial {
        obs.class("several-frames-several-fragments");
    }
    let with_attr = c.frames.first().and_then(|f| f.first()).map(|l| l & 1 == 0).unwrap_or(true);
    if c.frames.len() == 1 && !with_attr {
        obs.class("single-frame-without-Number-of-Frames");
    }
    let built = wrap(Value::PixelSequence(PixelFragmentSequence::new(bot, frags.clone())), c.frames.len(), "1.2.840.10008.1.2.4.50", with_attr);
    let obj = if c.via_file {
        match img::through_file(&built) {
            Ok(o) => o,
            Err(e) => {
                obs.fail("C18:reference-built encapsulated object does not survive write and read", e);
                return;
            }
        }
    } else {
        built
    };
    check_frame_retrieval("reference-built", &obj, &frags, &frame_frags, obs);
}

// ---------------------------------------------------------------- transcoding

#[derive(Clone, Debug, Serialize, Deserialize)]
pub struct TransCase {
    pub img: Img,
    /// index into the encoder targets of this build
    pub target: u16,
    /// transcode to Encapsulated Uncompressed first, then to the target
    pub via_encapsulated: bool,
}

pub fn pixel_seq(obj: &FileObj) -> Option<(Vec<u32>, Vec<Vec<u8>>)> {
    match obj.get(tags::PIXEL_DATA)?.value() {
        Value::PixelSequence(s) => Some((s.offset_table().to_vec(), s.fragments().to_vec())),
        _ => None,
    }
}

fn check_trans(c: &TransCase, obs: &mut Obs) {
    let targets = encoder_targets();
    if targets.is_empty() {
        obs.skip("no transfer syntax with an encoder in this build");
        return;
    }
    let (uid, name) = &targets[(c.target as usize * targets.len()) >> 16];
    let im = &c.img;
    let what = name.as_str();
    obs.class(format!("to:{name}"));
    obs.nontrivial = im.frames >= 2;
    if im.frame_bytes() % 2 == 1 {
        obs.class(if im.frames >= 2 { "odd-frame-size-multiframe" } else { "odd-frame-size-single" });
    }
    let ts = TransferSyntaxRegistry.get(uid).expect("HARNESS: target is registered");
    let mut obj = img::build_native(im, "1.2.840.10008.1.2.1");
    if c.via_encapsulated && uid != ENCAPSULATED_UNCOMPRESSED {
        obs.class("from-encapsulated-source");
        let first = TransferSyntaxRegistry.get(ENCAPSULATED_UNCOMPRESSED).expect("HARNESS: registered");
        if let Err(e) = obj.transcode(first) {
            obs.fail("C18:transcoding to Encapsulated Uncompressed fails", img::errs(&e));
            return;
        }
    }
    if let Err(e) = obj.transcode(ts) {
        // an encoder may refuse an image it does not support (e.g. JPEG with fewer than 8 bits stored)
        obs.class(format!("encoder-refused:{name}"));
        if uid == ENCAPSULATED_UNCOMPRESSED || uid == "1.2.840.10008.1.2.8.1" {
            obs.fail(format!("C18:lossless encoder refuses a plain native image:{what}"), img::errs(&e));
        } else {
            obs.nontrivial = false;
        }
        return;
    }
    if obj.meta().transfer_syntax() != uid.as_str() {
        obs.fail(format!("C18:transfer syntax not updated after transcoding:{what}"), obj.meta().transfer_syntax().to_string());
    }
    let Some((bot, frags)) = pixel_seq(&obj) else {
        obs.fail(format!("C18:pixel data is not encapsulated after transcoding:{what}"), String::new());
        return;
    };
    let nf = im.frames as usize;
    if frags.len() != nf {
        obs.fail(format!("C18:transcoding did not produce one fragment per frame:{what}"), format!("{} fragments for {nf} frames", frags.len()));
        return;
    }
    let frame_frags = vec![1usize; nf];
    check_sequence(what, &bot, &frags, &frame_frags, obs);
    // Number of Frames
    match obj.get(tags::NUMBER_OF_FRAMES).map(|e| e.to_int::<u32>()) {
        Some(Ok(n)) if n == im.frames => {}
        other => obs.fail(format!("C18:Number of Frames wrong after transcoding:{what}"), format!("{other:?} vs {}", im.frames)),
    }
    // Encapsulated Pixel Data Value Total Length, when set
    if let Some(e) = obj.get(Tag(0x7FE0, 0x0003)) {
        let total: u64 = frags.iter().map(|f| f.len() as u64).sum();
        match e.to_int::<u64>() {
            Ok(v) if v == total => {}
            Ok(v) => obs.fail(
                format!("C18:Encapsulated Pixel Data Value Total Length differs from the fragments:{what}:{}", if nf > 1 { "multiframe" } else if total % 2 == 1 || im.data.len() % 2 == 1 { "single-odd" } else { "single" }),
                format!("{v} vs {total} (fragment lengths {:?})", frags.iter().map(|f| f.len()).collect::<Vec<_>>()),
            ),
            Err(e) => obs.fail(format!("C18:total length attribute is not an integer:{what}"), e.to_string()),
        }
    } else {
        obs.class("no-total-length-attribute");
    }
    if obs.failed() {
        return;
    }
    check_frame_retrieval(what, &obj, &frags, &frame_frags, obs);
    check_written(what, &obj, &frame_frags, obs);
}

pub fn run(ctx: &Ctx) {
    let thorough = matches!(ctx.tier, crate::engine::Tier::Thorough);
    ctx.run_prop(
        "helpers",
        "Fragments::new + From<Vec<Fragments>>, encapsulate, encapsulate_single_frame on 1-16 non-empty frames of 1-5000 bytes (non-zero content), fragment size 0 / odd / even / near a divisor of the length / larger than the frame for single frames, one fragment per frame for several frames (the documented precondition), plus ~1% single frames of 17-60 MB just above a multiple of the fragment size; oracle: all fragments even, offset table has one entry per frame equal to the offset of the frame's first item (8 + length per fragment), fragments start with the frame bytes followed by zero padding only, frame_pixel_data(k) == the frame's fragments, and the written file parsed by the reference parser shows the same (even item lengths, table entries == item tag offsets); non-trivial = at least two frames or two fragments",
        move || helper_strategy(thorough),
        ctx.cases(4_000, 60_000),
        check_helper,
    );
    ctx.run_prop(
        "frame_retrieval",
        "reference-built encapsulated objects: 1-8 frames each split into 1-4 even fragments, correct offset table, as built and re-read from a written file; oracle: frame_pixel_data(k) == concatenation of frame k's fragments; non-trivial = several frames with a multi-fragment frame",
        || (proptest::collection::vec(proptest::collection::vec(2u16..400, 1..=4), 1..=8), any::<bool>()).prop_map(|(frames, via_file)| SynthCase { frames, via_file }).boxed(),
        ctx.cases(3_000, 40_000),
        check_synth,
    );
    let n_targets = encoder_targets().len();
    ctx.assume(&format!("transfer syntaxes with an encoder in this build: {:?}", encoder_targets().iter().map(|t| t.1.clone()).collect::<Vec<_>>()));
    let _ = n_targets;
    ctx.run_prop(
        "transcode",
        "G-IMG native images (8/16 bits, 1 or 3 samples, rows/cols 1-17 and occasionally 64-300, 1-16 frames) transcoded to every registered transfer syntax that has an encoder (directly, or via Encapsulated Uncompressed first); oracle on the object and on the written file parsed by the reference parser: fragments even, offset table one entry per frame == byte offset of the frame's first item tag from the first fragment item, Number of Frames right, (7FE0,0003) when present == sum of fragment lengths, frame_pixel_data(k) == fragment k; an encoder refusing an unsupported image is not a violation; non-trivial = at least two frames",
        || (img::img(ImgCfg { one_bit: false, max_frames: 16, large: true }), any::<u16>(), proptest::bool::weighted(0.25)).prop_map(|(img, target, via_encapsulated)| TransCase { img, target, via_encapsulated }).boxed(),
        ctx.cases(4_000, 60_000),
        check_trans,
    );
}
