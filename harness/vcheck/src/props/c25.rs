//! C25 — PDUs are encoded and decoded losslessly with exact framing.
use crate::engine::{Ctx, Obs};
use crate::pduconv::{from_ul, pdu, to_ul};
use dicom_ul::pdu::{read_pdu, write_pdu, MAXIMUM_PDU_SIZE, MINIMUM_PDU_SIZE};
use proptest::prelude::*;
use refimpl::pdu::{self as rp, PduIr, UserItem};
use serde::{Deserialize, Serialize};
use std::io::Cursor;

#[derive(Clone, Debug, Serialize, Deserialize)]
pub struct Case {
    pub pdu: PduIr,
    pub trailing: Vec<u8>,
    pub strict_max: u32,
    /// when set, the strict-mode maximum is (PDU length + delta): probes the boundary exactly
    #[serde(default)]
    pub strict_delta: Option<i32>,
}

fn kind(p: &PduIr) -> &'static str {
    match p {
        PduIr::AssocRq { .. } => "A-ASSOCIATE-RQ",
        PduIr::AssocAc { .. } => "A-ASSOCIATE-AC",
        PduIr::AssocRj { .. } => "A-ASSOCIATE-RJ",
        PduIr::PData { .. } => "P-DATA-TF",
        PduIr::ReleaseRq => "A-RELEASE-RQ",
        PduIr::ReleaseRp => "A-RELEASE-RP",
        PduIr::Abort { .. } => "A-ABORT",
        PduIr::Unknown { .. } => "unknown",
    }
}

fn user_kinds(p: &PduIr, obs: &mut Obs) {
    let user = match p {
        PduIr::AssocRq { user, .. } | PduIr::AssocAc { user, .. } => user,
        _ => return,
    };
    for u in user {
        obs.class(match u {
            UserItem::MaxLength(_) => "user:max-length",
            UserItem::ImplClassUid(_) => "user:impl-class-uid",
            UserItem::ImplVersion(_) => "user:impl-version",
            UserItem::ExtNeg(..) => "user:extended-negotiation",
            UserItem::Role(..) => "user:role-selection",
            UserItem::UserIdentity { .. } => "user:user-identity",
            UserItem::Unknown(..) => "user:unknown",
        });
    }
}

fn check(c: &Case, obs: &mut Obs) {
    let k = kind(&c.pdu);
    obs.class(format!("pdu:{k}"));
    user_kinds(&c.pdu, obs);
    obs.nontrivial = !matches!(c.pdu, PduIr::ReleaseRq | PduIr::ReleaseRp);
    let reference = rp::encode(&c.pdu);
    let ul = to_ul(&c.pdu);
    let mut out = vec![];
    let wr = write_pdu(&mut out, &ul);
    match (&reference, &wr) {
        (Err(why), Ok(())) => {
            obs.class("over-long-item");
            // the content cannot be expressed: writing must fail, never emit a corrupt PDU
            let parses = rp::parse(&out).map(|(p, n)| n == out.len() && p == c.pdu).unwrap_or(false);
            obs.fail(
                format!("C25:write_pdu emits a PDU whose content exceeds a length field:{k}"),
                format!("{why}; wrote {} bytes; reference parser reproduces the value: {parses}", out.len()),
            );
            return;
        }
        (Err(_), Err(_)) => {
            obs.class("over-long-item");
            return;
        }
        (Ok(_), Err(e)) => {
            obs.fail(format!("C25:write_pdu fails on a well-formed PDU:{k}"), format!("{e}: {:?}", crate::props::c01::snafu_chain(e)));
            return;
        }
        (Ok(r), Ok(())) => {
            if *r != out {
                let off = r.iter().zip(&out).position(|(a, b)| a != b).unwrap_or(r.len().min(out.len()));
                obs.fail(
                    format!("C25:written bytes differ from the reference encoding:{k}"),
                    format!("first difference at {off}: reference {} bytes, written {} bytes; ref {:02x?} got {:02x?}", r.len(), out.len(), &r[off.saturating_sub(4)..(off + 8).min(r.len())], &out[off.saturating_sub(4).min(out.len())..(off + 8).min(out.len())]),
                );
            }
        }
    }
    // independent parser: every length field matches, value identical
    match rp::parse(&out) {
        Ok((p, n)) => {
            if n != out.len() {
                obs.fail(format!("C25:PDU length field does not cover the bytes written:{k}"), format!("{n} vs {}", out.len()));
            }
            if p != c.pdu {
                obs.fail(format!("C25:reference parser reads a different PDU:{k}"), format!("{p:?}").chars().take(400).collect::<String>());
            }
        }
        Err(e) => obs.fail(format!("C25:written PDU rejected by the reference parser:{k}"), e),
    }
    // read back, with trailing bytes that must stay untouched
    let mut stream = out.clone();
    stream.extend_from_slice(&c.trailing);
    let mut cur = Cursor::new(&stream[..]);
    match read_pdu(&mut cur, MAXIMUM_PDU_SIZE, false) {
        Ok(Some(p)) => {
            if cur.position() as usize != out.len() {
                obs.fail(format!("C25:read_pdu consumed a different number of bytes:{k}"), format!("{} vs {}", cur.position(), out.len()));
            }
            let back = from_ul(&p);
            if back != c.pdu {
                obs.fail(format!("C25:PDU differs after write and read:{k}"), format!("want {:?} got {:?}", c.pdu, back).chars().take(600).collect::<String>());
            }
        }
        Ok(None) => obs.fail(format!("C25:complete PDU reads as incomplete:{k}"), format!("{} bytes", out.len())),
        Err(e) => obs.fail(format!("C25:written PDU rejected by read_pdu:{k}"), format!("{e}: {:?}", crate::props::c01::snafu_chain(&e))),
    }
    // every strict prefix reads as incomplete (all of them up to 2 KiB, sampled above)
    let n = out.len();
    let positions: Vec<usize> = if n <= 2048 { (0..n).collect() } else { (0..64).chain((64..n).step_by(n / 200 + 1)).chain(n - 40..n).collect() };
    for cut in positions {
        obs.extra_evals += 1;
        let mut cur = Cursor::new(&out[..cut]);
        match read_pdu(&mut cur, MAXIMUM_PDU_SIZE, false) {
            Ok(None) => {}
            Ok(Some(p)) => {
                obs.fail(format!("C25:strict prefix reads as a PDU:{k}"), format!("prefix {cut} of {n}: {:.100?}", p));
                break;
            }
            Err(e) => {
                obs.fail(format!("C25:strict prefix reads as an error instead of incomplete:{k}"), format!("prefix {cut} of {n}: {e}"));
                break;
            }
        }
    }
    // strict mode: a PDU longer than the maximum is rejected, non-strict accepts it
    let body_len = (n - 6) as u32;
    let max = match c.strict_delta {
        Some(d) => (body_len as i64 + d as i64).clamp(MINIMUM_PDU_SIZE as i64, MAXIMUM_PDU_SIZE as i64) as u32,
        None => c.strict_max.clamp(MINIMUM_PDU_SIZE, MAXIMUM_PDU_SIZE),
    };
    if body_len > max && body_len - max <= 8 {
        obs.class("just-above-max");
    }
    let mut cur = Cursor::new(&out[..]);
    let strict = read_pdu(&mut cur, max, true);
    if body_len > max {
        obs.class("longer-than-max");
        if !strict.is_err() {
            obs.fail("C25:strict mode accepts a PDU longer than the maximum", format!("pdu length {body_len}, max {max}"));
        }
        let mut cur = Cursor::new(&out[..]);
        if !matches!(read_pdu(&mut cur, max, false), Ok(Some(_))) {
            obs.fail("C25:non-strict mode rejects a PDU longer than the maximum", format!("pdu length {body_len}, max {max}"));
        }
    } else if !matches!(strict, Ok(Some(_))) {
        obs.fail("C25:strict mode rejects a PDU within the maximum", format!("pdu length {body_len}, max {max}: {strict:?}").chars().take(300).collect::<String>());
    }
}

pub fn strategy() -> BoxedStrategy<Case> {
    (
        prop_oneof![9 => pdu(false), 1 => pdu(true)],
        proptest::collection::vec(any::<u8>(), 0..12),
        prop_oneof![Just(MINIMUM_PDU_SIZE), Just(16378u32), any::<u32>()],
        proptest::option::weighted(0.5, -8i32..=8),
    )
        .prop_map(|(pdu, trailing, strict_max, strict_delta)| Case { pdu, trailing, strict_max, strict_delta })
        .boxed()
}

pub fn run(ctx: &Ctx) {
    ctx.run_prop(
        "pdu_roundtrip",
        "G-PDU values (all seven PDU kinds + unknown types, 0-8 presentation contexts with 0-5 transfer syntaxes, every user sub-item kind incl. unknown types and all five user identity types, P-DATA with 0-4 PDVs of 0-70 000 bytes; 10% with sub-items of up to 70 KiB); oracle: bytes == reference PS3.8 encoding and accepted by the reference parser with every length field exact; read_pdu(write_pdu(p)) == p consuming exactly the PDU (trailing bytes untouched); every strict prefix -> Ok(None); content exceeding a 16-bit length field -> write_pdu must be Err; strict mode rejects longer-than-max; non-trivial = any PDU but the two release PDUs",
        strategy,
        ctx.cases(8_000, 200_000),
        check,
    );
}
