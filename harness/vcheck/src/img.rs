//! G-IMG: native image intermediate representation, generator and object builder.
use dicom_core::value::PrimitiveValue;
use dicom_core::{DataElement, VR};
use dicom_dictionary_std::tags;
use dicom_object::meta::FileMetaTableBuilder;
use dicom_object::{FileDicomObject, InMemDicomObject};
use proptest::prelude::*;
use serde::{Deserialize, Serialize};

pub type FileObj = FileDicomObject<InMemDicomObject>;

#[derive(Clone, Debug, Serialize, Deserialize)]
pub struct Img {
    pub rows: u16,
    pub cols: u16,
    /// 1 or 3
    pub samples: u16,
    /// 1, 8 or 16
    pub bits_alloc: u16,
    pub bits_stored: u16,
    pub signed: bool,
    pub frames: u32,
    /// stored pixel data: little-endian, pixel-interleaved; for 1 bit allocated the bits are
    /// packed least significant bit first, continuously across frames; no trailing pad byte
    pub data: Vec<u8>,
    /// whether Number of Frames is present (always true when frames > 1)
    pub frames_attr: bool,
    /// MONOCHROME1 instead of MONOCHROME2 (single-sample images)
    pub mono1: bool,
}

impl Img {
    pub fn bytes_per_sample(&self) -> usize {
        (self.bits_alloc as usize).div_ceil(8)
    }
    pub fn frame_pixels(&self) -> usize {
        self.rows as usize * self.cols as usize
    }
    /// bytes per frame for 8/16 bits allocated
    pub fn frame_bytes(&self) -> usize {
        self.frame_pixels() * self.samples as usize * self.bytes_per_sample()
    }
    pub fn stored_len(rows: u16, cols: u16, samples: u16, bits_alloc: u16, frames: u32) -> usize {
        let px = rows as usize * cols as usize * frames as usize;
        if bits_alloc == 1 { px.div_ceil(8) } else { px * samples as usize * (bits_alloc as usize / 8) }
    }
    pub fn frame(&self, k: usize) -> &[u8] {
        let n = self.frame_bytes();
        &self.data[k * n..(k + 1) * n]
    }
    pub fn photometric(&self) -> &'static str {
        if self.samples == 3 {
            "RGB"
        } else if self.mono1 {
            "MONOCHROME1"
        } else {
            "MONOCHROME2"
        }
    }
    pub fn label(&self) -> String {
        format!("{}bit-{}spp", self.bits_alloc, self.samples)
    }
}

#[derive(Clone, Copy, Debug)]
pub struct ImgCfg {
    pub one_bit: bool,
    pub max_frames: u32,
    /// allow the occasional 64–300 pixel dimension
    pub large: bool,
}

fn dim(large: bool) -> BoxedStrategy<u16> {
    if large { prop_oneof![12 => 1u16..=17, 1 => 64u16..=300].boxed() } else { (1u16..=17).boxed() }
}

/// shape bytes so that runs and repeated values occur (matters for RLE / deflate)
fn style_bytes(style: u8, raw: Vec<u8>) -> Vec<u8> {
    match style % 4 {
        0 => raw,
        1 => raw.iter().map(|b| [0x00, 0xFF, 0x12, 0x34][(b & 3) as usize]).collect(),
        2 => {
            // run-expanded: (value, run length) pairs taken from the raw bytes
            let n = raw.len();
            let mut out = Vec::with_capacity(n);
            let mut i = 0;
            while out.len() < n {
                let v = raw[i % n];
                let r = 1 + (raw[(i + 1) % n] as usize % 40) * if raw[(i + 1) % n] > 250 { 8 } else { 1 };
                for _ in 0..r {
                    if out.len() < n {
                        out.push(v);
                    }
                }
                i += 2;
            }
            out
        }
        _ => raw.iter().enumerate().map(|(i, b)| if i % 2 == 0 { *b } else { b & 0x0F }).collect(),
    }
}

pub fn img(cfg: ImgCfg) -> BoxedStrategy<Img> {
    if cfg.large {
        // ~4% frames of 22 KB - 540 KB with incompressible content (buffer limits of codecs)
        let big = (150u16..=300, 150u16..=300, prop_oneof![Just(8u16), Just(16u16)], prop_oneof![Just(1u16), Just(3u16)], 1u32..=2, any::<bool>(), any::<u64>()).prop_map(|(rows, cols, bits_alloc, samples, frames, signed, seed)| {
            let n = Img::stored_len(rows, cols, samples, bits_alloc, frames);
            let mut x = seed | 1;
            let data = (0..n)
                .map(|_| {
                    x ^= x << 13;
                    x ^= x >> 7;
                    x ^= x << 17;
                    (x >> 24) as u8
                })
                .collect();
            Img { rows, cols, samples, bits_alloc, bits_stored: bits_alloc, signed, frames, data, frames_attr: true, mono1: false }
        });
        return prop_oneof![24 => img_small(cfg), 1 => big.boxed()].boxed();
    }
    img_small(cfg)
}

fn img_small(cfg: ImgCfg) -> BoxedStrategy<Img> {
    let bits = if cfg.one_bit { prop_oneof![2 => Just(1u16), 3 => Just(8u16), 3 => Just(16u16)].boxed() } else { prop_oneof![Just(8u16), Just(16u16)].boxed() };
    (dim(cfg.large), dim(cfg.large), bits, prop_oneof![2 => Just(1u16), 1 => Just(3u16)], 1u32..=cfg.max_frames, any::<bool>(), any::<bool>(), any::<bool>(), 0u16..16, any::<u8>())
        .prop_flat_map(|(rows, cols, bits_alloc, samples, frames, signed, frames_attr, mono1, stored_sel, style)| {
            // cap the large dimension so that one image stays below ~1 MB
            let (rows, cols) = if rows as usize * cols as usize > 40_000 { (rows, 17.min(cols)) } else { (rows, cols) };
            let samples = if bits_alloc == 1 { 1 } else { samples };
            let frames = if rows as usize * cols as usize > 4_000 { frames.min(3) } else { frames };
            let n = Img::stored_len(rows, cols, samples, bits_alloc, frames);
            let bits_stored = if bits_alloc == 1 { 1 } else { (bits_alloc - stored_sel % bits_alloc.min(9)).max(1) };
            proptest::collection::vec(any::<u8>(), n..=n).prop_map(move |raw| Img {
                rows,
                cols,
                samples,
                bits_alloc,
                bits_stored,
                signed: signed && bits_alloc != 1,
                frames,
                data: style_bytes(style, raw),
                frames_attr: frames_attr || frames > 1,
                mono1: mono1 && samples == 1,
            })
        })
        .boxed()
}

pub const SC_IMAGE_STORAGE: &str = "1.2.840.10008.5.1.4.1.1.7";

/// the non-pixel attributes of the image
pub fn base_object(im: &Img) -> InMemDicomObject {
    let mut o = InMemDicomObject::new_empty();
    o.put(DataElement::new(tags::SOP_CLASS_UID, VR::UI, SC_IMAGE_STORAGE));
    o.put(DataElement::new(tags::SOP_INSTANCE_UID, VR::UI, "1.2.3.4.5.6.7"));
    o.put(DataElement::new(tags::SAMPLES_PER_PIXEL, VR::US, PrimitiveValue::from(im.samples)));
    o.put(DataElement::new(tags::PHOTOMETRIC_INTERPRETATION, VR::CS, im.photometric()));
    if im.samples == 3 {
        o.put(DataElement::new(tags::PLANAR_CONFIGURATION, VR::US, PrimitiveValue::from(0u16)));
    }
    if im.frames_attr {
        o.put(DataElement::new(tags::NUMBER_OF_FRAMES, VR::IS, im.frames.to_string()));
    }
    o.put(DataElement::new(tags::ROWS, VR::US, PrimitiveValue::from(im.rows)));
    o.put(DataElement::new(tags::COLUMNS, VR::US, PrimitiveValue::from(im.cols)));
    o.put(DataElement::new(tags::BITS_ALLOCATED, VR::US, PrimitiveValue::from(im.bits_alloc)));
    o.put(DataElement::new(tags::BITS_STORED, VR::US, PrimitiveValue::from(im.bits_stored)));
    o.put(DataElement::new(tags::HIGH_BIT, VR::US, PrimitiveValue::from(im.bits_stored - 1)));
    o.put(DataElement::new(tags::PIXEL_REPRESENTATION, VR::US, PrimitiveValue::from(im.signed as u16)));
    o
}

pub fn with_meta(o: InMemDicomObject, ts_uid: &str) -> FileObj {
    o.with_meta(FileMetaTableBuilder::new().transfer_syntax(ts_uid).media_storage_sop_class_uid(SC_IMAGE_STORAGE).media_storage_sop_instance_uid("1.2.3.4.5.6.7"))
        .expect("HARNESS: meta table builds")
}

/// native image object in the given (native) transfer syntax
pub fn build_native(im: &Img, ts_uid: &str) -> FileObj {
    let mut o = base_object(im);
    if im.bits_alloc == 16 {
        let words: Vec<u16> = im.data.chunks(2).map(|c| u16::from_le_bytes([c[0], c[1]])).collect();
        o.put(DataElement::new(tags::PIXEL_DATA, VR::OW, PrimitiveValue::U16(words.into())));
    } else {
        o.put(DataElement::new(tags::PIXEL_DATA, VR::OB, PrimitiveValue::U8(im.data.clone().into())));
    }
    with_meta(o, ts_uid)
}

/// write to bytes and read back: the object as a file reader would deliver it
pub fn through_file(o: &FileObj) -> Result<FileObj, String> {
    let mut bytes = vec![];
    o.write_all(&mut bytes).map_err(|e| format!("write_all: {}", errs(&e)))?;
    dicom_object::from_reader(&bytes[..]).map_err(|e| format!("from_reader: {}", errs(&e)))
}

/// an error with its chain of sources
pub fn errs(e: &dyn std::error::Error) -> String {
    let mut s = e.to_string();
    for c in crate::props::c01::snafu_chain(e) {
        s.push_str(" <- ");
        s.push_str(&c);
    }
    s
}
