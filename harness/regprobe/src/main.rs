fn main(){}
