//! regprobe — the same probing code as in vcheck, but built WITHOUT the codec features of
//! dicom-transfer-syntax-registry (build it with `cargo build -p regprobe` so that features
//! are not unified with vcheck's).
fn main() {
    let args: Vec<String> = std::env::args().collect();
    match args.get(1).map(|s| s.as_str()) {
        Some("registry") => println!("{}", probe::registry::describe()),
        _ => {
            eprintln!("usage: regprobe registry");
            std::process::exit(2);
        }
    }
}
