//! regprobe — the same probing code as in vcheck, but built WITHOUT the codec features of
//! dicom-transfer-syntax-registry (build it with `cargo build -p regprobe` so that features
//! are not unified with vcheck's).
fn main() {
    let args: Vec<String> = std::env::args().collect();
    match args.get(1).map(|s| s.as_str()) {
        Some("registry") => println!("{}", probe::registry::describe()),
        Some("negotiate") => {
            // JSON lines of NegCase on stdin -> JSON lines of NegOut on stdout
            use std::io::{BufRead, Write};
            let stdin = std::io::stdin();
            let stdout = std::io::stdout();
            let mut out = std::io::BufWriter::new(stdout.lock());
            for line in stdin.lock().lines() {
                let line = line.unwrap();
                if line.trim().is_empty() {
                    continue;
                }
                let case: probe::negotiate::NegCase = serde_json::from_str(&line).expect("NegCase");
                let r = probe::negotiate::run(&case);
                writeln!(out, "{}", serde_json::to_string(&r).unwrap()).unwrap();
            }
        }
        _ => {
            eprintln!("usage: regprobe registry | regprobe negotiate < cases.jsonl");
            std::process::exit(2);
        }
    }
}
