//! PS3.8 §9.3 upper layer PDUs: IR, reference encoder, strict parser (every length field checked).
//! Written from the standard; shares no code with dicom-rs.

use serde::{Deserialize, Serialize};

#[derive(Clone, Debug, PartialEq, Eq, Serialize, Deserialize)]
pub struct PcProposed {
    pub id: u8,
    pub abstract_syntax: String,
    pub transfer_syntaxes: Vec<String>,
}

#[derive(Clone, Debug, PartialEq, Eq, Serialize, Deserialize)]
pub struct PcResult {
    pub id: u8,
    pub reason: u8,
    pub transfer_syntax: String,
}

#[derive(Clone, Debug, PartialEq, Eq, Serialize, Deserialize)]
pub enum UserItem {
    MaxLength(u32),
    ImplClassUid(String),
    ImplVersion(String),
    ExtNeg(String, Vec<u8>),
    Role(String, bool, bool),
    UserIdentity { positive_response: bool, ty: u8, primary: Vec<u8>, secondary: Vec<u8> },
    Unknown(u8, Vec<u8>),
}

#[derive(Clone, Debug, PartialEq, Eq, Serialize, Deserialize)]
pub struct Pdv {
    pub pc_id: u8,
    pub command: bool,
    pub last: bool,
    pub data: Vec<u8>,
}

#[derive(Clone, Debug, PartialEq, Eq, Serialize, Deserialize)]
pub enum PduIr {
    AssocRq { protocol_version: u16, called: String, calling: String, app_ctx: String, pcs: Vec<PcProposed>, user: Vec<UserItem> },
    AssocAc { protocol_version: u16, called: String, calling: String, app_ctx: String, pcs: Vec<PcResult>, user: Vec<UserItem> },
    AssocRj { result: u8, source: u8, reason: u8 },
    PData { pdvs: Vec<Pdv> },
    ReleaseRq,
    ReleaseRp,
    Abort { source: u8, reason: u8 },
    Unknown { ty: u8, data: Vec<u8> },
}

fn item16(out: &mut Vec<u8>, ty: u8, body: &[u8]) -> Result<(), String> {
    if body.len() > 0xFFFF {
        return Err(format!("item {ty:#04x} content of {} bytes does not fit its 16-bit length field", body.len()));
    }
    out.push(ty);
    out.push(0);
    out.extend_from_slice(&(body.len() as u16).to_be_bytes());
    out.extend_from_slice(body);
    Ok(())
}

fn len16(out: &mut Vec<u8>, body: &[u8]) -> Result<(), String> {
    if body.len() > 0xFFFF {
        return Err(format!("field of {} bytes does not fit its 16-bit length field", body.len()));
    }
    out.extend_from_slice(&(body.len() as u16).to_be_bytes());
    out.extend_from_slice(body);
    Ok(())
}

fn ae(out: &mut Vec<u8>, s: &str) {
    let mut b = s.as_bytes().to_vec();
    b.resize(16, b' ');
    out.extend_from_slice(&b[..16]);
}

pub fn encode_user_items(user: &[UserItem]) -> Result<Vec<u8>, String> {
    let mut u = vec![];
    for it in user {
        match it {
            UserItem::MaxLength(n) => item16(&mut u, 0x51, &n.to_be_bytes())?,
            UserItem::ImplClassUid(s) => item16(&mut u, 0x52, s.as_bytes())?,
            UserItem::ImplVersion(s) => item16(&mut u, 0x55, s.as_bytes())?,
            UserItem::Role(uid, scu, scp) => {
                let mut b = vec![];
                len16(&mut b, uid.as_bytes())?;
                b.push(*scu as u8);
                b.push(*scp as u8);
                item16(&mut u, 0x54, &b)?
            }
            UserItem::ExtNeg(uid, data) => {
                let mut b = vec![];
                len16(&mut b, uid.as_bytes())?;
                b.extend_from_slice(data);
                item16(&mut u, 0x56, &b)?
            }
            UserItem::UserIdentity { positive_response, ty, primary, secondary } => {
                let mut b = vec![*ty, *positive_response as u8];
                len16(&mut b, primary)?;
                len16(&mut b, secondary)?;
                item16(&mut u, 0x58, &b)?
            }
            UserItem::Unknown(ty, data) => item16(&mut u, *ty, data)?,
        }
    }
    Ok(u)
}

/// Encode a PDU; `Err` when some content cannot be expressed by its length field.
pub fn encode(p: &PduIr) -> Result<Vec<u8>, String> {
    let (ty, body): (u8, Vec<u8>) = match p {
        PduIr::AssocRq { protocol_version, called, calling, app_ctx, pcs, user } => {
            let mut b = vec![];
            b.extend_from_slice(&protocol_version.to_be_bytes());
            b.extend_from_slice(&[0, 0]);
            ae(&mut b, called);
            ae(&mut b, calling);
            b.extend_from_slice(&[0u8; 32]);
            item16(&mut b, 0x10, app_ctx.as_bytes())?;
            for pc in pcs {
                let mut c = vec![pc.id, 0, 0, 0];
                item16(&mut c, 0x30, pc.abstract_syntax.as_bytes())?;
                for t in &pc.transfer_syntaxes {
                    item16(&mut c, 0x40, t.as_bytes())?;
                }
                item16(&mut b, 0x20, &c)?;
            }
            if !user.is_empty() {
                let u = encode_user_items(user)?;
                item16(&mut b, 0x50, &u)?;
            }
            (0x01, b)
        }
        PduIr::AssocAc { protocol_version, called, calling, app_ctx, pcs, user } => {
            let mut b = vec![];
            b.extend_from_slice(&protocol_version.to_be_bytes());
            b.extend_from_slice(&[0, 0]);
            ae(&mut b, called);
            ae(&mut b, calling);
            b.extend_from_slice(&[0u8; 32]);
            item16(&mut b, 0x10, app_ctx.as_bytes())?;
            for pc in pcs {
                let mut c = vec![pc.id, 0, pc.reason, 0];
                item16(&mut c, 0x40, pc.transfer_syntax.as_bytes())?;
                item16(&mut b, 0x21, &c)?;
            }
            if !user.is_empty() {
                let u = encode_user_items(user)?;
                item16(&mut b, 0x50, &u)?;
            }
            (0x02, b)
        }
        PduIr::AssocRj { result, source, reason } => (0x03, vec![0, *result, *source, *reason]),
        PduIr::PData { pdvs } => {
            let mut b = vec![];
            for v in pdvs {
                let l = v.data.len() as u64 + 2;
                if l > u32::MAX as u64 {
                    return Err("PDV too long".into());
                }
                b.extend_from_slice(&(l as u32).to_be_bytes());
                b.push(v.pc_id);
                b.push((v.command as u8) | ((v.last as u8) << 1));
                b.extend_from_slice(&v.data);
            }
            (0x04, b)
        }
        PduIr::ReleaseRq => (0x05, vec![0; 4]),
        PduIr::ReleaseRp => (0x06, vec![0; 4]),
        PduIr::Abort { source, reason } => (0x07, vec![0, 0, *source, *reason]),
        PduIr::Unknown { ty, data } => (*ty, data.clone()),
    };
    if body.len() as u64 > u32::MAX as u64 {
        return Err("PDU too long".into());
    }
    let mut out = vec![ty, 0];
    out.extend_from_slice(&(body.len() as u32).to_be_bytes());
    out.extend(body);
    Ok(out)
}

struct R<'a> {
    b: &'a [u8],
    p: usize,
}
impl<'a> R<'a> {
    fn take(&mut self, n: usize, what: &str) -> Result<&'a [u8], String> {
        if self.p + n > self.b.len() {
            return Err(format!("{what}: needs {n} bytes at offset {}, only {} left", self.p, self.b.len() - self.p));
        }
        let s = &self.b[self.p..self.p + n];
        self.p += n;
        Ok(s)
    }
    fn u8(&mut self, w: &str) -> Result<u8, String> {
        Ok(self.take(1, w)?[0])
    }
    fn u16(&mut self, w: &str) -> Result<u16, String> {
        let s = self.take(2, w)?;
        Ok(u16::from_be_bytes([s[0], s[1]]))
    }
    fn u32(&mut self, w: &str) -> Result<u32, String> {
        let s = self.take(4, w)?;
        Ok(u32::from_be_bytes([s[0], s[1], s[2], s[3]]))
    }
    fn done(&self) -> bool {
        self.p == self.b.len()
    }
}

fn text(b: &[u8], what: &str) -> Result<String, String> {
    String::from_utf8(b.to_vec()).map_err(|_| format!("{what}: not text"))
}

/// item header: (type, body)
fn item<'a>(r: &mut R<'a>, what: &str) -> Result<(u8, &'a [u8]), String> {
    let ty = r.u8(what)?;
    r.u8(what)?;
    let l = r.u16(what)? as usize;
    let body = r.take(l, &format!("{what} item {ty:#04x} body"))?;
    Ok((ty, body))
}

pub fn parse_user_items(b: &[u8]) -> Result<Vec<UserItem>, String> {
    let mut r = R { b, p: 0 };
    let mut out = vec![];
    while !r.done() {
        let (ty, body) = item(&mut r, "user sub-item")?;
        let mut s = R { b: body, p: 0 };
        out.push(match ty {
            0x51 => {
                let n = s.u32("max length")?;
                if !s.done() {
                    return Err("maximum length sub-item is not 4 bytes".into());
                }
                UserItem::MaxLength(n)
            }
            0x52 => UserItem::ImplClassUid(text(body, "implementation class uid")?),
            0x55 => UserItem::ImplVersion(text(body, "implementation version name")?),
            0x54 => {
                let l = s.u16("role uid length")? as usize;
                let uid = text(s.take(l, "role uid")?, "role uid")?;
                let scu = s.u8("scu role")?;
                let scp = s.u8("scp role")?;
                if !s.done() {
                    return Err("role selection sub-item has trailing bytes".into());
                }
                UserItem::Role(uid, scu != 0, scp != 0)
            }
            0x56 => {
                let l = s.u16("ext neg uid length")? as usize;
                let uid = text(s.take(l, "ext neg uid")?, "ext neg uid")?;
                let data = s.take(body.len() - 2 - l, "ext neg data")?.to_vec();
                UserItem::ExtNeg(uid, data)
            }
            0x58 => {
                let ty = s.u8("identity type")?;
                let pr = s.u8("positive response")?;
                let l = s.u16("primary length")? as usize;
                let primary = s.take(l, "primary field")?.to_vec();
                let l = s.u16("secondary length")? as usize;
                let secondary = s.take(l, "secondary field")?.to_vec();
                if !s.done() {
                    return Err("user identity sub-item has trailing bytes".into());
                }
                UserItem::UserIdentity { positive_response: pr != 0, ty, primary, secondary }
            }
            t => UserItem::Unknown(t, body.to_vec()),
        });
    }
    Ok(out)
}

/// Parse one PDU from the front of `bytes`; returns the PDU and the number of bytes it occupies.
/// Every length field must equal the size of what it describes.
pub fn parse(bytes: &[u8]) -> Result<(PduIr, usize), String> {
    let mut r = R { b: bytes, p: 0 };
    let ty = r.u8("pdu type")?;
    r.u8("reserved")?;
    let len = r.u32("pdu length")? as usize;
    let body = r.take(len, "pdu body")?;
    let total = 6 + len;
    let mut s = R { b: body, p: 0 };
    let pdu = match ty {
        0x01 | 0x02 => {
            let protocol_version = s.u16("protocol version")?;
            s.take(2, "reserved")?;
            let called = text(s.take(16, "called AE")?, "called AE")?.trim_matches(' ').to_string();
            let calling = text(s.take(16, "calling AE")?, "calling AE")?.trim_matches(' ').to_string();
            s.take(32, "reserved")?;
            let mut app_ctx = None;
            let mut pcs_rq = vec![];
            let mut pcs_ac = vec![];
            let mut user = vec![];
            while !s.done() {
                let (ity, ib) = item(&mut s, "variable")?;
                match ity {
                    0x10 => app_ctx = Some(text(ib, "application context")?),
                    0x20 if ty == 0x01 => {
                        let mut c = R { b: ib, p: 0 };
                        let id = c.u8("pc id")?;
                        c.take(3, "reserved")?;
                        let mut abs = None;
                        let mut tss = vec![];
                        while !c.done() {
                            let (st, sb) = item(&mut c, "pc sub-item")?;
                            match st {
                                0x30 => abs = Some(text(sb, "abstract syntax")?),
                                0x40 => tss.push(text(sb, "transfer syntax")?),
                                x => return Err(format!("unexpected sub-item {x:#04x} in a proposed presentation context")),
                            }
                        }
                        pcs_rq.push(PcProposed { id, abstract_syntax: abs.ok_or("presentation context without abstract syntax")?, transfer_syntaxes: tss });
                    }
                    0x21 if ty == 0x02 => {
                        let mut c = R { b: ib, p: 0 };
                        let id = c.u8("pc id")?;
                        c.u8("reserved")?;
                        let reason = c.u8("result/reason")?;
                        c.u8("reserved")?;
                        let (st, sb) = item(&mut c, "pc result sub-item")?;
                        if st != 0x40 || !c.done() {
                            return Err("presentation context result must hold exactly one transfer syntax sub-item".into());
                        }
                        pcs_ac.push(PcResult { id, reason, transfer_syntax: text(sb, "transfer syntax")? });
                    }
                    0x50 => user.extend(parse_user_items(ib)?),
                    x => return Err(format!("unexpected variable item {x:#04x}")),
                }
            }
            let app_ctx = app_ctx.ok_or("no application context item")?;
            if ty == 0x01 {
                PduIr::AssocRq { protocol_version, called, calling, app_ctx, pcs: pcs_rq, user }
            } else {
                PduIr::AssocAc { protocol_version, called, calling, app_ctx, pcs: pcs_ac, user }
            }
        }
        0x03 => {
            if len != 4 {
                return Err(format!("A-ASSOCIATE-RJ length {len}"));
            }
            PduIr::AssocRj { result: body[1], source: body[2], reason: body[3] }
        }
        0x04 => {
            let mut pdvs = vec![];
            while !s.done() {
                let l = s.u32("pdv length")? as usize;
                if l < 2 {
                    return Err(format!("PDV item length {l} < 2"));
                }
                let pc_id = s.u8("pc id")?;
                let h = s.u8("message control header")?;
                let data = s.take(l - 2, "pdv data")?.to_vec();
                pdvs.push(Pdv { pc_id, command: h & 1 != 0, last: h & 2 != 0, data });
            }
            PduIr::PData { pdvs }
        }
        0x05 | 0x06 => {
            if len != 4 {
                return Err(format!("A-RELEASE length {len}"));
            }
            if ty == 0x05 {
                PduIr::ReleaseRq
            } else {
                PduIr::ReleaseRp
            }
        }
        0x07 => {
            if len != 4 {
                return Err(format!("A-ABORT length {len}"));
            }
            PduIr::Abort { source: body[2], reason: body[3] }
        }
        t => PduIr::Unknown { ty: t, data: body.to_vec() },
    };
    Ok((pdu, total))
}
