//! PS3.5 data set reference: intermediate representation (IR), encoder for the three
//! uncompressed transfer syntaxes, §7.1 header layout, strict structural parser.
//! Written from the standard; shares no code with dicom-rs.

use serde::{Deserialize, Serialize};
use std::collections::HashSet;

#[derive(Clone, Copy, Debug, PartialEq, Eq, Hash, Serialize, Deserialize)]
pub enum Ts {
    ImplicitLE,
    ExplicitLE,
    ExplicitBE,
}

impl Ts {
    pub const ALL: [Ts; 3] = [Ts::ImplicitLE, Ts::ExplicitLE, Ts::ExplicitBE];
    pub fn big(self) -> bool {
        self == Ts::ExplicitBE
    }
    pub fn explicit(self) -> bool {
        self != Ts::ImplicitLE
    }
    pub fn uid(self) -> &'static str {
        match self {
            Ts::ImplicitLE => "1.2.840.10008.1.2",
            Ts::ExplicitLE => "1.2.840.10008.1.2.1",
            Ts::ExplicitBE => "1.2.840.10008.1.2.2",
        }
    }
}

pub const ALL_VRS: [&str; 34] = [
    "AE", "AS", "AT", "CS", "DA", "DS", "DT", "FL", "FD", "IS", "LO", "LT", "OB", "OD", "OF", "OL",
    "OV", "OW", "PN", "SH", "SL", "SQ", "SS", "ST", "SV", "TM", "UC", "UI", "UL", "UN", "UR", "US",
    "UT", "UV",
];

/// PS3.5 §7.1.2: VRs whose explicit header uses the 16-bit length form.
pub const SHORT_VRS: [&str; 21] = [
    "AE", "AS", "AT", "CS", "DA", "DS", "DT", "FL", "FD", "IS", "LO", "LT", "PN", "SH", "SL", "SS",
    "ST", "TM", "UI", "UL", "US",
];

pub fn is_short_vr(vr: &str) -> bool {
    SHORT_VRS.contains(&vr)
}

pub const UNDEFINED: u32 = 0xFFFF_FFFF;

#[derive(Clone, Debug, PartialEq, Serialize, Deserialize)]
pub struct Elem {
    pub g: u16,
    pub e: u16,
    pub vr: String,
    pub v: Val,
}

#[derive(Clone, Debug, PartialEq, Serialize, Deserialize)]
pub struct Item {
    pub elems: Vec<Elem>,
    /// encode with an explicit item length
    pub explicit: bool,
}

#[derive(Clone, Debug, PartialEq, Serialize, Deserialize)]
pub enum Val {
    Empty,
    /// multi-valued text, joined with a backslash
    Strs(Vec<String>),
    /// one unsplit text value
    Str(String),
    U8(Vec<u8>),
    U16(Vec<u16>),
    I16(Vec<i16>),
    U32(Vec<u32>),
    I32(Vec<i32>),
    U64(Vec<u64>),
    I64(Vec<i64>),
    /// IEEE-754 bit patterns (exact, NaN-safe)
    F32(Vec<u32>),
    F64(Vec<u64>),
    Tags(Vec<(u16, u16)>),
    /// typed date / time / date-time values, given by their DICOM text
    Dates(Vec<String>),
    Times(Vec<String>),
    DateTimes(Vec<String>),
    Seq { items: Vec<Item>, explicit: bool },
    Pix { bot: Vec<u32>, frags: Vec<Vec<u8>> },
}

impl Val {
    pub fn is_seq(&self) -> bool {
        matches!(self, Val::Seq { .. })
    }
    pub fn is_pix(&self) -> bool {
        matches!(self, Val::Pix { .. })
    }
}

impl Elem {
    pub fn tag(&self) -> (u16, u16) {
        (self.g, self.e)
    }
    pub fn depth(&self) -> usize {
        match &self.v {
            Val::Seq { items, .. } => {
                1 + items
                    .iter()
                    .flat_map(|i| i.elems.iter().map(|e| e.depth()))
                    .max()
                    .unwrap_or(0)
            }
            _ => 0,
        }
    }
}

pub fn count_elems(elems: &[Elem]) -> usize {
    elems
        .iter()
        .map(|e| match &e.v {
            Val::Seq { items, .. } => 1 + items.iter().map(|i| count_elems(&i.elems)).sum::<usize>(),
            _ => 1,
        })
        .sum()
}

pub fn walk<'a>(elems: &'a [Elem], f: &mut dyn FnMut(&'a Elem, usize), depth: usize) {
    for e in elems {
        f(e, depth);
        if let Val::Seq { items, .. } = &e.v {
            for it in items {
                walk(&it.elems, f, depth + 1);
            }
        }
    }
}

fn put16(out: &mut Vec<u8>, v: u16, big: bool) {
    if big {
        out.extend_from_slice(&v.to_be_bytes())
    } else {
        out.extend_from_slice(&v.to_le_bytes())
    }
}
fn put32(out: &mut Vec<u8>, v: u32, big: bool) {
    if big {
        out.extend_from_slice(&v.to_be_bytes())
    } else {
        out.extend_from_slice(&v.to_le_bytes())
    }
}
fn put64(out: &mut Vec<u8>, v: u64, big: bool) {
    if big {
        out.extend_from_slice(&v.to_be_bytes())
    } else {
        out.extend_from_slice(&v.to_le_bytes())
    }
}

/// PS3.5 §7.1: element header bytes.  `None` if a short-form VR cannot express `len`.
pub fn header_layout(ts: Ts, vr: &str, tag: (u16, u16), len: u32) -> Option<Vec<u8>> {
    let big = ts.big();
    let mut out = Vec::with_capacity(12);
    put16(&mut out, tag.0, big);
    put16(&mut out, tag.1, big);
    if !ts.explicit() {
        put32(&mut out, len, big);
        return Some(out);
    }
    out.extend_from_slice(vr.as_bytes());
    if is_short_vr(vr) {
        if len > 0xFFFF {
            return None;
        }
        put16(&mut out, len as u16, big);
    } else {
        out.extend_from_slice(&[0, 0]);
        put32(&mut out, len, big);
    }
    Some(out)
}

/// item / item delimiter / sequence delimiter: tag + 32-bit length, no VR, in any syntax
pub fn item_header(ts: Ts, tag: (u16, u16), len: u32) -> Vec<u8> {
    let mut out = Vec::with_capacity(8);
    put16(&mut out, tag.0, ts.big());
    put16(&mut out, tag.1, ts.big());
    put32(&mut out, len, ts.big());
    out
}

/// The pad byte of PS3.5 §6.2: NUL for UI and the binary VRs, space for character strings.
pub fn pad_byte(vr: &str) -> u8 {
    match vr {
        "UI" | "OB" | "UN" | "OW" | "OD" | "OF" | "OL" | "OV" | "AT" | "FL" | "FD" | "SL" | "SS"
        | "SV" | "UL" | "US" | "UV" | "SQ" => 0,
        _ => b' ',
    }
}

/// Value field of a primitive value: bytes exactly as PS3.5 prescribes (padded to even).
pub fn encode_value(vr: &str, v: &Val, big: bool) -> Vec<u8> {
    let mut out = Vec::new();
    match v {
        Val::Empty => {}
        Val::Strs(s) => out.extend_from_slice(s.join("\\").as_bytes()),
        Val::Str(s) => out.extend_from_slice(s.as_bytes()),
        Val::Dates(s) | Val::Times(s) | Val::DateTimes(s) => {
            out.extend_from_slice(s.join("\\").as_bytes())
        }
        Val::U8(b) => out.extend_from_slice(b),
        Val::U16(x) => {
            if is_text_vr(vr) {
                out.extend_from_slice(join_num(x).as_bytes())
            } else {
                x.iter().for_each(|v| put16(&mut out, *v, big))
            }
        }
        Val::I16(x) => {
            if is_text_vr(vr) {
                out.extend_from_slice(join_num(x).as_bytes())
            } else {
                x.iter().for_each(|v| put16(&mut out, *v as u16, big))
            }
        }
        Val::U32(x) => {
            if is_text_vr(vr) {
                out.extend_from_slice(join_num(x).as_bytes())
            } else {
                x.iter().for_each(|v| put32(&mut out, *v, big))
            }
        }
        Val::I32(x) => {
            if is_text_vr(vr) {
                out.extend_from_slice(join_num(x).as_bytes())
            } else {
                x.iter().for_each(|v| put32(&mut out, *v as u32, big))
            }
        }
        Val::U64(x) => {
            if is_text_vr(vr) {
                out.extend_from_slice(join_num(x).as_bytes())
            } else {
                x.iter().for_each(|v| put64(&mut out, *v, big))
            }
        }
        Val::I64(x) => {
            if is_text_vr(vr) {
                out.extend_from_slice(join_num(x).as_bytes())
            } else {
                x.iter().for_each(|v| put64(&mut out, *v as u64, big))
            }
        }
        Val::F32(x) => x.iter().for_each(|v| put32(&mut out, *v, big)),
        Val::F64(x) => {
            if is_text_vr(vr) {
                // decimal string of a number given in binary form (any exact decimal text is valid)
                let t: Vec<String> = x.iter().map(|b| format!("{}", f64::from_bits(*b))).collect();
                out.extend_from_slice(t.join("\\").as_bytes())
            } else {
                x.iter().for_each(|v| put64(&mut out, *v, big))
            }
        }
        Val::Tags(t) => t.iter().for_each(|(g, e)| {
            put16(&mut out, *g, big);
            put16(&mut out, *e, big);
        }),
        Val::Seq { .. } | Val::Pix { .. } => panic!("encode_value on a non-primitive value"),
    }
    if out.len() % 2 == 1 {
        out.push(pad_byte(vr));
    }
    out
}

fn join_num<T: ToString>(x: &[T]) -> String {
    x.iter().map(|v| v.to_string()).collect::<Vec<_>>().join("\\")
}

pub fn is_text_vr(vr: &str) -> bool {
    matches!(
        vr,
        "AE" | "AS" | "CS" | "DA" | "DS" | "DT" | "IS" | "LO" | "LT" | "PN" | "SH" | "ST" | "TM" | "UC"
            | "UI" | "UR" | "UT"
    )
}

#[derive(Clone, Copy, Debug, PartialEq, Eq)]
pub enum LenMode {
    /// follow the per-sequence / per-item flags in the IR
    AsFlagged,
    /// every sequence and item with undefined length
    AllUndefined,
    /// sequences as flagged, every item with undefined length
    /// (what an in-memory object built from parts looks like)
    SeqFlaggedItemsUndefined,
}

pub const ITEM: (u16, u16) = (0xFFFE, 0xE000);
pub const ITEM_DELIM: (u16, u16) = (0xFFFE, 0xE00D);
pub const SEQ_DELIM: (u16, u16) = (0xFFFE, 0xE0DD);
pub const PIXEL_DATA: (u16, u16) = (0x7FE0, 0x0010);

/// Encode a data set.  Panics if a short-form VR value exceeds 65 535 bytes in an explicit
/// syntax (generators keep such values out).
pub fn encode_ds(elems: &[Elem], ts: Ts, mode: LenMode) -> Vec<u8> {
    let mut out = Vec::new();
    for e in elems {
        encode_elem(&mut out, e, ts, mode);
    }
    out
}

pub fn encode_elem(out: &mut Vec<u8>, e: &Elem, ts: Ts, mode: LenMode) {
    match &e.v {
        Val::Seq { items, explicit } => {
            let mut body = Vec::new();
            for it in items {
                let inner = encode_ds(&it.elems, ts, mode);
                if it.explicit && mode == LenMode::AsFlagged {
                    body.extend(item_header(ts, ITEM, inner.len() as u32));
                    body.extend(inner);
                } else {
                    body.extend(item_header(ts, ITEM, UNDEFINED));
                    body.extend(inner);
                    body.extend(item_header(ts, ITEM_DELIM, 0));
                }
            }
            if *explicit && mode != LenMode::AllUndefined {
                out.extend(header_layout(ts, "SQ", e.tag(), body.len() as u32).unwrap());
                out.extend(body);
            } else {
                out.extend(header_layout(ts, "SQ", e.tag(), UNDEFINED).unwrap());
                out.extend(body);
                out.extend(item_header(ts, SEQ_DELIM, 0));
            }
        }
        Val::Pix { bot, frags } => {
            out.extend(header_layout(ts, &e.vr, e.tag(), UNDEFINED).unwrap());
            out.extend(item_header(ts, ITEM, (bot.len() * 4) as u32));
            for o in bot {
                put32(out, *o, ts.big());
            }
            for f in frags {
                out.extend(item_header(ts, ITEM, f.len() as u32));
                out.extend_from_slice(f);
            }
            out.extend(item_header(ts, SEQ_DELIM, 0));
        }
        v => {
            let bytes = encode_value(&e.vr, v, ts.big());
            out.extend(
                header_layout(ts, &e.vr, e.tag(), bytes.len() as u32)
                    .expect("value too long for a 16-bit length VR"),
            );
            out.extend(bytes);
        }
    }
}

/// encoded size of a data set
pub fn encoded_len(elems: &[Elem], ts: Ts, mode: LenMode) -> usize {
    encode_ds(elems, ts, mode).len()
}

// ------------------------------------------------------------------------------------------
// Strict structural parser

#[derive(Clone, Debug, PartialEq)]
pub struct PElem {
    pub tag: (u16, u16),
    /// VR as written (explicit syntaxes) or None (implicit)
    pub vr: Option<String>,
    pub declared_len: u32,
    pub offset: usize,
    pub value: PVal,
}

#[derive(Clone, Debug, PartialEq)]
pub enum PVal {
    Bytes(Vec<u8>),
    Seq(Vec<PItem>),
    Pix { bot: Vec<u8>, frags: Vec<Vec<u8>>, frag_offsets: Vec<usize> },
}

#[derive(Clone, Debug, PartialEq)]
pub struct PItem {
    pub declared_len: u32,
    pub elems: Vec<PElem>,
    pub offset: usize,
}

pub struct ParseOpts<'a> {
    pub ts: Ts,
    /// tags that are sequences (needed for Implicit VR with defined lengths)
    pub sq_tags: Option<&'a HashSet<(u16, u16)>>,
    /// require every defined length to be even
    pub require_even: bool,
    /// require ascending unique tags inside every data set
    pub require_ascending: bool,
}

struct P<'a> {
    b: &'a [u8],
    pos: usize,
    o: &'a ParseOpts<'a>,
}

impl<'a> P<'a> {
    fn u16(&mut self) -> Result<u16, String> {
        if self.pos + 2 > self.b.len() {
            return Err(format!("truncated at offset {}", self.pos));
        }
        let x = [self.b[self.pos], self.b[self.pos + 1]];
        self.pos += 2;
        Ok(if self.o.ts.big() { u16::from_be_bytes(x) } else { u16::from_le_bytes(x) })
    }
    fn u32(&mut self) -> Result<u32, String> {
        if self.pos + 4 > self.b.len() {
            return Err(format!("truncated at offset {}", self.pos));
        }
        let x = [self.b[self.pos], self.b[self.pos + 1], self.b[self.pos + 2], self.b[self.pos + 3]];
        self.pos += 4;
        Ok(if self.o.ts.big() { u32::from_be_bytes(x) } else { u32::from_le_bytes(x) })
    }
    fn tag(&mut self) -> Result<(u16, u16), String> {
        Ok((self.u16()?, self.u16()?))
    }
    fn take(&mut self, n: usize) -> Result<&'a [u8], String> {
        if self.pos + n > self.b.len() {
            return Err(format!(
                "value of {} bytes at offset {} exceeds the stream ({} bytes)",
                n,
                self.pos,
                self.b.len()
            ));
        }
        let s = &self.b[self.pos..self.pos + n];
        self.pos += n;
        Ok(s)
    }

    /// parse elements until `end` (Some) or until an item delimiter (None → returns at delimiter consumed)
    fn dataset(&mut self, end: Option<usize>, in_item: bool) -> Result<Vec<PElem>, String> {
        let mut out: Vec<PElem> = vec![];
        loop {
            if let Some(end) = end {
                if self.pos == end {
                    return Ok(out);
                }
                if self.pos > end {
                    return Err(format!("content overruns its defined length (pos {} > end {})", self.pos, end));
                }
            } else if !in_item && self.pos == self.b.len() {
                return Ok(out);
            }
            let off = self.pos;
            let tag = self.tag()?;
            if tag == ITEM_DELIM {
                let l = self.u32()?;
                if l != 0 {
                    return Err(format!("item delimiter with length {l} at {off}"));
                }
                if end.is_some() || !in_item {
                    return Err(format!("unexpected item delimiter at offset {off}"));
                }
                return Ok(out);
            }
            if tag.0 == 0xFFFE {
                return Err(format!("unexpected tag ({:04X},{:04X}) at offset {off}", tag.0, tag.1));
            }
            if self.o.require_ascending {
                if let Some(prev) = out.last() {
                    if prev.tag >= tag {
                        return Err(format!("tags not ascending at offset {off}: {:?} after {:?}", tag, prev.tag));
                    }
                }
            }
            let (vr, len) = if self.o.ts.explicit() {
                let v = self.take(2)?;
                let vr = String::from_utf8(v.to_vec()).map_err(|_| format!("bad VR bytes at {off}"))?;
                if !ALL_VRS.contains(&vr.as_str()) {
                    return Err(format!("unknown VR {vr:?} at offset {off}"));
                }
                if is_short_vr(&vr) {
                    let l = self.u16()? as u32;
                    (Some(vr), l)
                } else {
                    let r = self.take(2)?;
                    if r != [0, 0] {
                        return Err(format!("reserved bytes not zero at offset {off}"));
                    }
                    let l = self.u32()?;
                    (Some(vr), l)
                }
            } else {
                (None, self.u32()?)
            };
            let is_sq = match &vr {
                Some(v) => v == "SQ",
                None => {
                    (len == UNDEFINED && tag != PIXEL_DATA)
                        || self.o.sq_tags.map(|s| s.contains(&tag)).unwrap_or(false)
                }
            };
            let value = if is_sq {
                PVal::Seq(self.sequence(len)?)
            } else if len == UNDEFINED {
                // encapsulated pixel data
                match vr.as_deref() {
                    Some("OB") | Some("OW") | Some("UN") | None => {}
                    Some(o) => return Err(format!("undefined length on VR {o} at offset {off}")),
                }
                self.pixseq()?
            } else {
                if self.o.require_even && len % 2 == 1 {
                    return Err(format!("odd value length {len} for ({:04X},{:04X}) at offset {off}", tag.0, tag.1));
                }
                PVal::Bytes(self.take(len as usize)?.to_vec())
            };
            out.push(PElem { tag, vr, declared_len: len, offset: off, value });
        }
    }

    fn sequence(&mut self, len: u32) -> Result<Vec<PItem>, String> {
        let mut items = vec![];
        let end = if len == UNDEFINED { None } else { Some(self.pos + len as usize) };
        if let Some(e) = end {
            if e > self.b.len() {
                return Err(format!("sequence length {len} exceeds stream at {}", self.pos));
            }
            if self.o.require_even && len % 2 == 1 {
                return Err(format!("odd sequence length {len}"));
            }
        }
        loop {
            if let Some(e) = end {
                if self.pos == e {
                    return Ok(items);
                }
                if self.pos > e {
                    return Err("items overrun the sequence length".into());
                }
            }
            let off = self.pos;
            let tag = self.tag()?;
            let l = self.u32()?;
            if tag == SEQ_DELIM {
                if end.is_some() {
                    return Err(format!("sequence delimiter inside defined-length sequence at {off}"));
                }
                if l != 0 {
                    return Err(format!("sequence delimiter with length {l}"));
                }
                return Ok(items);
            }
            if tag != ITEM {
                return Err(format!("expected item at offset {off}, found ({:04X},{:04X})", tag.0, tag.1));
            }
            if l == UNDEFINED {
                let elems = self.dataset(None, true)?;
                items.push(PItem { declared_len: l, elems, offset: off });
            } else {
                if self.o.require_even && l % 2 == 1 {
                    return Err(format!("odd item length {l} at {off}"));
                }
                let e = self.pos + l as usize;
                if e > self.b.len() {
                    return Err(format!("item length {l} exceeds stream at {off}"));
                }
                let elems = self.dataset(Some(e), true)?;
                items.push(PItem { declared_len: l, elems, offset: off });
            }
        }
    }

    fn pixseq(&mut self) -> Result<PVal, String> {
        let mut bot = None;
        let mut frags = vec![];
        let mut frag_offsets = vec![];
        loop {
            let off = self.pos;
            let tag = self.tag()?;
            let l = self.u32()?;
            if tag == SEQ_DELIM {
                if l != 0 {
                    return Err("sequence delimiter with non-zero length".into());
                }
                let bot = bot.ok_or("pixel sequence without offset table item")?;
                return Ok(PVal::Pix { bot, frags, frag_offsets });
            }
            if tag != ITEM {
                return Err(format!("expected fragment item at {off}, found ({:04X},{:04X})", tag.0, tag.1));
            }
            if l == UNDEFINED {
                return Err(format!("fragment with undefined length at {off}"));
            }
            if self.o.require_even && l % 2 == 1 {
                return Err(format!("odd fragment length {l} at offset {off}"));
            }
            let data = self.take(l as usize)?.to_vec();
            if bot.is_none() {
                bot = Some(data);
            } else {
                frag_offsets.push(off);
                frags.push(data);
            }
        }
    }
}

/// Parse a complete data set stream; every structural rule of PS3.5 §7 is enforced.
pub fn parse_strict(bytes: &[u8], opts: &ParseOpts) -> Result<Vec<PElem>, String> {
    let mut p = P { b: bytes, pos: 0, o: opts };
    let r = p.dataset(Some(bytes.len()), false)?;
    Ok(r)
}

/// Collect the tags that hold sequences anywhere in the IR (hint for implicit VR parsing).
pub fn sq_tags(elems: &[Elem]) -> HashSet<(u16, u16)> {
    let mut s = HashSet::new();
    walk(
        elems,
        &mut |e, _| {
            if e.v.is_seq() {
                s.insert(e.tag());
            }
        },
        0,
    );
    s
}
