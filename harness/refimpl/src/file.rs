//! PS3.10 file layout reference parser: preamble, "DICM", group 0002 (Explicit VR LE).
use crate::ds::{parse_strict, PElem, PVal, ParseOpts, Ts};

#[derive(Debug, Clone)]
pub struct ParsedFile {
    pub meta: Vec<PElem>,
    pub declared_group_length: u32,
    /// bytes of the meta group after the group length element
    pub actual_group_length: usize,
    pub transfer_syntax: String,
    pub dataset_offset: usize,
}

fn text(v: &PVal) -> String {
    match v {
        PVal::Bytes(b) => String::from_utf8_lossy(b).trim_end_matches(['\0', ' ']).to_string(),
        _ => String::new(),
    }
}

/// Parse `preamble + DICM + meta group`; returns the meta elements and where the data set begins.
pub fn parse_file_head(bytes: &[u8]) -> Result<ParsedFile, String> {
    if bytes.len() < 132 + 12 {
        return Err("file shorter than preamble + magic + group length".into());
    }
    if &bytes[128..132] != b"DICM" {
        return Err("missing DICM magic code after the 128-byte preamble".into());
    }
    let m = &bytes[132..];
    // (0002,0000) UL 4
    if m[0..8] != [0x02, 0x00, 0x00, 0x00, b'U', b'L', 0x04, 0x00] {
        return Err(format!("meta group does not start with (0002,0000) UL 4: {:02x?}", &m[0..8]));
    }
    let gl = u32::from_le_bytes([m[8], m[9], m[10], m[11]]);
    // find the end of group 0002 by walking elements
    let opts = ParseOpts { ts: Ts::ExplicitLE, sq_tags: None, require_even: true, require_ascending: true };
    // walk manually: parse progressively until group != 0002
    let mut end = 12usize;
    loop {
        if end + 8 > m.len() {
            break;
        }
        let g = u16::from_le_bytes([m[end], m[end + 1]]);
        if g != 0x0002 {
            break;
        }
        // a compressed data set may happen to start with bytes 02 00: a group-0002 element
        // must also carry a defined VR code, otherwise the meta group has ended
        let vr = match std::str::from_utf8(&m[end + 4..end + 6]) {
            Ok(v) if crate::ds::ALL_VRS.contains(&v) => v,
            _ => break,
        };
        let (hl, len) = if crate::ds::is_short_vr(vr) {
            (8, u16::from_le_bytes([m[end + 6], m[end + 7]]) as usize)
        } else {
            if end + 12 > m.len() {
                return Err("truncated meta element".into());
            }
            (12, u32::from_le_bytes([m[end + 8], m[end + 9], m[end + 10], m[end + 11]]) as usize)
        };
        end += hl + len;
        if end > m.len() {
            return Err("meta element overruns the file".into());
        }
    }
    let meta = parse_strict(&m[..end], &opts).map_err(|e| format!("meta group: {e}"))?;
    let ts = meta
        .iter()
        .find(|e| e.tag == (0x0002, 0x0010))
        .map(|e| text(&e.value))
        .ok_or("no Transfer Syntax UID in the meta group")?;
    Ok(ParsedFile {
        meta,
        declared_group_length: gl,
        actual_group_length: end - 12,
        transfer_syntax: ts,
        dataset_offset: 132 + end,
    })
}

/// Build a PS3.10 file: 128-byte preamble, "DICM", a minimal meta group, then the data set bytes.
pub fn build_file(ts_uid: &str, sop_class: &str, sop_instance: &str, dataset: &[u8], preamble: bool) -> Vec<u8> {
    use crate::ds::{encode_ds, Elem, LenMode, Val};
    let ui = |e: u16, s: &str| Elem { g: 2, e, vr: "UI".into(), v: Val::Strs(vec![s.to_string()]) };
    let rest = vec![
        Elem { g: 2, e: 1, vr: "OB".into(), v: Val::U8(vec![0, 1]) },
        ui(2, sop_class),
        ui(3, sop_instance),
        ui(0x10, ts_uid),
        ui(0x12, "1.2.826.0.1.3680043.10.1462.1"),
        Elem { g: 2, e: 0x13, vr: "SH".into(), v: Val::Strs(vec!["VERIF_REF".into()]) },
    ];
    let rest_bytes = encode_ds(&rest, Ts::ExplicitLE, LenMode::AllUndefined);
    let gl = vec![Elem { g: 2, e: 0, vr: "UL".into(), v: Val::U32(vec![rest_bytes.len() as u32]) }];
    let mut out = vec![];
    if preamble {
        out.extend_from_slice(&[0u8; 128]);
    }
    out.extend_from_slice(b"DICM");
    out.extend(encode_ds(&gl, Ts::ExplicitLE, LenMode::AllUndefined));
    out.extend(rest_bytes);
    out.extend_from_slice(dataset);
    out
}
