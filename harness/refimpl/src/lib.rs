//! Independent reference implementations used as oracles.  This crate must not depend on
//! any dicom-rs crate (see Cargo.toml).
pub mod annex_f;
pub mod dict;
pub mod ds;
pub mod file;
pub mod lut;
pub mod negotiate;
pub mod pdu;
pub mod rle;
