//! PS3.5 Annex G reference RLE encoder with caller-controlled run segmentation, plus a plain
//! PackBits decoder used to self-check the encoder.  Written from the standard.

/// Cyclic tape of generated choices; all randomness of the encoder comes from here so that a
/// case shrinks and replays as plain data.
pub struct Tape<'a> {
    t: &'a [u8],
    i: usize,
}

impl<'a> Tape<'a> {
    pub fn new(t: &'a [u8]) -> Self {
        Tape { t, i: 0 }
    }
    fn next(&mut self) -> u8 {
        if self.t.is_empty() {
            return 1;
        }
        let v = self.t[self.i % self.t.len()];
        self.i += 1;
        v
    }
}

#[derive(Default, Debug, Clone)]
pub struct RleStats {
    pub literal_runs: usize,
    pub replicate_runs: usize,
    pub noops: usize,
    pub max_len_runs: usize,
    pub split_replicates: usize,
    pub padded_segments: usize,
}

/// PackBits-encode one row.  Every emitted run is legal per G.3.1: literal runs of 1..=128
/// bytes (header 0..=127), replicate runs of 2..=128 bytes (header -1..=-127), and the
/// no-op header -128.
fn packbits_row(row: &[u8], tape: &mut Tape, out: &mut Vec<u8>, st: &mut RleStats) {
    let n = row.len();
    let mut i = 0;
    let mut noops_here = 0;
    while i < n {
        let c = tape.next();
        if c % 23 == 0 && noops_here < 3 {
            out.push(0x80);
            st.noops += 1;
            noops_here += 1;
            continue;
        }
        let mut run = 1;
        while i + run < n && row[i + run] == row[i] && run < 128 {
            run += 1;
        }
        let want_rep = c % 4 != 3;
        if run >= 2 && want_rep {
            // replicate: whole run, or a strict part of it
            let d = tape.next();
            let len = if d % 3 == 0 && run > 2 { 2 + (d as usize / 3) % (run - 1) } else { run };
            let len = len.clamp(2, run);
            if len < run {
                st.split_replicates += 1;
            }
            if len == 128 {
                st.max_len_runs += 1;
            }
            out.push((257 - len) as u8);
            out.push(row[i]);
            st.replicate_runs += 1;
            i += len;
        } else {
            let d = tape.next();
            let max = (n - i).min(128);
            let len = match d % 8 {
                0 => 1,
                1 => 2.min(max),
                2 => 127.min(max),
                3 | 4 => max,
                _ => 1 + (d as usize / 8) % max,
            };
            if len == 128 {
                st.max_len_runs += 1;
            }
            out.push((len - 1) as u8);
            out.extend_from_slice(&row[i..i + len]);
            st.literal_runs += 1;
            i += len;
        }
    }
}

/// Encode one frame given as little-endian, pixel-interleaved bytes.
/// Segments: for each sample, most significant byte plane first (G.2); each row encoded
/// separately (G.3.1); each segment zero-padded to even length; 64-byte header (G.5).
pub fn encode_frame(frame: &[u8], rows: usize, cols: usize, samples: usize, bytes_per_sample: usize, tape: &mut Tape, st: &mut RleStats) -> Vec<u8> {
    assert_eq!(frame.len(), rows * cols * samples * bytes_per_sample);
    let nseg = samples * bytes_per_sample;
    assert!(nseg <= 15);
    let mut segs: Vec<Vec<u8>> = vec![];
    for s in 0..samples {
        for b_from_msb in 0..bytes_per_sample {
            let mut seg = vec![];
            for r in 0..rows {
                let row: Vec<u8> = (0..cols).map(|c| frame[((r * cols + c) * samples + s) * bytes_per_sample + (bytes_per_sample - 1 - b_from_msb)]).collect();
                packbits_row(&row, tape, &mut seg, st);
            }
            if seg.len() % 2 == 1 {
                seg.push(0);
                st.padded_segments += 1;
            }
            segs.push(seg);
        }
    }
    let mut out = vec![0u8; 64];
    out[0..4].copy_from_slice(&(nseg as u32).to_le_bytes());
    let mut off = 64u32;
    for (k, seg) in segs.iter().enumerate() {
        out[4 + 4 * k..8 + 4 * k].copy_from_slice(&off.to_le_bytes());
        off += seg.len() as u32;
    }
    for seg in segs {
        out.extend_from_slice(&seg);
    }
    out
}

/// Straightforward PackBits decoder (G.3.2), stops after `limit` output bytes.
pub fn unpack(seg: &[u8], limit: usize) -> Vec<u8> {
    let mut out = vec![];
    let mut i = 0;
    while i < seg.len() && out.len() < limit {
        let h = seg[i] as i8;
        i += 1;
        if h >= 0 {
            let n = h as usize + 1;
            let end = (i + n).min(seg.len());
            out.extend_from_slice(&seg[i..end]);
            i = end;
        } else if h != -128 {
            if i >= seg.len() {
                break;
            }
            let n = 1 - h as isize;
            out.extend(std::iter::repeat(seg[i]).take(n as usize));
            i += 1;
        }
    }
    out.truncate(limit);
    out
}

/// Decode a fragment produced by `encode_frame` back to little-endian interleaved bytes
/// (self-check of the reference encoder only).
pub fn decode_frame(frag: &[u8], rows: usize, cols: usize, samples: usize, bytes_per_sample: usize) -> Vec<u8> {
    let nseg = u32::from_le_bytes([frag[0], frag[1], frag[2], frag[3]]) as usize;
    let mut offs: Vec<usize> = (0..nseg).map(|k| u32::from_le_bytes([frag[4 + 4 * k], frag[5 + 4 * k], frag[6 + 4 * k], frag[7 + 4 * k]]) as usize).collect();
    offs.push(frag.len());
    let mut out = vec![0u8; rows * cols * samples * bytes_per_sample];
    for s in 0..samples {
        for b in 0..bytes_per_sample {
            let k = s * bytes_per_sample + b;
            let plane = unpack(&frag[offs[k]..offs[k + 1]], rows * cols);
            for (p, v) in plane.iter().enumerate() {
                out[(p * samples + s) * bytes_per_sample + (bytes_per_sample - 1 - b)] = *v;
            }
        }
    }
    out
}

#[cfg(test)]
mod tests {
    use super::*;
    #[test]
    fn roundtrip() {
        let frame: Vec<u8> = (0..(5 * 7 * 3 * 2)).map(|i| ((i * 7) % 5) as u8).collect();
        for tape in [&[1u8, 2, 3][..], &[0, 23, 46, 3, 7, 9, 200, 13], &[3, 3, 3, 2], &[]] {
            let mut st = RleStats::default();
            let f = encode_frame(&frame, 5, 7, 3, 2, &mut Tape::new(tape), &mut st);
            assert_eq!(f.len() % 2, 0);
            assert_eq!(decode_frame(&f, 5, 7, 3, 2), frame);
        }
    }
}
