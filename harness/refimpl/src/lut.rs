//! PS3.3 C.7.6.3.1.2 / C.11.1 / C.11.2 reference: stored value interpretation, modality
//! rescale, and the three window functions.  Written from the standard.

/// Interpret a stored pixel value: bits above the high bit are ignored; two's complement
/// over `bits_stored` bits when signed.
pub fn interpret(raw: u32, bits_stored: u32, signed: bool) -> i64 {
    let m = (raw as u64 & ((1u64 << bits_stored) - 1)) as i64;
    if signed && m >= (1i64 << (bits_stored - 1)) { m - (1i64 << bits_stored) } else { m }
}

#[derive(Clone, Copy, Debug, PartialEq, Eq)]
pub enum Func {
    Linear,
    LinearExact,
    Sigmoid,
}

/// C.11.1.1.2: output units = m * SV + b
pub fn rescale(x: f64, slope: f64, intercept: f64) -> f64 {
    slope * x + intercept
}

/// the documented handling of widths the standard forbids: LINEAR and SIGMOID need w >= 1,
/// LINEAR_EXACT needs w >= 0 (dicom-rs documents clamping to these bounds)
pub fn clamp_width(f: Func, w: f64) -> f64 {
    match f {
        Func::LinearExact => w.max(0.0),
        _ => w.max(1.0),
    }
}

/// C.11.2.1.2.1 (LINEAR), C.11.2.1.3.2 (LINEAR_EXACT), C.11.2.1.3.1 (SIGMOID), ymin = 0
pub fn window(f: Func, x: f64, c: f64, w: f64, ymax: f64) -> f64 {
    match f {
        Func::Linear => {
            if x <= c - 0.5 - (w - 1.0) / 2.0 {
                0.0
            } else if x > c - 0.5 + (w - 1.0) / 2.0 {
                ymax
            } else {
                ((x - (c - 0.5)) / (w - 1.0) + 0.5) * ymax
            }
        }
        Func::LinearExact => {
            if x <= c - w / 2.0 {
                0.0
            } else if x > c + w / 2.0 {
                ymax
            } else {
                ((x - c) / w + 0.5) * ymax
            }
        }
        Func::Sigmoid => ymax / (1.0 + (-4.0 * (x - c) / w).exp()),
    }
}

#[cfg(test)]
mod tests {
    use super::*;
    #[test]
    fn basics() {
        assert_eq!(interpret(0xFFFF, 12, false), 4095);
        assert_eq!(interpret(0x0800, 12, true), -2048);
        assert_eq!(interpret(0xF7FF, 12, true), 2047);
        assert_eq!(interpret(1, 1, true), -1);
        assert_eq!(window(Func::Linear, 50.0, 50.0, 300.0, 255.0).round(), 128.0);
        assert_eq!(window(Func::LinearExact, 0.0, 0.0, 0.0, 255.0), 0.0);
        assert_eq!(window(Func::LinearExact, 0.1, 0.0, 0.0, 255.0), 255.0);
    }
}
