//! Acceptor negotiation model written from the statement of C28 (PS3.8 §7.1.1 / §9.3.3).
use crate::pdu::{PcProposed, PduIr, UserItem};
use serde::{Deserialize, Serialize};

#[derive(Clone, Debug, Serialize, Deserialize)]
pub struct AcceptorCfg {
    pub ae_title: String,
    pub abstract_syntaxes: Vec<String>,
    pub transfer_syntaxes: Vec<String>,
    pub promiscuous: bool,
    /// access control: accept only requests whose called AE title is ours
    pub accept_called_only: bool,
    /// the acceptor's own maximum PDU length, when configured (what it announces and applies to what it receives;
    /// it must not influence what is recorded for the requestor)
    #[serde(default)]
    pub max_pdu_length: Option<u32>,
}

pub const STD_APP_CTX: &str = "1.2.840.10008.3.1.1.1";
pub const IMPLICIT_LE: &str = "1.2.840.10008.1.2";

#[derive(Clone, Debug, PartialEq, Serialize, Deserialize)]
pub enum Outcome {
    /// rejected: (source, reason) when the statement pins it down, None when it does not
    Reject(Option<(u8, u8)>),
    /// one (id, result/reason code, accepted transfer syntax when accepted) per proposed context, in order
    Accept { results: Vec<(u8, u8, Option<String>)>, peer_max: u32 },
}

pub fn trim_uid(s: &str) -> &str {
    s.trim_end_matches('\0')
}

pub fn negotiate(cfg: &AcceptorCfg, req: &PduIr, supported: &dyn Fn(&str) -> bool, max_supported: u32, default_max: u32) -> Outcome {
    let PduIr::AssocRq { protocol_version, called, app_ctx, pcs, user, .. } = req else {
        return Outcome::Reject(None);
    };
    if *protocol_version != 1 {
        return Outcome::Reject(None); // "rejected with the matching reason": which one is not pinned down
    }
    if app_ctx != STD_APP_CTX {
        return Outcome::Reject(Some((1, 2))); // service-user, application-context-name-not-supported
    }
    if cfg.accept_called_only && *called != cfg.ae_title {
        return Outcome::Reject(Some((1, 7))); // service-user, called-AE-title-not-recognized
    }
    let mut peer_max = default_max;
    for u in user {
        if let UserItem::MaxLength(n) = u {
            peer_max = if *n == 0 { max_supported } else { (*n).min(max_supported) };
        }
    }
    let cfg_abs: Vec<&str> = cfg.abstract_syntaxes.iter().map(|s| trim_uid(s)).collect();
    let cfg_ts: Vec<&str> = cfg.transfer_syntaxes.iter().map(|s| trim_uid(s)).collect();
    let results = pcs
        .iter()
        .map(|pc: &PcProposed| {
            let abs = trim_uid(&pc.abstract_syntax);
            if !(cfg_abs.contains(&abs) || cfg.promiscuous) {
                return (pc.id, 3, None); // abstract-syntax-not-supported
            }
            let chosen = pc.transfer_syntaxes.iter().map(|t| trim_uid(t)).find(|t| (cfg_ts.is_empty() || cfg_ts.contains(t)) && supported(t));
            match chosen {
                Some(t) => (pc.id, 0, Some(t.to_string())),
                None => (pc.id, 4, None), // transfer-syntaxes-not-supported
            }
        })
        .collect();
    Outcome::Accept { results, peer_max }
}
