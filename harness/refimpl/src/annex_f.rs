//! PS3.18 Annex F (DICOM JSON Model) validator, written from the standard.
use crate::ds::{encode_value, Elem, Val};
use base64::Engine;
use serde_json::Value;

fn is_tag_key(k: &str) -> bool {
    k.len() == 8 && k.bytes().all(|b| b.is_ascii_digit() || (b'A'..=b'F').contains(&b))
}

/// Validate a serialised data set against Annex F and against the IR it was produced from.
/// Returns (clause, detail) of the first violation.
pub fn validate(json: &Value, ir: &[Elem], path: &str) -> Result<(), (String, String)> {
    let obj = json.as_object().ok_or_else(|| ("data set is not a JSON object".to_string(), path.to_string()))?;
    // keys: eight upper-case hex digits, ascending (serde_json is built with preserve_order, so this is the textual order)
    let keys: Vec<&String> = obj.keys().collect();
    for k in &keys {
        if !is_tag_key(k) {
            return Err(("attribute key is not eight upper-case hexadecimal digits".into(), format!("{path}: key {k:?}")));
        }
    }
    for w in keys.windows(2) {
        if w[0] >= w[1] {
            return Err(("attribute keys are not in ascending order".into(), format!("{path}: {} then {}", w[0], w[1])));
        }
    }
    if keys.len() != ir.len() {
        return Err(("number of attributes differs from the data set".into(), format!("{path}: {} vs {}", keys.len(), ir.len())));
    }
    for e in ir {
        let key = format!("{:04X}{:04X}", e.g, e.e);
        let here = format!("{path}/{key}");
        let el = obj.get(&key).ok_or_else(|| ("attribute missing from the JSON object".to_string(), here.clone()))?;
        let el = el.as_object().ok_or_else(|| ("attribute is not a JSON object".to_string(), here.clone()))?;
        let vr = el.get("vr").and_then(|v| v.as_str()).ok_or_else(|| ("attribute without a \"vr\" string member".to_string(), here.clone()))?;
        if vr != e.vr {
            return Err(("\"vr\" member differs from the element's VR".into(), format!("{here}: {vr} vs {}", e.vr)));
        }
        for k in el.keys() {
            if !["vr", "Value", "InlineBinary", "BulkDataURI"].contains(&k.as_str()) {
                return Err(("unknown member in an attribute object".into(), format!("{here}: {k}")));
            }
        }
        let value = el.get("Value");
        let inline = el.get("InlineBinary");
        if value.is_some() && inline.is_some() {
            return Err(("both Value and InlineBinary present".into(), here));
        }
        // empty values: neither member
        // "empty" = the DICOM value has length zero
        let empty = match &e.v {
            Val::Seq { items, .. } => items.is_empty(),
            Val::Pix { .. } => false,
            v => encode_value(&e.vr, v, false).is_empty(),
        };
        if empty {
            if value.is_some() || inline.is_some() {
                return Err((
                    format!("empty value has a {} member:{}", if value.is_some() { "Value" } else { "InlineBinary" }, if e.vr == "SQ" { "SQ" } else { "primitive" }),
                    format!("{here}: {}", serde_json::to_string(&Value::Object(el.clone())).unwrap_or_default()),
                ));
            }
            continue;
        }
        match e.vr.as_str() {
            "OB" | "OD" | "OF" | "OL" | "OV" | "OW" | "UN" => {
                let s = inline.and_then(|v| v.as_str()).ok_or_else(|| (format!("binary VR without InlineBinary:{}", e.vr), here.clone()))?;
                let got = base64::engine::general_purpose::STANDARD
                    .decode(s)
                    .map_err(|_| ("InlineBinary is not valid base64".to_string(), here.clone()))?;
                let want = encode_value(&e.vr, &e.v, false);
                let raw = match &e.v {
                    Val::U8(b) => b.len(),
                    _ => want.len(),
                };
                if got != want && got[..] != want[..raw] {
                    return Err((format!("InlineBinary is not the little-endian value bytes:{}", e.vr), format!("{here}: {} bytes vs {}", got.len(), want.len())));
                }
            }
            "SQ" => {
                let arr = value.and_then(|v| v.as_array()).ok_or_else(|| ("sequence Value is not an array".to_string(), here.clone()))?;
                if let Val::Seq { items, .. } = &e.v {
                    if arr.len() != items.len() {
                        return Err(("sequence Value has a different number of items".into(), format!("{here}: {} vs {}", arr.len(), items.len())));
                    }
                    for (i, (j, it)) in arr.iter().zip(items).enumerate() {
                        validate(j, &it.elems, &format!("{here}[{i}]"))?;
                    }
                }
            }
            vr => {
                let arr = value.and_then(|v| v.as_array()).ok_or_else(|| (format!("Value member missing or not an array:{vr}"), here.clone()))?;
                match vr {
                    "AT" => {
                        for v in arr {
                            let ok = v.as_str().map(is_tag_key).unwrap_or(false);
                            if !ok {
                                return Err(("AT value is not an eight-hex-digit string".into(), format!("{here}: {v}")));
                            }
                        }
                        if let Val::Tags(t) = &e.v {
                            let want: Vec<String> = t.iter().map(|(g, el)| format!("{g:04X}{el:04X}")).collect();
                            let got: Vec<String> = arr.iter().map(|v| v.as_str().unwrap_or("").to_string()).collect();
                            if want != got {
                                return Err(("AT values differ".into(), format!("{here}: {got:?} vs {want:?}")));
                            }
                        }
                    }
                    "PN" => {
                        for v in arr {
                            if v.is_null() {
                                continue;
                            }
                            let o = v.as_object().ok_or_else(|| ("PN value is not an object".to_string(), format!("{here}: {v}")))?;
                            if !o.contains_key("Alphabetic") && !o.contains_key("Ideographic") && !o.contains_key("Phonetic") {
                                return Err(("PN value object without a component group member".into(), format!("{here}: {v}")));
                            }
                            for (k, x) in o {
                                if !["Alphabetic", "Ideographic", "Phonetic"].contains(&k.as_str()) || !x.is_string() {
                                    return Err(("PN value object has an invalid member".into(), format!("{here}: {k}")));
                                }
                            }
                        }
                    }
                    "FL" | "FD" | "SL" | "SS" | "UL" | "US" => {
                        for v in arr {
                            let ok = v.is_number() || matches!(v.as_str(), Some("NaN") | Some("inf") | Some("-inf")) && matches!(vr, "FL" | "FD");
                            if !ok {
                                return Err((format!("numeric VR value is not a JSON number:{vr}"), format!("{here}: {v}")));
                            }
                        }
                    }
                    "IS" | "DS" | "SV" | "UV" => {
                        for v in arr {
                            if !(v.is_number() || v.is_string() || v.is_null()) {
                                return Err((format!("{vr} value is neither number nor string"), format!("{here}: {v}")));
                            }
                        }
                    }
                    _ => {
                        for v in arr {
                            if !(v.is_string() || v.is_null()) {
                                return Err((format!("string VR value is not a JSON string:{vr}"), format!("{here}: {v}")));
                            }
                        }
                    }
                }
                // multiplicity: one JSON value per DICOM value
                let n = match &e.v {
                    Val::Str(_) => 1,
                    Val::Strs(s) => s.len(),
                    Val::U16(x) => x.len(),
                    Val::I16(x) => x.len(),
                    Val::U32(x) => x.len(),
                    Val::I32(x) => x.len(),
                    Val::U64(x) => x.len(),
                    Val::I64(x) => x.len(),
                    Val::F32(x) => x.len(),
                    Val::F64(x) => x.len(),
                    Val::Tags(x) => x.len(),
                    Val::Dates(x) | Val::Times(x) | Val::DateTimes(x) => x.len(),
                    _ => arr.len(),
                };
                if arr.len() != n {
                    return Err((format!("Value array length differs from the value multiplicity:{vr}"), format!("{here}: {} vs {n}", arr.len())));
                }
            }
        }
    }
    Ok(())
}
