//! Reference view of the standard dictionary, obtained by parsing the *source text* of the
//! generated table `/repo/dictionary-std/src/tags.rs` (constant definitions, doc comments and
//! `ENTRIES` rows are cross-checked against each other).

use std::collections::HashMap;

#[derive(Clone, Debug, PartialEq, Eq)]
pub enum Kind {
    Single,
    Group100,
    Element100,
}

#[derive(Clone, Debug)]
pub struct Entry {
    pub kind: Kind,
    pub tag: (u16, u16),
    pub alias: String,
    /// "UL", … or the virtual ones "Xs", "Ox", "Px", "Lt"
    pub vr: String,
    pub const_name: String,
}

impl Entry {
    /// the VR an implicit-VR decoder should assume (PS3.5 Annex A: US / OW for the context-dependent ones)
    pub fn relaxed_vr(&self) -> &str {
        match self.vr.as_str() {
            "Xs" => "US",
            "Ox" | "Px" | "Lt" => "OW",
            v => v,
        }
    }
}

pub struct Dict {
    pub entries: Vec<Entry>,
    pub consts: HashMap<String, (Kind, (u16, u16))>,
    pub problems: Vec<String>,
    exact: HashMap<(u16, u16), usize>,
    ggxx: HashMap<(u16, u16), usize>,
    eexx: HashMap<(u16, u16), usize>,
}

#[derive(Clone, Debug, PartialEq, Eq)]
pub enum Lookup {
    Entry(usize),
    PrivateCreator,
    GroupLength,
    None,
}

fn hex(s: &str) -> Option<u16> {
    u16::from_str_radix(s.trim().trim_start_matches("0x"), 16).ok()
}

fn parse_tag_call(s: &str) -> Option<(u16, u16)> {
    // Tag(0x0000, 0x0000)
    let i = s.find("Tag(")?;
    let rest = &s[i + 4..];
    let j = rest.find(')')?;
    let mut it = rest[..j].split(',');
    Some((hex(it.next()?)?, hex(it.next()?)?))
}

pub fn parse_tags_rs(src: &str) -> Dict {
    let mut consts: HashMap<String, (Kind, (u16, u16))> = HashMap::new();
    let mut docs: HashMap<String, String> = HashMap::new();
    let mut entries = vec![];
    let mut problems = vec![];
    let mut last_doc = String::new();
    let mut in_entries = false;
    for line in src.lines() {
        let t = line.trim();
        if let Some(d) = t.strip_prefix("/// ") {
            last_doc = d.to_string();
            continue;
        }
        if let Some(rest) = t.strip_prefix("pub const ") {
            if let Some((name, rhs)) = rest.split_once(':') {
                let rhs = rhs.trim();
                if rhs.starts_with("Tag =") {
                    if let Some(tag) = parse_tag_call(rhs) {
                        consts.insert(name.trim().to_string(), (Kind::Single, tag));
                        docs.insert(name.trim().to_string(), last_doc.clone());
                    } else {
                        problems.push(format!("cannot parse constant line: {t}"));
                    }
                } else if rhs.starts_with("TagRange =") {
                    let kind = if rhs.contains("Group100(") {
                        Kind::Group100
                    } else if rhs.contains("Element100(") {
                        Kind::Element100
                    } else {
                        problems.push(format!("unknown range kind: {t}"));
                        continue;
                    };
                    if let Some(tag) = parse_tag_call(rhs) {
                        consts.insert(name.trim().to_string(), (kind, tag));
                        docs.insert(name.trim().to_string(), last_doc.clone());
                    }
                }
            }
            continue;
        }
        if t.starts_with("pub(crate) const ENTRIES") {
            in_entries = true;
            continue;
        }
        if in_entries {
            if t.starts_with("];") {
                in_entries = false;
                continue;
            }
            if let Some(rest) = t.strip_prefix("E { tag: ") {
                // Single(NAME), alias: "X", vr: Exact(UL) }, // ...
                let (tagexpr, rest2) = match rest.split_once(", alias: \"") {
                    Some(x) => x,
                    None => {
                        problems.push(format!("bad entry row: {t}"));
                        continue;
                    }
                };
                let (alias, rest3) = match rest2.split_once("\", vr: ") {
                    Some(x) => x,
                    None => {
                        problems.push(format!("bad entry row: {t}"));
                        continue;
                    }
                };
                let vrexpr = rest3.split(" }").next().unwrap_or("").trim();
                let vr = if let Some(v) = vrexpr.strip_prefix("Exact(") {
                    v.trim_end_matches(')').to_string()
                } else {
                    vrexpr.to_string()
                };
                let (cname, wrapped_single) = if let Some(n) = tagexpr.strip_prefix("Single(") {
                    (n.trim_end_matches(')').to_string(), true)
                } else {
                    (tagexpr.to_string(), false)
                };
                match consts.get(&cname) {
                    Some((kind, tag)) => {
                        if wrapped_single != (*kind == Kind::Single) {
                            problems.push(format!("entry {alias}: kind mismatch with constant {cname}"));
                        }
                        // cross-check with the doc comment "Alias (gggg,eeee) VR VM ..."
                        if let Some(d) = docs.get(&cname) {
                            if !d.starts_with(alias) {
                                problems.push(format!("entry {alias}: doc comment says {d:?}"));
                            }
                            // "(gggg,eeee)" in the doc comment; 'x' marks the repeating digits
                            if let (Some(a), Some(b)) = (d.find('('), d.find(')')) {
                                let inner: String = d[a + 1..b].chars().filter(|c| *c != ',').collect();
                                let have = format!("{:04X}{:04X}", tag.0, tag.1);
                                if inner.len() == 8 {
                                    for (x, y) in inner.chars().zip(have.chars()) {
                                        if x != 'x' && x != 'X' && x.to_ascii_uppercase() != y {
                                            problems.push(format!("entry {alias}: doc comment tag {inner} vs constant {have}"));
                                            break;
                                        }
                                    }
                                }
                            }
                        }
                        entries.push(Entry {
                            kind: kind.clone(),
                            tag: *tag,
                            alias: alias.to_string(),
                            vr,
                            const_name: cname,
                        });
                    }
                    None => problems.push(format!("entry {alias}: constant {cname} not found")),
                }
            }
        }
    }
    let mut exact = HashMap::new();
    let mut ggxx = HashMap::new();
    let mut eexx = HashMap::new();
    for (i, e) in entries.iter().enumerate() {
        let m = match e.kind {
            Kind::Single => &mut exact,
            Kind::Group100 => &mut ggxx,
            Kind::Element100 => &mut eexx,
        };
        if m.insert(e.tag, i).is_some() {
            problems.push(format!("duplicate entry for tag {:?}", e.tag));
        }
    }
    Dict { entries, consts, problems, exact, ggxx, eexx }
}

impl Dict {
    pub fn load(path: &str) -> Result<Dict, String> {
        let src = std::fs::read_to_string(path).map_err(|e| format!("{path}: {e}"))?;
        let d = parse_tags_rs(&src);
        if d.entries.len() < 4000 {
            return Err(format!("only {} entries parsed from {path}", d.entries.len()));
        }
        Ok(d)
    }

    /// The lookup precedence of the published table as stated in C15:
    /// exact, repeating group (ggxx), repeating element (eexx), private creator, group length, none.
    pub fn lookup(&self, tag: (u16, u16)) -> Lookup {
        if let Some(i) = self.exact.get(&tag) {
            return Lookup::Entry(*i);
        }
        // a range entry's own base tag is also an exact hit
        if let Some(i) = self.ggxx.get(&tag) {
            return Lookup::Entry(*i);
        }
        if let Some(i) = self.eexx.get(&tag) {
            return Lookup::Entry(*i);
        }
        if let Some(i) = self.ggxx.get(&(tag.0 & 0xFF00, tag.1)) {
            return Lookup::Entry(*i);
        }
        if let Some(i) = self.eexx.get(&(tag.0, tag.1 & 0xFF00)) {
            return Lookup::Entry(*i);
        }
        if tag.0 & 1 == 1 && (0x0010..=0x00FF).contains(&tag.1) {
            return Lookup::PrivateCreator;
        }
        if tag.1 == 0 {
            return Lookup::GroupLength;
        }
        Lookup::None
    }

    /// VR an implicit-VR reader must assume for `tag` ("UN" when unknown)
    pub fn implicit_vr(&self, tag: (u16, u16)) -> &str {
        match self.lookup(tag) {
            Lookup::Entry(i) => self.entries[i].relaxed_vr(),
            Lookup::PrivateCreator => "LO",
            Lookup::GroupLength => "UL",
            Lookup::None => "UN",
        }
    }
}

/// An entry of a UID table in `uids.rs`: `E::new("uid", "name", "alias", Kind, retired)`
#[derive(Clone, Debug)]
pub struct UidEntry {
    pub uid: String,
    pub name: String,
    pub alias: String,
    pub kind: String,
    pub retired: bool,
    /// which table the row belongs to (e.g. SOP_CLASSES, TRANSFER_SYNTAXES)
    pub table: String,
}

/// Parse every `pub(crate) const <TABLE>: &[E] = &[ E::new(...), ... ];` table of uids.rs
pub fn parse_uids_rs(src: &str) -> Vec<UidEntry> {
    let mut out = vec![];
    let mut table: Option<String> = None;
    for line in src.lines() {
        let t = line.trim();
        if let Some(rest) = t.strip_prefix("pub(crate) const ") {
            if let Some((name, _)) = rest.split_once(':') {
                table = Some(name.trim().to_string());
            }
            continue;
        }
        if t.starts_with("];") {
            table = None;
            continue;
        }
        if let (Some(tb), Some(rest)) = (&table, t.strip_prefix("E::new(")) {
            // "uid", "name", "alias", Kind, bool),
            let mut strings = vec![];
            let mut cur = String::new();
            let mut in_str = false;
            let mut esc = false;
            let mut tail = String::new();
            for ch in rest.chars() {
                if strings.len() == 3 && !in_str {
                    tail.push(ch);
                    continue;
                }
                if in_str {
                    if esc {
                        cur.push(ch);
                        esc = false;
                    } else if ch == '\\' {
                        esc = true;
                    } else if ch == '"' {
                        in_str = false;
                        strings.push(std::mem::take(&mut cur));
                    } else {
                        cur.push(ch);
                    }
                } else if ch == '"' {
                    in_str = true;
                }
            }
            if strings.len() == 3 {
                let parts: Vec<&str> = tail.trim_matches(|c| c == ',' || c == ' ').trim_end_matches("),").trim_end_matches(')').split(',').map(|s| s.trim()).collect();
                let kind = parts.first().copied().unwrap_or("").to_string();
                let retired = parts.get(1).map(|s| s.starts_with("true")).unwrap_or(false);
                out.push(UidEntry { uid: strings[0].clone(), name: strings[1].clone(), alias: strings[2].clone(), kind, retired, table: tb.clone() });
            }
        }
    }
    out
}
