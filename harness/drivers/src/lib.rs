//! C05 drivers: one function per public reading entry point family.  Shared by the generator
//! tier (worker sub-processes of vcheck) and the libFuzzer targets.  A driver only calls
//! dicom-rs and reports how far the input got; it never asserts anything itself.
use dicom_core::dictionary::DataDictionary;
use dicom_core::value::{DicomDate, DicomDateTime, DicomTime, PersonName};
use dicom_core::{Tag, VR};
use dicom_dictionary_std::StandardDataDictionary;
use dicom_dump::DumpOptions;
use dicom_encoding::text::{SpecificCharacterSet, TextCodec};
use dicom_encoding::transfer_syntax::TransferSyntaxIndex;
use dicom_object::collector::DicomCollector;
use dicom_object::file::{OpenFileOptions, ReadPreamble};
use dicom_object::{FileDicomObject, FileMetaTable, InMemDicomObject};
use dicom_parser::dataset::lazy_read::LazyDataSetReader;
use dicom_parser::dataset::read::{DataSetReader, DataSetReaderOptions, OddLengthStrategy, ValueReadStrategy};
use dicom_pixeldata::PixelDecoder;
use dicom_transfer_syntax_registry::TransferSyntaxRegistry;
use std::io::{BufReader, Cursor};
use std::str::FromStr;

#[derive(Debug, Clone, Copy)]
pub struct Out {
    /// the entry point returned a value (false: an error)
    pub ok: bool,
    /// how much structure was produced (tokens, elements, PDUs, parsers that accepted)
    pub depth: u32,
}

pub const ENTRIES: [&str; 10] = ["file", "meta", "dsread", "lazy", "collector", "json", "pdu", "text", "dataset", "pixels"];

pub const TS_UIDS: [&str; 4] = ["1.2.840.10008.1.2", "1.2.840.10008.1.2.1", "1.2.840.10008.1.2.2", "1.2.840.10008.1.2.1.99"];

fn ts(i: u32) -> &'static dicom_encoding::TransferSyntax {
    TransferSyntaxRegistry.get(TS_UIDS[i as usize % 4]).expect("registered")
}

fn odd(i: u32) -> OddLengthStrategy {
    [OddLengthStrategy::Accept, OddLengthStrategy::NextEven, OddLengthStrategy::Fail][i as usize % 3]
}

/// whatever was read is also dumped, converted to JSON and (if it carries pixel data) decoded
fn after_read(obj: &FileDicomObject<InMemDicomObject>, params: u32) -> u32 {
    let mut sink = Vec::new();
    let mut o = DumpOptions::new();
    o.no_limit(params & 0x100 != 0).no_text_limit(params & 0x200 != 0).width(40 + (params >> 10) % 200);
    let _ = o.dump_file_to(&mut sink, obj);
    limited_dump(obj, params);
    let _ = dicom_json::to_string(obj);
    let mut n = 0;
    if obj.get(Tag(0x7FE0, 0x0010)).is_some() {
        n += pixels_of(obj);
    }
    n
}

/// `dump_*_to` lift every width limit for writers other than the standard output; the width-limited code
/// (what `dump_file` / `dump_object` and the CLI run on a terminal) is reached through the public `dump_element`
fn limited_dump(obj: &InMemDicomObject, params: u32) {
    let mut sink = Vec::new();
    let width = [0u32, 1, 20, 63, 64, 70, 80, 100, 120, 200][(params >> 10) as usize % 10] + (params >> 14) % 7;
    for e in obj.iter().take(64) {
        sink.clear();
        let _ = dicom_dump::dump_element(&mut sink, e, width, (params >> 17) % 3, params & 0x200 != 0, params & 0x100 != 0);
    }
}

fn pixels_of(obj: &FileDicomObject<InMemDicomObject>) -> u32 {
    let mut n = 0;
    if let Ok(d) = obj.decode_pixel_data() {
        n += 1;
        let _ = d.frame_data(0);
        let _ = d.frame_data(d.number_of_frames());
        let _ = d.to_vec::<u16>();
        let _ = d.to_vec::<f32>();
        let _ = d.to_vec_frame::<u8>(0);
    }
    for k in [0u32, 1, 2, 7, u32::MAX] {
        if obj.decode_pixel_data_frame(k).is_ok() {
            n += 1;
        }
    }
    n
}

pub fn drive(entry: u8, params: u32, data: &[u8]) -> Out {
    match ENTRIES[entry as usize % ENTRIES.len()] {
        "file" => file(params, data),
        "meta" => match FileMetaTable::from_reader(data) {
            Ok(t) => Out { ok: true, depth: 1 + t.transfer_syntax().len() as u32 },
            Err(_) => Out { ok: false, depth: (data.len() >= 4 && &data[..4] == b"DICM") as u32 },
        },
        "dsread" => dsread(params, data),
        "lazy" => lazy(params, data),
        "collector" => collector(params, data),
        "json" => json(data),
        "pdu" => pdu(params, data),
        "text" => text(data),
        "dataset" => {
            let t = ts(params);
            match InMemDicomObject::read_dataset_with_ts(data, t) {
                Ok(o) => {
                    let n = o.iter().count() as u32;
                    let mut sink = Vec::new();
                    let _ = dicom_dump::dump_object_to(&mut sink, &o);
                    limited_dump(&o, params);
                    let _ = dicom_json::to_string(&o);
                    // and written back in every syntax
                    for i in 0..4 {
                        let mut out = Vec::new();
                        let _ = o.write_dataset_with_ts(&mut out, ts(i));
                    }
                    Out { ok: true, depth: n }
                }
                Err(_) => Out { ok: false, depth: 0 },
            }
        }
        _ => {
            // "pixels": a complete file whose pixel data is to be decoded
            match dicom_object::from_reader(data) {
                Ok(o) => {
                    let n = pixels_of(&o);
                    Out { ok: n > 0, depth: 1 + n }
                }
                Err(_) => Out { ok: false, depth: 0 },
            }
        }
    }
}

fn file(params: u32, data: &[u8]) -> Out {
    let pre = [ReadPreamble::Auto, ReadPreamble::Never, ReadPreamble::Always][(params % 3) as usize];
    let mut o = OpenFileOptions::new().read_preamble(pre).odd_length_strategy(odd(params >> 2));
    match (params >> 4) % 4 {
        1 => o = o.read_until(Tag(0x7FE0, 0x0010)),
        2 => o = o.read_to(Tag(0x0010, 0x0010)),
        3 => o = o.read_until(Tag((params >> 16) as u16, 0x0010)),
        _ => {}
    }
    let r = if params & 0x40 != 0 {
        // through a real file
        match tempfile::NamedTempFile::new() {
            Ok(mut f) => {
                use std::io::Write;
                let _ = f.write_all(data);
                let _ = f.flush();
                o.open_file(f.path())
            }
            Err(_) => o.from_reader(data),
        }
    } else {
        o.from_reader(data)
    };
    match r {
        Ok(obj) => {
            let n = obj.iter().count() as u32;
            let m = after_read(&obj, params);
            Out { ok: true, depth: 1 + n + m }
        }
        Err(_) => Out { ok: false, depth: (data.len() >= 132 && &data[128..132] == b"DICM") as u32 },
    }
}

fn dsread(params: u32, data: &[u8]) -> Out {
    let vread = [ValueReadStrategy::Interpreted, ValueReadStrategy::Preserved, ValueReadStrategy::Raw][((params >> 2) % 3) as usize];
    let mut opts = DataSetReaderOptions::default().value_read(vread).flexible_decoding(params & 0x40 != 0);
    opts.odd_length = odd(params >> 4);
    match DataSetReader::new_with_ts_options(data, ts(params), opts) {
        Ok(r) => {
            let mut n = 0u32;
            for t in r {
                match t {
                    Ok(_) => n += 1,
                    Err(_) => return Out { ok: false, depth: n },
                }
                if n > 5_000_000 {
                    break;
                }
            }
            Out { ok: true, depth: n }
        }
        Err(_) => Out { ok: false, depth: 0 },
    }
}

fn lazy(params: u32, data: &[u8]) -> Out {
    match LazyDataSetReader::new_with_ts(Cursor::new(data), ts(params)) {
        Ok(mut r) => {
            let mut n = 0u32;
            let how = (params >> 2) % 4;
            loop {
                let Some(t) = r.advance() else { break };
                match t {
                    Ok(t) => {
                        n += 1;
                        let res = match how {
                            0 => t.into_owned().map(|_| ()).is_ok(),
                            1 => t.skip().is_ok(),
                            2 => {
                                // values are neither read nor skipped
                                drop(t);
                                true
                            }
                            _ => t.into_owned_with_strategy(ValueReadStrategy::Raw).map(|_| ()).is_ok(),
                        };
                        if !res {
                            return Out { ok: false, depth: n };
                        }
                    }
                    Err(_) => return Out { ok: false, depth: n },
                }
                if n > 5_000_000 {
                    break;
                }
            }
            Out { ok: true, depth: n }
        }
        Err(_) => Out { ok: false, depth: 0 },
    }
}

fn collector(params: u32, data: &[u8]) -> Out {
    let mut n = 0u32;
    let mut col = DicomCollector::new(BufReader::new(Cursor::new(data)));
    let mut ok = true;
    if params & 1 != 0 {
        ok &= col.read_preamble().is_ok();
    }
    match col.read_file_meta() {
        Ok(_) => n += 1,
        Err(_) => return Out { ok: false, depth: n },
    }
    let mut acc = InMemDicomObject::new_empty();
    let r = match (params >> 1) % 3 {
        0 => col.read_dataset_to_end(&mut acc),
        1 => col.read_dataset_up_to_pixeldata(&mut acc),
        _ => col.read_dataset_up_to(Tag((params >> 16) as u16, 0x0010), &mut acc),
    };
    ok &= r.is_ok();
    n += acc.iter().count() as u32;
    if (params >> 3) & 1 != 0 {
        let mut t = vec![];
        if col.read_basic_offset_table(&mut t).is_ok() {
            n += 1;
        }
    }
    for _ in 0..((params >> 4) % 6) {
        let mut b = vec![];
        match col.read_next_fragment(&mut b) {
            Ok(Some(_)) => n += 1,
            Ok(None) => break,
            Err(_) => {
                ok = false;
                break;
            }
        }
    }
    if (params >> 7) & 1 != 0 {
        let mut more = InMemDicomObject::new_empty();
        ok &= col.read_dataset_to_end(&mut more).is_ok();
        n += more.iter().count() as u32;
    }
    Out { ok, depth: n }
}

fn json(data: &[u8]) -> Out {
    let Ok(text) = std::str::from_utf8(data) else {
        return Out { ok: false, depth: 0 };
    };
    match dicom_json::from_str::<InMemDicomObject>(text) {
        Ok(o) => {
            let n = o.iter().count() as u32;
            let _ = dicom_json::to_string(&o);
            let mut sink = Vec::new();
            let _ = dicom_dump::dump_object_to(&mut sink, &o);
            limited_dump(&o, (data.len() as u32).wrapping_mul(2654435761));
            let mut out = Vec::new();
            let _ = o.write_dataset_with_ts(&mut out, ts(1));
            Out { ok: true, depth: 1 + n }
        }
        Err(_) => Out { ok: false, depth: text.trim_start().starts_with('{') as u32 },
    }
}

fn pdu(params: u32, data: &[u8]) -> Out {
    let max = match (params >> 1) % 4 {
        0 => dicom_ul::pdu::MAXIMUM_PDU_SIZE,
        1 => 16384,
        2 => 1018,
        _ => params >> 8,
    };
    let strict = params & 1 != 0;
    let mut n = 0u32;
    let mut ok = true;
    let mut cur = Cursor::new(data);
    loop {
        match dicom_ul::pdu::read_pdu(&mut cur, max, strict) {
            Ok(Some(p)) => {
                n += 1;
                // what was decoded can be printed and written back
                let _ = format!("{p:?}");
                let _ = p.short_description();
                let mut out = vec![];
                let _ = dicom_ul::pdu::write_pdu(&mut out, &p);
            }
            Ok(None) => break,
            Err(_) => {
                ok = false;
                break;
            }
        }
        if cur.position() as usize >= data.len() || n > 100_000 {
            break;
        }
    }
    // the same bytes through the wire helper, delivered in small reads
    let mut src = Chunked { data, pos: 0, step: 1 + (params >> 3) as usize % 37 };
    let mut buf = bytes::BytesMut::new();
    for _ in 0..(n + 1).min(64) {
        if dicom_ul::association::read_pdu_from_wire(&mut src, &mut buf, max, strict).is_err() {
            break;
        }
    }
    Out { ok, depth: n }
}

struct Chunked<'a> {
    data: &'a [u8],
    pos: usize,
    step: usize,
}
impl std::io::Read for Chunked<'_> {
    fn read(&mut self, b: &mut [u8]) -> std::io::Result<usize> {
        let n = b.len().min(self.step).min(self.data.len() - self.pos);
        b[..n].copy_from_slice(&self.data[self.pos..self.pos + n]);
        self.pos += n;
        Ok(n)
    }
}

pub const CHARSETS: [&str; 20] = [
    "ISO_IR 6", "ISO_IR 13", "ISO_IR 87", "ISO_IR 100", "ISO_IR 101", "ISO_IR 109", "ISO_IR 110", "ISO_IR 126", "ISO_IR 127", "ISO_IR 138", "ISO_IR 144", "ISO_IR 148", "ISO_IR 149", "ISO_IR 159", "ISO_IR 166", "ISO_IR 192", "ISO_IR 203", "GB18030", "GBK", "ISO 2022 IR 6",
];

fn text(data: &[u8]) -> Out {
    let mut n = 0u32;
    // byte-level parsers
    n += dicom_core::value::deserialize::parse_date(data).is_ok() as u32;
    n += dicom_core::value::deserialize::parse_date_partial(data).is_ok() as u32;
    n += dicom_core::value::deserialize::parse_time(data).is_ok() as u32;
    n += dicom_core::value::deserialize::parse_time_partial(data).is_ok() as u32;
    n += dicom_core::value::deserialize::parse_datetime_partial(data).is_ok() as u32;
    n += dicom_core::value::range::parse_date_range(data).is_ok() as u32;
    n += dicom_core::value::range::parse_time_range(data).is_ok() as u32;
    n += dicom_core::value::range::parse_datetime_range(data).is_ok() as u32;
    n += dicom_core::value::deserialize::read_number::<i64>(data).is_ok() as u32;
    n += dicom_core::value::deserialize::read_number::<f64>(data).is_ok() as u32;
    for c in CHARSETS {
        if let Some(cs) = SpecificCharacterSet::from_code(c) {
            n += cs.decode(data).is_ok() as u32;
        }
    }
    if let Ok(s) = std::str::from_utf8(data) {
        n += Tag::from_str(s).is_ok() as u32;
        n += VR::from_str(s).is_ok() as u32;
        n += StandardDataDictionary.parse_tag(s).is_some() as u32;
        n += StandardDataDictionary.parse_selector(s).is_ok() as u32;
        n += DicomDate::from_str(s).is_ok() as u32;
        n += DicomTime::from_str(s).is_ok() as u32;
        n += DicomDateTime::from_str(s).is_ok() as u32;
        let p = PersonName::from_text(s);
        let _ = p.to_dicom_string();
        n += s.parse::<dicom_ul::AeAddr<String>>().is_ok() as u32;
        n += s.parse::<dicom_ul::FullAeAddr<std::net::SocketAddr>>().is_ok() as u32;
        for c in CHARSETS {
            if let Some(cs) = SpecificCharacterSet::from_code(c) {
                let _ = cs.encode(s);
            }
        }
        n += SpecificCharacterSet::from_code(s).is_some() as u32;
    }
    Out { ok: n > 0, depth: n }
}
