//! PDU IR <-> dicom-ul conversion (shared by both harness builds).
use dicom_ul::pdu::*;
use refimpl::pdu::{PcProposed, PcResult, PduIr, Pdv, UserItem};

pub fn user_to_ul(u: &UserItem) -> UserVariableItem {
    match u {
        UserItem::MaxLength(n) => UserVariableItem::MaxLength(*n),
        UserItem::ImplClassUid(s) => UserVariableItem::ImplementationClassUID(s.clone()),
        UserItem::ImplVersion(s) => UserVariableItem::ImplementationVersionName(s.clone()),
        UserItem::ExtNeg(uid, d) => UserVariableItem::SopClassExtendedNegotiationSubItem(uid.clone(), d.clone()),
        UserItem::Role(uid, scu, scp) => UserVariableItem::ScuScpRoleSelectionSubItem(uid.clone(), RequestorRoles { scu: *scu, scp: *scp }),
        UserItem::UserIdentity { positive_response, ty, primary, secondary } => UserVariableItem::UserIdentityItem(UserIdentity::new(
            *positive_response,
            match ty {
                1 => UserIdentityType::Username,
                2 => UserIdentityType::UsernamePassword,
                3 => UserIdentityType::KerberosServiceTicket,
                4 => UserIdentityType::SamlAssertion,
                _ => UserIdentityType::Jwt,
            },
            primary.clone(),
            secondary.clone(),
        )),
        UserItem::Unknown(t, d) => UserVariableItem::Unknown(*t, d.clone()),
    }
}

pub fn user_from_ul(u: &UserVariableItem) -> UserItem {
    match u {
        UserVariableItem::MaxLength(n) => UserItem::MaxLength(*n),
        UserVariableItem::ImplementationClassUID(s) => UserItem::ImplClassUid(s.clone()),
        UserVariableItem::ImplementationVersionName(s) => UserItem::ImplVersion(s.clone()),
        UserVariableItem::SopClassExtendedNegotiationSubItem(uid, d) => UserItem::ExtNeg(uid.clone(), d.clone()),
        UserVariableItem::ScuScpRoleSelectionSubItem(uid, r) => UserItem::Role(uid.clone(), r.scu, r.scp),
        UserVariableItem::UserIdentityItem(i) => UserItem::UserIdentity {
            positive_response: i.positive_response_requested(),
            ty: match i.identity_type() {
                UserIdentityType::Username => 1,
                UserIdentityType::UsernamePassword => 2,
                UserIdentityType::KerberosServiceTicket => 3,
                UserIdentityType::SamlAssertion => 4,
                UserIdentityType::Jwt => 5,
                _ => 0,
            },
            primary: i.primary_field(),
            secondary: i.secondary_field(),
        },
        UserVariableItem::Unknown(t, d) => UserItem::Unknown(*t, d.clone()),
    }
}

fn reason_to_ul(r: u8) -> PresentationContextResultReason {
    match r {
        0 => PresentationContextResultReason::Acceptance,
        1 => PresentationContextResultReason::UserRejection,
        2 => PresentationContextResultReason::NoReason,
        3 => PresentationContextResultReason::AbstractSyntaxNotSupported,
        _ => PresentationContextResultReason::TransferSyntaxesNotSupported,
    }
}

pub fn reason_from_ul(r: &PresentationContextResultReason) -> u8 {
    match r {
        PresentationContextResultReason::Acceptance => 0,
        PresentationContextResultReason::UserRejection => 1,
        PresentationContextResultReason::NoReason => 2,
        PresentationContextResultReason::AbstractSyntaxNotSupported => 3,
        PresentationContextResultReason::TransferSyntaxesNotSupported => 4,
    }
}

fn rj_source_to_ul(source: u8, reason: u8) -> AssociationRJSource {
    match (source, reason) {
        (1, 1) => AssociationRJSource::ServiceUser(AssociationRJServiceUserReason::NoReasonGiven),
        (1, 2) => AssociationRJSource::ServiceUser(AssociationRJServiceUserReason::ApplicationContextNameNotSupported),
        (1, 3) => AssociationRJSource::ServiceUser(AssociationRJServiceUserReason::CallingAETitleNotRecognized),
        (1, 7) => AssociationRJSource::ServiceUser(AssociationRJServiceUserReason::CalledAETitleNotRecognized),
        (1, x) => AssociationRJSource::ServiceUser(AssociationRJServiceUserReason::Reserved(x)),
        (2, 1) => AssociationRJSource::ServiceProviderASCE(AssociationRJServiceProviderASCEReason::NoReasonGiven),
        (2, _) => AssociationRJSource::ServiceProviderASCE(AssociationRJServiceProviderASCEReason::ProtocolVersionNotSupported),
        (_, 1) => AssociationRJSource::ServiceProviderPresentation(AssociationRJServiceProviderPresentationReason::TemporaryCongestion),
        (_, 2) => AssociationRJSource::ServiceProviderPresentation(AssociationRJServiceProviderPresentationReason::LocalLimitExceeded),
        (_, x) => AssociationRJSource::ServiceProviderPresentation(AssociationRJServiceProviderPresentationReason::Reserved(x)),
    }
}

pub fn rj_source_from_ul(s: &AssociationRJSource) -> (u8, u8) {
    match s {
        AssociationRJSource::ServiceUser(r) => (
            1,
            match r {
                AssociationRJServiceUserReason::NoReasonGiven => 1,
                AssociationRJServiceUserReason::ApplicationContextNameNotSupported => 2,
                AssociationRJServiceUserReason::CallingAETitleNotRecognized => 3,
                AssociationRJServiceUserReason::CalledAETitleNotRecognized => 7,
                AssociationRJServiceUserReason::Reserved(x) => *x,
            },
        ),
        AssociationRJSource::ServiceProviderASCE(r) => (
            2,
            match r {
                AssociationRJServiceProviderASCEReason::NoReasonGiven => 1,
                AssociationRJServiceProviderASCEReason::ProtocolVersionNotSupported => 2,
            },
        ),
        AssociationRJSource::ServiceProviderPresentation(r) => (
            3,
            match r {
                AssociationRJServiceProviderPresentationReason::TemporaryCongestion => 1,
                AssociationRJServiceProviderPresentationReason::LocalLimitExceeded => 2,
                AssociationRJServiceProviderPresentationReason::Reserved(x) => *x,
            },
        ),
    }
}

fn abort_to_ul(source: u8, reason: u8) -> AbortRQSource {
    match source {
        0 => AbortRQSource::ServiceUser,
        1 => AbortRQSource::Reserved,
        _ => AbortRQSource::ServiceProvider(match reason {
            0 => AbortRQServiceProviderReason::ReasonNotSpecified,
            1 => AbortRQServiceProviderReason::UnrecognizedPdu,
            2 => AbortRQServiceProviderReason::UnexpectedPdu,
            3 => AbortRQServiceProviderReason::Reserved,
            4 => AbortRQServiceProviderReason::UnrecognizedPduParameter,
            5 => AbortRQServiceProviderReason::UnexpectedPduParameter,
            _ => AbortRQServiceProviderReason::InvalidPduParameter,
        }),
    }
}

pub fn abort_from_ul(s: &AbortRQSource) -> (u8, u8) {
    match s {
        AbortRQSource::ServiceUser => (0, 0),
        AbortRQSource::Reserved => (1, 0),
        AbortRQSource::ServiceProvider(r) => (
            2,
            match r {
                AbortRQServiceProviderReason::ReasonNotSpecified => 0,
                AbortRQServiceProviderReason::UnrecognizedPdu => 1,
                AbortRQServiceProviderReason::UnexpectedPdu => 2,
                AbortRQServiceProviderReason::Reserved => 3,
                AbortRQServiceProviderReason::UnrecognizedPduParameter => 4,
                AbortRQServiceProviderReason::UnexpectedPduParameter => 5,
                AbortRQServiceProviderReason::InvalidPduParameter => 6,
            },
        ),
    }
}

pub fn to_ul(p: &PduIr) -> Pdu {
    match p {
        PduIr::AssocRq { protocol_version, called, calling, app_ctx, pcs, user } => Pdu::AssociationRQ(AssociationRQ {
            protocol_version: *protocol_version,
            calling_ae_title: calling.clone(),
            called_ae_title: called.clone(),
            application_context_name: app_ctx.clone(),
            presentation_contexts: pcs
                .iter()
                .map(|pc| PresentationContextProposed { id: pc.id, abstract_syntax: pc.abstract_syntax.clone(), transfer_syntaxes: pc.transfer_syntaxes.clone() })
                .collect(),
            user_variables: user.iter().map(user_to_ul).collect(),
        }),
        PduIr::AssocAc { protocol_version, called, calling, app_ctx, pcs, user } => Pdu::AssociationAC(AssociationAC {
            protocol_version: *protocol_version,
            calling_ae_title: calling.clone(),
            called_ae_title: called.clone(),
            application_context_name: app_ctx.clone(),
            presentation_contexts: pcs
                .iter()
                .map(|pc| PresentationContextResult { id: pc.id, reason: reason_to_ul(pc.reason), transfer_syntax: pc.transfer_syntax.clone() })
                .collect(),
            user_variables: user.iter().map(user_to_ul).collect(),
        }),
        PduIr::AssocRj { result, source, reason } => Pdu::AssociationRJ(AssociationRJ {
            result: if *result == 1 { AssociationRJResult::Permanent } else { AssociationRJResult::Transient },
            source: rj_source_to_ul(*source, *reason),
        }),
        PduIr::PData { pdvs } => Pdu::PData {
            data: pdvs
                .iter()
                .map(|v| PDataValue {
                    presentation_context_id: v.pc_id,
                    value_type: if v.command { PDataValueType::Command } else { PDataValueType::Data },
                    is_last: v.last,
                    data: v.data.clone(),
                })
                .collect(),
        },
        PduIr::ReleaseRq => Pdu::ReleaseRQ,
        PduIr::ReleaseRp => Pdu::ReleaseRP,
        PduIr::Abort { source, reason } => Pdu::AbortRQ { source: abort_to_ul(*source, *reason) },
        PduIr::Unknown { ty, data } => Pdu::Unknown { pdu_type: *ty, data: data.clone() },
    }
}

pub fn from_ul(p: &Pdu) -> PduIr {
    match p {
        Pdu::AssociationRQ(r) => PduIr::AssocRq {
            protocol_version: r.protocol_version,
            called: r.called_ae_title.clone(),
            calling: r.calling_ae_title.clone(),
            app_ctx: r.application_context_name.clone(),
            pcs: r
                .presentation_contexts
                .iter()
                .map(|pc| PcProposed { id: pc.id, abstract_syntax: pc.abstract_syntax.clone(), transfer_syntaxes: pc.transfer_syntaxes.clone() })
                .collect(),
            user: r.user_variables.iter().map(user_from_ul).collect(),
        },
        Pdu::AssociationAC(r) => PduIr::AssocAc {
            protocol_version: r.protocol_version,
            called: r.called_ae_title.clone(),
            calling: r.calling_ae_title.clone(),
            app_ctx: r.application_context_name.clone(),
            pcs: r
                .presentation_contexts
                .iter()
                .map(|pc| PcResult { id: pc.id, reason: reason_from_ul(&pc.reason), transfer_syntax: pc.transfer_syntax.clone() })
                .collect(),
            user: r.user_variables.iter().map(user_from_ul).collect(),
        },
        Pdu::AssociationRJ(r) => {
            let (source, reason) = rj_source_from_ul(&r.source);
            PduIr::AssocRj { result: if r.result == AssociationRJResult::Permanent { 1 } else { 2 }, source, reason }
        }
        Pdu::PData { data } => PduIr::PData {
            pdvs: data
                .iter()
                .map(|v| Pdv { pc_id: v.presentation_context_id, command: v.value_type == PDataValueType::Command, last: v.is_last, data: v.data.clone() })
                .collect(),
        },
        Pdu::ReleaseRQ => PduIr::ReleaseRq,
        Pdu::ReleaseRP => PduIr::ReleaseRp,
        Pdu::AbortRQ { source } => {
            let (source, reason) = abort_from_ul(source);
            PduIr::Abort { source, reason }
        }
        Pdu::Unknown { pdu_type, data } => PduIr::Unknown { ty: *pdu_type, data: data.clone() },
    }
}

