use dicom_core::header::{HasLength, Header};
use dicom_encoding::transfer_syntax::{Codec, TransferSyntaxIndex};
use dicom_encoding::Endianness;
use dicom_transfer_syntax_registry::TransferSyntaxRegistry;
use refimpl::ds::{header_layout, Ts};
use serde_json::{json, Value};

/// which reference layout (if any) a decoder understands: feed the three reference encodings of
/// (0008,0018) UI length 10 and see which one comes back as tag/UI/10
fn decoder_syntax(ts: &dicom_encoding::TransferSyntax) -> Vec<String> {
    let mut out = vec![];
    let Some(dec) = ts.decoder_for::<std::io::Cursor<Vec<u8>>>() else { return out };
    for r in Ts::ALL {
        let mut b = header_layout(r, "UI", (0x0008, 0x0018), 10).unwrap();
        b.extend_from_slice(b"1.2.3.4.5\0");
        let mut src = std::io::Cursor::new(b);
        if let Ok((h, n)) = dec.decode_header(&mut src) {
            let hl = if r.explicit() { 8 } else { 8 };
            if h.tag().0 == 0x0008 && h.tag().1 == 0x0018 && h.length().0 == 10 && n == hl && h.vr().to_string() == "UI" {
                out.push(format!("{r:?}"));
            }
        }
    }
    out
}

fn encoder_syntax(ts: &dicom_encoding::TransferSyntax) -> Vec<String> {
    let mut out = vec![];
    let Some(enc) = ts.encoder_for::<Vec<u8>>() else { return out };
    let mut buf: Vec<u8> = vec![];
    let hdr = dicom_core::header::DataElementHeader::new(dicom_core::Tag(0x0008, 0x0018), dicom_core::VR::UI, dicom_core::header::Length(10));
    if enc.encode_element_header(&mut buf, hdr).is_ok() {
        for r in Ts::ALL {
            if header_layout(r, "UI", (0x0008, 0x0018), 10).unwrap() == buf {
                out.push(format!("{r:?}"));
            }
        }
    }
    out
}

pub fn describe() -> Value {
    let mut list = vec![];
    for ts in TransferSyntaxRegistry.iter() {
        let codec = match ts.codec() {
            Codec::None => json!({"kind": "none"}),
            Codec::Dataset(d) => json!({"kind": "dataset", "adapter": d.is_some()}),
            Codec::EncapsulatedPixelData(r, w) => json!({"kind": "encapsulated", "reader": r.is_some(), "writer": w.is_some()}),
        };
        let uid = ts.uid();
        let lookups: Vec<Value> = ["", "\0", " ", "\0\0", "  ", " \0"]
            .iter()
            .map(|suffix| {
                let q = format!("{uid}{suffix}");
                json!({"suffix": suffix, "found_uid": TransferSyntaxRegistry.get(&q).map(|t| t.uid())})
            })
            .collect();
        list.push(json!({
            "uid": uid,
            "name": ts.name(),
            "endianness": match ts.endianness() { Endianness::Little => "little", Endianness::Big => "big" },
            "codec": codec,
            "is_fully_supported": ts.is_fully_supported(),
            "is_codec_free": ts.is_codec_free(),
            "is_unsupported": ts.is_unsupported(),
            "is_encapsulated_pixel_data": ts.is_encapsulated_pixel_data(),
            "is_unsupported_pixel_encapsulation": ts.is_unsupported_pixel_encapsulation(),
            "can_decode_all": ts.can_decode_all(),
            "can_decode_dataset": ts.can_decode_dataset(),
            "decoder_some": ts.decoder_for::<std::io::Cursor<Vec<u8>>>().is_some(),
            "encoder_some": ts.encoder_for::<Vec<u8>>().is_some(),
            "pixel_data_reader_some": ts.pixel_data_reader().is_some(),
            "pixel_data_writer_some": ts.pixel_data_writer().is_some(),
            "decoder_understands": decoder_syntax(ts),
            "encoder_writes": encoder_syntax(ts),
            "lookups": lookups,
        }));
    }
    json!({
        "count": list.len(),
        "unknown_uid_lookup": TransferSyntaxRegistry.get("1.2.3.4.5.6.7.8.9").map(|t| t.uid()),
        "empty_lookup": TransferSyntaxRegistry.get("").map(|t| t.uid()),
        "entries": list,
    })
}
