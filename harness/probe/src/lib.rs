//! Probing code that must behave identically in both harness builds; only the cargo features of
//! dicom-transfer-syntax-registry differ between them.
pub mod registry;
pub mod negotiate;
pub mod pduconv;
