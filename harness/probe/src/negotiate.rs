//! Runs the acceptor's request processing (hook `verif_process_rq`) for one configuration and request.
use crate::pduconv::{from_ul, to_ul};
use dicom_ul::association::server::ServerAssociationOptions;
use refimpl::negotiate::AcceptorCfg;
use refimpl::pdu::PduIr;
use serde::{Deserialize, Serialize};

#[derive(Clone, Debug, Serialize, Deserialize)]
pub struct NegCase {
    pub cfg: AcceptorCfg,
    pub req: PduIr,
}

#[derive(Clone, Debug, Serialize, Deserialize)]
pub struct NegOut {
    pub reply: PduIr,
    /// Some(requestor max PDU length) when accepted
    pub peer_max: Option<u32>,
}

pub fn run(c: &NegCase) -> NegOut {
    let mut o = ServerAssociationOptions::new().ae_title(c.cfg.ae_title.clone()).promiscuous(c.cfg.promiscuous);
    for a in &c.cfg.abstract_syntaxes {
        o = o.with_abstract_syntax(a.clone());
    }
    for t in &c.cfg.transfer_syntaxes {
        o = o.with_transfer_syntax(t.clone());
    }
    if let Some(m) = c.cfg.max_pdu_length {
        o = o.max_pdu_length(m);
    }
    let msg = to_ul(&c.req);
    let r = if c.cfg.accept_called_only { o.accept_called_ae_title().verif_process_rq(msg) } else { o.verif_process_rq(msg) };
    match r {
        Ok((pdu, max)) => NegOut { reply: from_ul(&pdu), peer_max: Some(max) },
        Err(pdu) => NegOut { reply: from_ul(&pdu), peer_max: None },
    }
}
